"""C06 — measurements sample the Born distribution and condition the rest correctly."""
import contextlib
import copy
import math
import warnings

warnings.filterwarnings("ignore")
import numpy as np  # noqa: E402

import strawberryfields as sf  # noqa: E402
from strawberryfields import ops  # noqa: E402
from strawberryfields.backends.bosonicbackend.bosoniccircuit import BosonicModes  # noqa: E402
from strawberryfields.backends.bosonicbackend.backend import BosonicBackend  # noqa: E402
from strawberryfields.backends.gaussianbackend.backend import GaussianBackend  # noqa: E402

from vlib import coq, sfgen  # noqa: E402

PROP = "C06"
LEVEL = "proof"
COQ_TARGETS = ["C06/Model.vo", "C06/ProofsSort.vo", "C06/ProofsCollate.vo", "C06/ProofsFock.vo",
               "C06/ProofsDyne.vo", "C06/ProofsRefuted.vo", "C06/Exec.vo"]
COQ_DIRS = ["C06"]
PROPERTIES_FILE = "Properties/C06.v"
ALLOWED_AXIOMS = set()
RULE = ("cases (pre-measurement state from a random entangling circuit on 1-4 modes, optionally with a deleted "
        "mode; measurement kind in {homodyne at an angle, heterodyne, photon counting, threshold}; measured "
        "subset and listing order; post-selection value or injected generator draw; shots; hbar; backend). "
        "Non-trivial = at least one unmeasured mode correlated with a measured one AND the measured modes, as "
        "listed, are not an ascending prefix 0..j of the register (single measured mode: mode != 0)")
TRUSTED_BASE = [
    "Coq 8.16.1 kernel; vm_compute evaluates the models on the cases; PrimFloat (binary64 primitives) only in the "
    "execution file coq/C06/Exec.v, which no theorem imports",
    "hand-written models coq/C06/Model.v (engine collation; Fock unIndex/argsort outcome permutation and "
    "marginal; one-mode general-dyne update of gaussiancircuit.py / bosoniccircuit.py on (mean, cov) in xpxp "
    "ordering, hbar=2 units; rotation and value scaling of backend.measure_homodyne and MeasureHomodyne._apply), "
    "tied to /repo by the correspondence run with injected numpy.random draws",
    "harness tools/props/c06.py: in-process replacement of numpy.random.{multivariate_normal,normal,choice,random,"
    "multinomial} to record arguments and inject draws; stubbing of backend.measure_fock for the collation tie; "
    "numpy linear algebra as the oracle for the independent conditional-state computations in the search",
    "Section hypothesis: the scalar operations satisfy Coq's field_theory (instantiated for Qc in Properties/C06.v)",
    "that the normal distribution N(r_B, V_B + sigma) IS the Born distribution of a general-dyne measurement of a "
    "Gaussian state is textbook (Serafini, p.129) and is assumed, not proved",
]
ASSUMPTIONS = [
    "one measured mode per homodyne/heterodyne call (the only way the backends call measure_dyne)",
    "GaussianModes.fromscovmat/scovmat and BosonicModes storage are treated as the (mean, cov) abstraction "
    "boundary; their round trip is validated by the correspondence, not proved",
    "numpy.random samples correctly from the distribution whose parameters it is handed",
]
MANIFEST_TEXT = (
    "Proved (full, unbounded): engine collation (samples_dict = all outcomes per mode in time order; sample matrix "
    "columns = measured modes strictly ascending, each the latest outcome) for every run history; Fock unIndex is "
    "the two-sided inverse of C-order raveling for every size/cutoff; the argsort scatter aligns outcomes with "
    "modes as listed for every duplicate-free list; the chop/Schur/reassemble pipeline equals the textbook "
    "conditional covariance and mean on every unmeasured index, identity/zero on the measured mode, for every "
    "register size and measured mode; inv2 is the inverse; rng parameters are the measured marginal (+sigma), for "
    "homodyne at an angle the mean/variance of x_phi (+eps^2); Gaussian and bosonic post-selected homodyne agree "
    "(p-draw = 0) and the p-draw enters by an explicit term; value-scaling round trips. "
    "Gaussian and bosonic post-selected heterodyne agree for every size, mode and value (full, since fix a15d68b; the "
    "pre-fix entry point is kept as *_old with its refutation witness and gap formula). "
    "Not proved (checked on the implementation only): Born rule as physics, Fock homodyne pdf, hafnian/torontonian "
    "samplers, bosonic rejection sampling and re-weighting, threshold conditional state (sequential mixture oracle, "
    "many detectors, cat states), dark counts (Poisson rates per listed mode), bosonic multi-shot sampling, TDM "
    "(shots, spatial modes, time bins) layout, project_reset on tensors, measurements after mode deletion on all backends.")

HBARS = [2.0, 2.0, 1.0, 0.5, 1.7]
EPS = 0.0002


# ------------------------------------------------------------------------------------------------
# implementation drivers

class Rng:
    """Replace numpy.random entry points: record arguments, return injected values."""

    NAMES = ("multivariate_normal", "normal", "choice", "random", "multinomial", "poisson")

    def __init__(self, mvn=None, normal=None, choice=None, random=0.5, multinomial=None, poisson=None):
        self.inj = dict(multivariate_normal=mvn, normal=normal, choice=choice, random=random, multinomial=multinomial, poisson=poisson)
        self.calls = []
        self.saved = {}

    def __enter__(self):
        for nm in self.NAMES:
            self.saved[nm] = getattr(np.random, nm)
            setattr(np.random, nm, self._make(nm))
        return self

    def __exit__(self, *a):
        for nm, f in self.saved.items():
            setattr(np.random, nm, f)

    def _make(self, nm):
        def f(*args, **kw):
            self.calls.append((nm, args, kw))
            inj = self.inj[nm]
            if callable(inj):
                return inj(*args, **kw)
            if inj is None:
                raise RuntimeError("unexpected numpy.random.%s call" % nm)
            if nm == "multivariate_normal":
                v = np.array(inj, dtype=float)
                size = kw.get("size", args[2] if len(args) > 2 else None)
                return v.reshape(1, -1) if size is not None else v
            if nm == "random":
                size = kw.get("size", args[0] if args else None)
                return np.array([inj]) if size is not None else inj
            return inj
        return f

    def of(self, nm):
        return [c for c in self.calls if c[0] == nm]


@contextlib.contextmanager
def hbar_set(h):
    old = sf.hbar
    sf.hbar = h
    try:
        yield
    finally:
        sf.hbar = old


def prefix_cmds(rng, n, live):
    """entangling circuit on the live modes (list of mode indices) giving a displaced, correlated, mixed state"""
    sub = sfgen.entangling_prefix(rng, len(live))
    out = []
    for name, params, modes, dag in sub:
        out.append([name, params, [live[m] for m in modes], dag])
    return out


def apply_cmds(q, cmds):
    for name, params, modes, dag in cmds:
        sfgen.make_op(name, params, dag) | tuple(q[m] for m in modes)


def meas_op(meas):
    kind = meas["kind"]
    sel = meas.get("select")
    if kind == "hom":
        return ops.MeasureHomodyne(meas["phi"], select=sel)
    if kind == "het":
        if isinstance(sel, (list, tuple)):
            sel = complex(sel[0], sel[1])
        return ops.MeasureHeterodyne(select=sel)
    if kind == "fock":
        return ops.MeasureFock(select=sel)
    if kind == "thr":
        return ops.MeasureThreshold(select=sel)
    raise ValueError(kind)


MEAS_METHODS = ("measure_homodyne", "measure_heterodyne", "measure_fock", "measure_threshold")


def run_case(spec, inject=None, backend_options=None):
    """spec: {backend, n, deleted: [modes], prefix: cmds, meas: {kind, modes, phi, select}, hbar, shots}
    One program: prefix, deletions, measurement.  The backend's measure_* entry points are wrapped
    (on the instance) to snapshot the pre-measurement circuit and to run the measurement itself with
    numpy.random replaced.  Returns dict(pre=..., post=..., samples=..., rp=..., eng=...)."""
    with hbar_set(spec.get("hbar", 2.0)):
        n = spec["n"]
        prog = sf.Program(n)
        meas = spec["meas"]
        with prog.context as q:
            apply_cmds(q, spec["prefix"])
            for m in spec.get("deleted", []):
                ops.Del | q[m]
            meas_op(meas) | tuple(q[m] for m in meas["modes"])
            for name, params, modes, dag in spec.get("suffix", []):
                sfgen.make_op(name, params, dag) | tuple(q[m] for m in modes)
        eng = sf.Engine(spec["backend"], backend_options=backend_options or spec.get("backend_options") or {})
        rp = Rng(**(inject or {}))
        snap = {}
        be = eng.backend

        def wrap(nm):
            orig = getattr(be, nm)

            def f(*a, **k):
                if "pre" not in snap:
                    snap["pre"] = read_circuit(eng, spec["backend"])
                with rp:
                    out = orig(*a, **k)
                snap["post"] = read_circuit(eng, spec["backend"])
                snap["ret"] = np.array(out)
                return out
            setattr(be, nm, f)
        for nm in MEAS_METHODS:
            if hasattr(be, nm):
                wrap(nm)
        res = eng.run(prog, shots=spec.get("shots", 1))
        return dict(pre=snap.get("pre"), post=snap.get("post"), ret=snap.get("ret"), samples=np.array(res.samples), samples_dict=res.samples_dict,
                    calls=rp.calls, eng=eng, result=res, rp=rp, regvals={r.ind: r.val for r in prog.reg_refs.values()})


def read_circuit(eng, backend):
    c = eng.backend.circuit
    if backend == "gaussian":
        return dict(mean=np.array(c.smean(), dtype=float), cov=np.array(c.scovmat(), dtype=float),
                    active=[a is not None for a in c.active])
    if backend == "bosonic":
        return dict(means=np.array(c.means), covs=np.array(c.covs), weights=np.array(c.weights),
                    active=[a is not None for a in c.active])
    st, pure = c.get_state()
    return dict(state=np.array(st), pure=pure)


def state_of(pre, backend):
    """(mean, cov) in xpxp, hbar=2 units for gaussian / single-peak bosonic"""
    if backend == "gaussian":
        return pre["mean"], pre["cov"]
    return np.real(pre["means"][0]), np.real(pre["covs"][0])


# ------------------------------------------------------------------------------------------------
# case generation

def gen_select(rng, kind):
    if kind == "hom":
        return rng.choice([0.0, 0.37, -0.5, 1.0, round(rng.uniform(-1.5, 1.5), 3), round(rng.uniform(-1.5, 1.5), 3)])
    re = rng.choice([0.0, 0.2, -0.3, round(rng.uniform(-1, 1), 3), round(rng.uniform(-1, 1), 3)])
    im = rng.choice([0.0, 0.1, -0.4, round(rng.uniform(-1, 1), 3), round(rng.uniform(-1, 1), 3)])
    return [re, im]


def gen_state_spec(rng, backend, max_n=4, allow_del=True):
    n_live = rng.choice([1, 2, 2, 3, 3, 4][:max(1, 2 * max_n - 2)])
    n_live = min(n_live, max_n)
    deleted = []
    n = n_live
    if allow_del and rng.random() < 0.25:
        n = n_live + 1
        deleted = [rng.randrange(n)]
    live = [m for m in range(n) if m not in deleted]
    # the prefix entangles the live modes with the to-be-deleted one too (so that deletion matters)
    return dict(backend=backend, n=n, deleted=deleted, live=live, prefix=prefix_cmds(rng, n, list(range(n))),
                hbar=rng.choice(HBARS))


def gen_dyne_case(rng, backend=None, kind=None, select=None):
    backend = backend or rng.choice(["gaussian", "bosonic"])
    spec = gen_state_spec(rng, backend)
    kind = kind or rng.choice(["hom", "het"])
    k = rng.choice(spec["live"])
    meas = dict(kind=kind, modes=[k])
    if kind == "hom":
        meas["phi"] = rng.choice(sfgen.ANGLES) if rng.random() < 0.5 else round(rng.uniform(-3.2, 3.2), 3)
    sel = (rng.random() < 0.5) if select is None else select
    if sel:
        meas["select"] = gen_select(rng, kind)
    spec["meas"] = meas
    spec["draw"] = [round(rng.gauss(0, 1.5), 4), round(rng.gauss(0, 1.5), 4)]
    return spec


def nontrivial_dyne(spec):
    return len(spec["live"]) >= 2 and spec["meas"]["modes"] != list(range(len(spec["meas"]["modes"])))


def dyne_inject(spec):
    d = spec["draw"]
    return dict(mvn=d, normal=d[1], choice=np.array([0]), random=0.5)


# ------------------------------------------------------------------------------------------------
# model side of the dyne correspondence

def fl(x):
    return coq.coq_float(float(x))


def fvec(v):
    return coq.coq_list([fl(x) for x in v])


def fmat(m):
    return coq.coq_list([fvec(r) for r in m])


def dyne_term(spec, pre):
    """Coq term evaluating the model on this case."""
    backend = spec["backend"]
    r, V = state_of(pre, backend)
    d = len(r)
    meas = spec["meas"]
    k = meas["modes"][0]
    s = math.sqrt(spec["hbar"] / 2.0)
    draw = spec["draw"]
    pre_ = "%d%%nat %s %s %d%%nat" % (d, fvec(r), fmat(V), k)
    if meas["kind"] == "hom":
        c, sn = math.cos(meas["phi"]), math.sin(meas["phi"])
        if "select" in meas:
            sel = meas["select"] / s  # MeasureHomodyne._apply
            if backend == "gaussian":
                return "x_g_hom_sel %s %s %s %s %s %s %s" % (pre_, fl(c), fl(sn), fl(2.0), fl(sel), fl(EPS), fl(draw[1]))
            return "x_b_hom_sel %s %s %s %s %s %s" % (pre_, fl(c), fl(sn), fl(2.0), fl(sel), fl(EPS))
        if backend == "gaussian":
            return "x_g_hom_sample %s %s %s %s %s %s" % (pre_, fl(c), fl(sn), fl(EPS), fl(draw[0]), fl(draw[1]))
        # bosonic sampling: rotate (numerically, as the implementation does) then generaldyne at the drawn value
        return None
    if "select" in meas:
        a = meas["select"]
        if backend == "gaussian":
            return "x_g_het_sel %s %s %s" % (pre_, fl(a[0]), fl(a[1]))
        return "x_b_het_sel %s %s %s" % (pre_, fl(a[0]), fl(a[1]))
    if backend == "gaussian":
        return "x_g_het_sample %s %s %s" % (pre_, fl(draw[0]), fl(draw[1]))
    sg = [[1.0, 0.0], [0.0, 1.0]]
    return "x_b_gendyne %s %s %d%%nat %s %s" % ("%d%%nat %s %s" % (d, fvec(r), fmat(V)), fmat(sg), k, fl(draw[0]), fl(draw[1]))


def rot_np(r, V, k, phi):
    """independent numpy rotation used only to prepare bosonic-sampling model inputs"""
    d = len(r)
    R = np.eye(d)
    c, s = math.cos(phi), math.sin(phi)
    R[2 * k, 2 * k] = c
    R[2 * k, 2 * k + 1] = s
    R[2 * k + 1, 2 * k] = -s
    R[2 * k + 1, 2 * k + 1] = c
    return R @ r, R @ V @ R.T


HEADER = ("From Coq Require Import List Arith PrimFloat.\nImport ListNotations.\n"
          "From SFV Require Import C06.Model C06.Exec.\n")


def eval_terms(ctx, name, terms, chunk=150):
    out = []
    for ci in range(0, len(terms), chunk):
        part = terms[ci:ci + chunk]
        text = HEADER + "Definition cases := [\n" + ";\n".join(part) + "].\nEval vm_compute in cases.\n"
        ok, vals, raw = ctx.coq_eval("%s_%d" % (name, ci // chunk), text, timeout=600)
        if not ok or not vals:
            ctx.obligation("correspondence:%s:shard%d" % (name, ci // chunk), False, raw[-2500:])
            return None
        out.extend(vals[0])
    return out


def close(a, b, tol):
    a, b = np.asarray(a, dtype=float), np.asarray(b, dtype=float)
    if a.shape != b.shape:
        return False
    if a.size == 0:
        return True
    return bool(np.all(np.abs(a - b) <= tol * np.maximum(1.0, np.maximum(np.abs(a), np.abs(b)))))


def post_state(out, backend):
    if backend == "gaussian":
        return out["post"]["mean"], out["post"]["cov"]
    return np.real(out["post"]["means"][0]), np.real(out["post"]["covs"][0])


def impl_rng_numbers(spec, out):
    """numbers handed to numpy.random by the implementation on this case, in the model's layout"""
    meas = spec["meas"]
    rp = out["rp"]
    if spec["backend"] == "gaussian":
        if meas["kind"] == "hom" and "select" in meas:
            c = rp.of("normal")
            if len(c) != 1:
                return None
            loc, scale = c[0][1][0], c[0][1][1]
            return [loc, scale ** 2]
        if "select" in meas:
            return []
        c = rp.of("multivariate_normal")
        if len(c) != 1:
            return None
        mean, cov = np.array(c[0][1][0], dtype=float), np.array(c[0][1][1], dtype=float)
        return [mean[0], mean[1], cov[0, 0], cov[0, 1], cov[1, 0], cov[1, 1]]
    if "select" in meas:
        return []
    c = rp.of("multivariate_normal")
    if len(c) != 1:
        return None
    mean, cov = np.array(c[0][1][0], dtype=float), np.array(c[0][1][1], dtype=float)
    return [mean[0], mean[1], cov[0, 0], cov[0, 1], cov[1, 0], cov[1, 1]]


def expected_sample(spec):
    meas = spec["meas"]
    s = math.sqrt(spec["hbar"] / 2.0)
    if "select" in meas:
        return meas["select"] if meas["kind"] == "hom" else complex(*meas["select"])
    d = spec["draw"]
    if meas["kind"] == "hom":
        return d[0] * s
    return complex(d[0], d[1]) / 2.0


def jsonable_spec(spec):
    return {k: v for k, v in spec.items() if k in ("backend", "n", "deleted", "live", "prefix", "hbar", "meas", "draw", "shots", "backend_options")}


def raise_sig(spec, e):
    """signature of an exception raised by a valid measurement: backend, kind, select/sample, exception type and
    whether every live mode was measured (the only situation in which the known crash occurs)"""
    allm = sorted(spec["meas"]["modes"]) == sorted(spec["live"]) and not spec.get("deleted")
    return "raises:%s:%s:%s:%s%s" % (spec["backend"], spec["meas"]["kind"], "select" if spec["meas"].get("select") is not None else "sample",
                                     type(e).__name__, ":all-modes-measured" if allm else "")


def corr_dyne(ctx):
    rng = ctx.rng
    n_cases = ctx.budget(200, 3000)
    cases = []
    for _ in range(n_cases):
        spec = gen_dyne_case(rng)
        try:
            out = run_case(spec, inject=dyne_inject(spec))
        except Exception as e:  # the implementation must not fail on valid inputs
            ctx.counterexample(raise_sig(spec, e),
                               "measurement raised %r" % (e,), dict(check="dyne-run", spec=jsonable_spec(spec)))
            continue
        pre = out["pre"]
        if spec["backend"] == "bosonic" and spec["meas"]["kind"] == "hom" and "select" not in spec["meas"]:
            # model the sampling path as generaldyne on the rotated state with sig_hom
            r, V = state_of(pre, "bosonic")
            k = spec["meas"]["modes"][0]
            r2, V2 = rot_np(r, V, k, spec["meas"]["phi"])
            sg = [[EPS ** 2, 0.0], [0.0, 1.0 / EPS ** 2]]
            term = "x_b_gendyne %d%%nat %s %s %s %d%%nat %s %s" % (len(r), fvec(r2), fmat(V2), fmat(sg), k,
                                                                  fl(spec["draw"][0]), fl(spec["draw"][1]))
        else:
            term = dyne_term(spec, pre)
        cases.append((spec, out, term))
        ctx.case(dict(kind="dyne", backend=spec["backend"], meas=spec["meas"], n=spec["n"], deleted=spec["deleted"], hbar=spec["hbar"]),
                 nontrivial=nontrivial_dyne(spec),
                 bucket="dyne:%s:%s:%s" % (spec["backend"], spec["meas"]["kind"], "select" if "select" in spec["meas"] else "sample"))
    vals = eval_terms(ctx, "cases_dyne", [c[2] for c in cases])
    if vals is None:
        return
    ctx.traces += len(cases)
    for (spec, out, term), mv in zip(cases, vals):
        m_mean, m_cov, m_extra = mv
        i_mean, i_cov = post_state(out, spec["backend"])
        tol = 2e-6 if spec["meas"]["kind"] == "hom" else 1e-9
        label = "%s:%s:%s" % (spec["backend"], spec["meas"]["kind"], "select" if "select" in spec["meas"] else "sample")
        bad = []
        if not close(m_mean, i_mean, tol):
            bad.append("mean")
        if not close(m_cov, i_cov, tol):
            bad.append("cov")
        rn = impl_rng_numbers(spec, out)
        if rn is None:
            bad.append("rng-call-count")
        else:
            m_rng = list(m_extra)
            if term.startswith("x_b_gendyne"):
                m_rng = m_rng[2:]
            if rn and not close(m_rng, rn, 1e-9):
                bad.append("rng-args")
        smp = out["samples"]
        exp = expected_sample(spec)
        if smp.shape != (1, 1) or abs(complex(smp[0, 0]) - complex(exp)) > 1e-9 * max(1, abs(exp)):
            bad.append("sample-value")
        if bad:
            data = dict(check="dyne-corr", spec=jsonable_spec(spec), bad=bad,
                        model=dict(mean=list(m_mean), cov=[list(r) for r in m_cov], extra=list(m_extra)),
                        impl=dict(mean=list(map(float, i_mean)), cov=[list(map(float, r)) for r in i_cov],
                                  rng=None if rn is None else list(map(float, rn)), sample=str(smp.tolist())))
            # does the property's own predicate fail here?  (independent textbook conditional state)
            fails = predicate_dyne(spec, out)
            if fails:
                ctx.counterexample("dyne:%s:%s" % (label, fails), "after %s on %s backend: %s differs from the textbook conditional state / expected value" % (spec["meas"], spec["backend"], fails), data)
            else:
                ctx.disagreement("corr:dyne:%s:%s" % (label, "+".join(bad)), "model and implementation differ in %s" % bad, data)


def textbook(r, V, k, sig, m):
    """independent numpy oracle: condition (r, V) (xpxp) on outcome m of a general-dyne with noise sig on mode k"""
    d = len(r)
    B_idx = [2 * k, 2 * k + 1]
    A_idx = [i for i in range(d) if i not in B_idx]
    VA, VAB, VB = V[np.ix_(A_idx, A_idx)], V[np.ix_(A_idx, B_idx)], V[np.ix_(B_idx, B_idx)]
    W = np.linalg.inv(VB + sig)
    Vn = np.eye(d)
    Vn[np.ix_(A_idx, A_idx)] = VA - VAB @ W @ VAB.T
    rn = np.zeros(d)
    rn[A_idx] = r[A_idx] + VAB @ W @ (np.asarray(m) - r[B_idx])
    return rn, Vn


def predicate_dyne(spec, out):
    """Property predicate for a one-mode dyne measurement on a (single-peak) phase-space backend:
    returned value as expected, post state = textbook conditional state for that value, measured mode vacuum.
    Returns None if it holds, else a short tag."""
    backend = spec["backend"]
    meas = spec["meas"]
    r, V = state_of(out["pre"], backend)
    k = meas["modes"][0]
    s = math.sqrt(spec["hbar"] / 2.0)
    smp = out["samples"]
    if smp.shape != (1, 1):
        return "sample-shape"
    val = smp[0, 0]
    exp = expected_sample(spec)
    if abs(complex(val) - complex(exp)) > 1e-9 * max(1, abs(exp)):
        return "sample-value"
    if meas["kind"] == "hom":
        r2, V2 = rot_np(r, V, k, meas["phi"])
        sig = np.diag([EPS ** 2, 1 / EPS ** 2])
        # the p outcome is irrelevant up to eps^2; use the mean so that the oracle does not depend on it
        m = [float(np.real(val)) / s, r2[2 * k + 1]]
        tol = 5e-6
    else:
        r2, V2 = r, V
        sig = np.eye(2)
        m = [2 * complex(val).real, 2 * complex(val).imag]
        tol = 1e-8
    rn, Vn = textbook(r2, V2, k, sig, m)
    i_mean, i_cov = post_state(out, backend)
    if not close(i_cov, Vn, tol):
        return "cov"
    if not close(i_mean, rn, tol):
        return "mean"
    return None



# ------------------------------------------------------------------------------------------------
# bosonic multi-peak post_select_generaldyne (circuit level) against the model + re-weighting

def gen_peaks_case(rng):
    n = rng.choice([1, 2, 2, 3])
    npk = rng.choice([1, 2, 3, 4])
    d = 2 * n
    nrng = np.random.RandomState(rng.randrange(2 ** 31))
    means, covs, weights = [], [], []
    for i in range(npk):
        A = nrng.normal(size=(d, d)) * 0.4
        covs.append((np.eye(d) + A @ A.T).tolist())
        means.append(np.round(nrng.normal(size=d), 3).tolist())
        weights.append(rng.choice([0.5, -0.25, 1.0, 0.3, 0.0 if i > 0 else 0.7, round(rng.uniform(-1, 1), 3)]))
    if abs(sum(weights)) < 0.05:
        weights[0] += 1.0
    k = rng.randrange(n)
    sigk = rng.choice(["het", "hom", "gen"])
    if sigk == "het":
        sig = [[1.0, 0.0], [0.0, 1.0]]
    elif sigk == "hom":
        sig = [[EPS ** 2, 0.0], [0.0, 1 / EPS ** 2]]
    else:
        a, b = rng.uniform(1.0, 3.0), rng.uniform(-0.5, 0.5)
        sig = [[a, b], [b, (1 + b * b) / a + rng.uniform(0, 1)]]
    vals = [round(rng.gauss(0, 1), 3), round(rng.gauss(0, 1), 3)]
    return dict(n=n, k=k, means=means, covs=covs, weights=weights, sig=sig, sigkind=sigk, vals=vals)


def run_peaks_impl(case):
    c = BosonicModes(case["n"], 1)
    c.weights = np.array(case["weights"], dtype=complex)
    c.means = np.array(case["means"], dtype=complex)
    c.covs = np.array(case["covs"], dtype=complex)
    c.post_select_generaldyne(np.array(case["sig"]), [case["k"]], np.array(case["vals"]))
    return np.array(c.weights), np.array(c.means), np.array(c.covs)


def corr_peaks(ctx):
    rng = ctx.rng
    n_cases = ctx.budget(50, 800)
    cases, terms = [], []
    for _ in range(n_cases):
        case = gen_peaks_case(rng)
        if case["n"] == 1:
            # all modes measured: exercised at engine level in the search; here the model needs an unmeasured block
            case["n"] = 2
            for i in range(len(case["means"])):
                case["means"][i] = case["means"][i] + [0.1, -0.2]
                cv = np.eye(4)
                cv[:2, :2] = np.array(case["covs"][i])
                case["covs"][i] = cv.tolist()
        try:
            w, m, cv = run_peaks_impl(case)
        except Exception as e:
            ctx.counterexample("peaks:raises:%s" % type(e).__name__, "post_select_generaldyne raised %r" % (e,), dict(check="peaks", case=case))
            continue
        d = 2 * case["n"]
        for i in range(len(case["weights"])):
            terms.append("x_b_gendyne %d%%nat %s %s %s %d%%nat %s %s" % (d, fvec(case["means"][i]), fmat(case["covs"][i]), fmat(case["sig"]),
                                                                        case["k"], fl(case["vals"][0]), fl(case["vals"][1])))
        cases.append((case, w, m, cv))
        ctx.case(dict(kind="peaks", n=case["n"], k=case["k"], peaks=len(case["weights"]), sig=case["sigkind"]),
                 nontrivial=case["n"] >= 2 and case["k"] != 0 and len(case["weights"]) > 1, bucket="peaks:%s:%d" % (case["sigkind"], len(case["weights"])))
    vals = eval_terms(ctx, "cases_peaks", terms)
    if vals is None:
        return
    ctx.traces += len(cases)
    pos = 0
    for case, w, m, cv in cases:
        npk = len(case["weights"])
        mv = vals[pos:pos + npk]
        pos += npk
        g = np.array([math.exp(-0.5 * x[2][0]) / math.sqrt((2 * math.pi) ** 2 * x[2][1]) if x[2][1] > 0 else float("nan") for x in mv])
        wn = np.array(case["weights"]) * g
        wn = wn / np.sum(wn)
        keep = np.abs(wn) > 0
        tol = 2e-6 if case["sigkind"] == "hom" else 1e-9
        bad = []
        if len(w) != int(keep.sum()):
            bad.append("pruning")
        else:
            if not close(np.real(w), wn[keep], 1e-8) or np.abs(np.imag(w)).max(initial=0) > 1e-12:
                bad.append("weights")
            mm = [x[0] for x, kp in zip(mv, keep) if kp]
            mc = [x[1] for x, kp in zip(mv, keep) if kp]
            if not close(np.real(m), mm, tol):
                bad.append("means")
            if not close(np.real(cv), mc, tol):
                bad.append("covs")
        if bad:
            data = dict(check="peaks", case=case, bad=bad, impl=dict(weights=[str(x) for x in w]))
            fails = predicate_peaks(case, w, m, cv)
            if fails:
                ctx.counterexample("peaks:" + fails, "post_select_generaldyne on a %d-peak state: %s differs from the independent conditional mixture" % (npk, fails), data)
            else:
                ctx.disagreement("corr:peaks:" + "+".join(bad), "model and implementation differ in %s" % bad, data)


def predicate_peaks(case, w, m, cv):
    """independent oracle: every peak conditioned by the textbook formula, weights multiplied by the
    Gaussian likelihood of the outcome and renormalised"""
    sig = np.array(case["sig"])
    k = case["k"]
    vals = np.array(case["vals"])
    ws, ms, cs = [], [], []
    for wi, ri, Vi in zip(case["weights"], case["means"], case["covs"]):
        ri, Vi = np.array(ri), np.array(Vi)
        rn, Vn = textbook(ri, Vi, k, sig, vals)
        C = Vi[np.ix_([2 * k, 2 * k + 1], [2 * k, 2 * k + 1])] + sig
        dlt = vals - ri[[2 * k, 2 * k + 1]]
        ws.append(wi * math.exp(-0.5 * dlt @ np.linalg.inv(C) @ dlt) / math.sqrt(np.linalg.det(2 * np.pi * C)))
        ms.append(rn)
        cs.append(Vn)
    ws = np.array(ws)
    ws = ws / ws.sum()
    keep = np.abs(ws) > 0
    tol = 5e-6 if case["sigkind"] == "hom" else 1e-8
    if len(w) != int(keep.sum()):
        return "pruning"
    if not close(np.real(w), ws[keep], 1e-7):
        return "weights"
    if not close(np.real(m), np.array(ms)[keep], tol):
        return "means"
    if not close(np.real(cv), np.array(cs)[keep], tol):
        return "covs"
    return None


# ------------------------------------------------------------------------------------------------
# collation: the engine's samples_dict / sample matrix / RegRef.val with a stubbed measurement

def gen_collation_case(rng):
    n = rng.choice([1, 2, 3, 4, 6, 12])
    shots = rng.choice([1, 1, 2, 3])
    ncmd = rng.randint(1, 5)
    cmds = []
    backend = rng.choice(["gaussian", "gaussian", "bosonic", "fock"])
    if backend == "fock" and n > 4:
        backend = "gaussian"
    allowed = {"gaussian": ["fock", "fock", "thr", "hom", "het"], "bosonic": ["thr", "thr", "hom", "het"], "fock": ["fock", "fock", "hom"]}[backend]
    for _ in range(ncmd):
        kind = rng.choice(allowed)
        if kind in ("hom", "het"):
            modes = [rng.randrange(n)]
        else:
            modes = rng.sample(range(n), rng.randint(1, min(n, 4)))
        cmds.append([kind, modes])
    return dict(backend=backend, n=n, shots=shots, cmds=cmds)


def code(ci, s, m):
    return ci * 1000 + s * 100 + m


def run_collation_impl(case):
    n = case["n"]
    prog = sf.Program(n)
    with prog.context as q:
        for kind, modes in case["cmds"]:
            op = {"fock": ops.MeasureFock(), "thr": ops.MeasureThreshold(), "hom": ops.MeasureHomodyne(0.3), "het": ops.MeasureHeterodyne()}[kind]
            op | tuple(q[m] for m in modes)
    opts = {"cutoff_dim": 2} if case["backend"] == "fock" else {}
    if case["backend"] == "fock" and n > 6:
        raise ValueError("too many modes for fock stub")
    eng = sf.Engine(case["backend"], backend_options=opts)
    counter = [0]
    log = []

    def stub_multi(modes, shots=1, select=None, **kw):
        ci = counter[0]
        counter[0] += 1
        modes = [modes] if isinstance(modes, int) else list(modes)
        log.append([int(m) for m in modes])
        return np.array([[code(ci, s, m) for m in modes] for s in range(shots)])

    def stub_hom(phi, mode, shots=1, select=None, **kw):
        return stub_multi([mode], shots=shots).astype(float)

    def stub_het(mode, shots=1, select=None, **kw):
        return stub_multi([mode], shots=shots).astype(float)

    eng.backend.measure_fock = stub_multi
    eng.backend.measure_threshold = stub_multi
    eng.backend.measure_homodyne = stub_hom
    eng.backend.measure_heterodyne = stub_het
    with hbar_set(2.0):
        res = eng.run(prog, shots=case["shots"])
    samples = np.array(res.samples)
    sd = {int(k): [np.array(v).tolist() for v in vs] for k, vs in res.samples_dict.items()}
    regvals = {r.ind: (None if r.val is None else np.array(r.val).tolist()) for r in prog.reg_refs.values()}
    return samples, sd, regvals, log


def collation_expected(case):
    """the property's own statement of the layout (independent of the model)"""
    per_mode = {}
    for ci, modes in enumerate(case["executed"]):
        for m in modes:
            per_mode.setdefault(m, []).append([code(ci, s, m) for s in range(case["shots"])])
    keys = sorted(per_mode)
    rows = [[per_mode[m][-1][s] for m in keys] for s in range(case["shots"])]
    return per_mode, keys, rows


def check_collation_impl(case, samples, sd, regvals):
    per_mode, keys, rows = collation_expected(case)
    if sorted(sd) != keys:
        return "dict-keys"
    for m in keys:
        got = [[int(round(float(np.real(x)))) for x in col] for col in sd[m]]
        if got != per_mode[m]:
            return "dict-values"
    if samples.shape != (case["shots"], len(keys)):
        return "matrix-shape"
    got = [[int(round(float(np.real(x)))) for x in row] for row in samples.tolist()]
    if got != rows:
        return "matrix-order"
    for m in range(case["n"]):
        v = regvals.get(m)
        if m in per_mode:
            if v is None or [int(round(float(np.real(x)))) for x in np.ravel(v)] != per_mode[m][-1]:
                return "regref-val"
        elif v is not None:
            return "regref-val-unmeasured"
    return None


def corr_collation(ctx):
    rng = ctx.rng
    n_cases = ctx.budget(150, 2500)
    cases, terms = [], []
    for _ in range(n_cases):
        case = gen_collation_case(rng)
        try:
            samples, sd, regvals, log = run_collation_impl(case)
            case["executed"] = log
        except Exception as e:
            ctx.counterexample("collation:raises:%s:%s" % (case["backend"], type(e).__name__), "run raised %r" % (e,), dict(check="collation", case=case))
            continue
        hist = []
        for ci, modes in enumerate(case["executed"]):
            cols = [coq.coq_list([coq.coq_Z(code(ci, s, m)) for s in range(case["shots"])]) for m in modes]
            hist.append("(%s, %s)" % (coq.coq_list(modes, str), coq.coq_list(cols)))
        h = coq.coq_list(hist)
        terms.append("(let d := run_cmds (list Z) %s in (sorted_cols (list Z) d, map (sd_get (list Z) d) (seq 0 %d), "
                     "transpose_cols 0%%Z %d (map snd (sorted_cols (list Z) d))))" % (h, case["n"], case["shots"]))
        cases.append((case, samples, sd, regvals))
        measured = sorted({m for _, ms in case["cmds"] for m in ms})
        ctx.case(dict(kind="collation", **case), nontrivial=measured != list(range(len(measured))) or any(ms != sorted(ms) for _, ms in case["cmds"]),
                 bucket="collation:%s:shots%d" % (case["backend"], case["shots"]))
    vals = []
    for ci in range(0, len(terms), 200):
        text = ("From Coq Require Import List Arith ZArith.\nImport ListNotations.\nFrom SFV Require Import C06.Model.\n"
                "Definition cases := [\n" + ";\n".join(terms[ci:ci + 200]) + "].\nEval vm_compute in cases.\n")
        ok, v, raw = ctx.coq_eval("cases_collation_%d" % (ci // 200), text, timeout=600)
        if not ok or not v:
            ctx.obligation("correspondence:collation:shard%d" % (ci // 200), False, raw[-2500:])
            return
        vals.extend(v[0])
    ctx.traces += len(cases)
    for (case, samples, sd, regvals), mv in zip(cases, vals):
        m_sorted, m_dict, m_rows = mv
        bad = []
        keys = [k for k, _ in m_sorted]
        if keys != sorted(sd):
            bad.append("keys")
        else:
            for m in range(case["n"]):
                got = [[int(round(float(np.real(x)))) for x in col] for col in sd.get(m, [])]
                if got != [list(c) for c in m_dict[m]]:
                    bad.append("dict")
                    break
            got = [[int(round(float(np.real(x)))) for x in row] for row in samples.tolist()] if samples.size else []
            if got != [list(r) for r in m_rows] and not (not got and all(len(r) == 0 for r in m_rows)):
                bad.append("matrix")
            for k, col in m_sorted:
                v = regvals.get(k)
                if v is None or [int(round(float(np.real(x)))) for x in np.ravel(v)] != list(col):
                    bad.append("regref")
                    break
        if bad:
            data = dict(check="collation", case=case, bad=bad, impl=dict(samples=str(samples.tolist()), samples_dict=str(sd), regvals=str(regvals)))
            fails = check_collation_impl(case, samples, sd, regvals)
            if fails:
                ctx.counterexample("collation:%s:%s" % (case["backend"] if case["backend"] == "bosonic" else "local", fails),
                                   "samples / samples_dict / RegRef.val layout wrong (%s)" % fails, data)
            else:
                ctx.disagreement("corr:collation:" + "+".join(bad), "model and implementation differ in %s" % bad, data)


# ------------------------------------------------------------------------------------------------
# Fock photon counting: probability vector handed to np.random.choice and outcome order

def fock_prefix(rng, n, weak=False, t=3):
    cmds = []
    for i in range(n):
        kind = rng.choice(["Fock", "Coherent", "Squeezed", "Vacuum"])
        if kind == "Fock":
            cmds.append(["Fock", [min(rng.choice([0, 1, 1, 2]), t - 1)], [i], False])
        elif kind == "Coherent":
            cmds.append(["Coherent", [round(rng.uniform(0.2, 0.7 if not weak else 0.4), 3), round(rng.uniform(-2, 2), 3)], [i], False])
        elif kind == "Squeezed":
            cmds.append(["Squeezed", [round(rng.uniform(0.1, 0.4 if not weak else 0.25), 3), round(rng.uniform(-2, 2), 3)], [i], False])
    for i in range(n - 1):
        cmds.append(["BSgate", [round(rng.uniform(0.3, 1.2), 3), round(rng.uniform(-1, 1), 3)], [i, i + 1], False])
    if n > 2:
        cmds.append(["BSgate", [round(rng.uniform(0.3, 1.2), 3), round(rng.uniform(-1, 1), 3)], [n - 1, 0], False])
    if rng.random() < 0.4:
        cmds.append(["LossChannel", [round(rng.uniform(0.5, 0.9), 3)], [rng.randrange(n)], False])
    return cmds


def gen_fock_case(rng, max_n=3):
    n = rng.randint(1, max_n)
    full_perm = rng.random() < 0.3
    if full_perm:
        n = max_n
    t = rng.choice([2, 3, 3, 4]) if n >= 3 else rng.choice([3, 4, 5])
    deleted = []
    ntot = n
    if rng.random() < 0.25:
        ntot = n + 1
        deleted = [rng.randrange(ntot)]
        if ntot >= 4:
            t = min(t, 3)
    live = [m for m in range(ntot) if m not in deleted]
    modes = rng.sample(live, n if full_perm else rng.randint(1, n))
    return dict(backend="fock", n=ntot, deleted=deleted, live=live, prefix=fock_prefix(rng, ntot, t=t), hbar=2.0,
                backend_options={"cutoff_dim": t}, meas=dict(kind="fock", modes=modes), u=rng.random())


def fock_axes(spec):
    """(number of axes of the Fock-backend tensor, axis of every listed mode): deleted modes are traced out of the
    tensor, so mode m sits on axis = its rank among the live modes"""
    live = spec.get("live") or list(range(spec["n"]))
    return len(live), [live.index(m) for m in spec["meas"]["modes"]]


def joint_probs(pre):
    st = pre["state"]
    if pre["pure"]:
        return (np.abs(st) ** 2).ravel()
    n = st.ndim // 2
    letters = "abcdefghij"[:n]
    return np.real(np.einsum("".join(c + c for c in letters) + "->" + letters, st)).ravel()


def choice_injector(u, record):
    def f(a, size=None, p=None, **kw):
        p = np.asarray(p, dtype=float)
        pos = [i for i in range(len(p)) if p[i] > 1e-9]
        i = pos[min(int(u * len(pos)), len(pos) - 1)]
        record["flat"] = i
        record["p"] = p.copy()
        record["a"] = list(a)
        return a[i] if size is None else np.array([a[i]])
    return f


def corr_fock(ctx):
    rng = ctx.rng
    n_cases = ctx.budget(50, 1200)
    cases, terms = [], []
    for _ in range(n_cases):
        spec = gen_fock_case(rng)
        rec = {}
        try:
            out = run_case(spec, inject=dict(choice=choice_injector(spec["u"], rec)))
        except Exception as e:
            ctx.counterexample("fock:raises:%s" % type(e).__name__, "MeasureFock raised %r" % (e,), dict(check="fock-run", spec=jsonable_spec(spec)))
            continue
        P = joint_probs(out["pre"])
        t = spec["backend_options"]["cutoff_dim"]
        nl, axes = fock_axes(spec)
        terms.append("x_fock %d%%nat %d%%nat %s %s %d%%nat" % (nl, t, coq.coq_list(axes, str), fvec(P), rec["flat"]))
        cases.append((spec, out, rec, P))
        ms = spec["meas"]["modes"]
        ctx.case(dict(kind="fock", n=spec["n"], cutoff=t, modes=ms, deleted=spec["deleted"]), nontrivial=spec["n"] >= 2 and ms != list(range(len(ms))),
                 bucket="fock:n%d:m%d%s" % (len(spec["live"]), len(ms), ":del" if spec["deleted"] else ""))
    vals = eval_terms(ctx, "cases_fock", terms, chunk=100)
    if vals is None:
        return
    ctx.traces += len(cases)
    for (spec, out, rec, P), mv in zip(cases, vals):
        m_dist, m_outcome = mv
        m_dist = np.array(m_dist, dtype=float)
        bad = []
        tot = m_dist.sum()
        if not close(m_dist / tot if tot > 0 else m_dist, rec["p"], 1e-6):
            bad.append("choice-p")
        smp = out["ret"]
        if smp.shape != (1, len(spec["meas"]["modes"])) or [int(x) for x in smp[0]] != list(m_outcome):
            bad.append("outcome")
        if bad:
            data = dict(check="fock-corr", spec=jsonable_spec(spec), u=spec["u"], bad=bad, flat=rec["flat"], model_outcome=list(m_outcome), impl_outcome=str(smp.tolist()))
            fails = predicate_fock(spec, out, rec)
            if fails:
                ctx.counterexample("fock:measure:" + fails, "MeasureFock on modes %s: %s wrong" % (spec["meas"]["modes"], fails), data)
            else:
                ctx.disagreement("corr:fock:" + "+".join(bad), "model and implementation differ in %s" % bad, data)


def fock_oracle(pre, n, t, modes, outcome):
    """independent numpy: probability of `outcome` on `modes` (as listed) and the conditional state with the
    measured modes reset to vacuum, as a density matrix with axes (i0..in-1, j0..jn-1)"""
    st = pre["state"]
    if pre["pure"]:
        rho = np.multiply.outer(st, st.conj())
    else:
        perm = list(range(0, 2 * n, 2)) + list(range(1, 2 * n, 2))
        rho = np.transpose(st, perm)
    idx = [slice(None)] * (2 * n)
    for m, x in zip(modes, outcome):
        idx[m] = x
        idx[n + m] = x
    sub = rho[tuple(idx)]  # axes: remaining rows then remaining cols
    rest = [m for m in range(n) if m not in modes]
    prob = np.real(np.einsum(sub, list(range(len(rest))) * 2)) if rest else float(np.real(sub))
    new = np.zeros_like(rho)
    idx0 = [slice(None)] * (2 * n)
    for m in modes:
        idx0[m] = 0
        idx0[n + m] = 0
    new[tuple(idx0)] = sub / prob if prob > 0 else sub
    return float(prob), new


def post_rho(post, n):
    st = post["state"]
    if post["pure"]:
        return np.multiply.outer(st, st.conj())
    return np.transpose(st, list(range(0, 2 * n, 2)) + list(range(1, 2 * n, 2)))


def predicate_fock(spec, out, rec=None):
    n, axes = fock_axes(spec)
    t = spec["backend_options"]["cutoff_dim"]
    modes = spec["meas"]["modes"]
    smp = out["ret"]
    if smp.shape != (1, len(modes)):
        return "sample-shape"
    outcome = [int(x) for x in smp[0]]
    # what the user sees: Result.samples has one column per measured mode in ascending mode order,
    # RegRef.val of each listed mode holds its own outcome
    order = sorted(range(len(modes)), key=lambda i: modes[i])
    if out["samples"].shape != (1, len(modes)) or [int(x) for x in out["samples"][0]] != [outcome[i] for i in order]:
        return "samples-not-ascending-by-mode"
    for m, x in zip(modes, outcome):
        v = out["regvals"].get(m)
        if v is None or int(np.ravel(v)[0]) != x:
            return "regref-val"
    sel = spec["meas"].get("select")
    if sel is not None and outcome != list(sel):
        return "select-not-reported"
    prob, rho_exp = fock_oracle(out["pre"], n, t, axes, outcome)
    if rec is not None and "p" in rec:
        # Born: the vector handed to choice is the marginal over the measured modes in ascending order
        P = joint_probs(out["pre"]).reshape([t] * n)
        rest = tuple(m for m in range(n) if m not in axes)
        marg = P.sum(axis=rest) if rest else P
        marg = marg.ravel()
        # the code zeroes entries below 1e-8 (absolute) before normalising: on a heavily truncated state (trace << 1)
        # that clipping is worth up to 1e-8/trace per entry after normalisation (false alarm of thorough seed 3, trace 0.0035)
        if not close(marg / marg.sum(), rec["p"], max(1e-6, 4e-8 / max(marg.sum(), 1e-300))):
            return "born-distribution"
        if list(rec["a"]) != list(range(len(marg))):
            return "choice-support"
        srt = sorted(modes)
        flat = 0
        for m in srt:
            flat = flat * t + outcome[modes.index(m)]
        if flat != rec["flat"]:
            return "outcome-order"
    if prob <= 1e-12:
        return "zero-probability-outcome"
    if not np.allclose(post_rho(out["post"], n), rho_exp, atol=1e-8):
        return "conditional-state"
    return None


# ------------------------------------------------------------------------------------------------
# search: the property's own predicate on the implementation.  Every check_* takes a JSON spec and returns a
# list of failures [(signature, what)], so that a replay file only needs {"check": name, "spec": spec}.

def with_select(spec, value):
    sp = copy.deepcopy(spec)
    kind = sp["meas"]["kind"]
    if kind == "hom":
        sp["meas"]["select"] = float(np.real(value))
    elif kind == "het":
        sp["meas"]["select"] = [float(complex(value).real), float(complex(value).imag)]
    else:
        sp["meas"]["select"] = [int(x) for x in value]
    return sp


def label_of(spec):
    return "%s:%s:%s" % (spec["backend"], spec["meas"]["kind"], "select" if spec["meas"].get("select") is not None else "sample")


def check_dyne(spec):
    """one homodyne / heterodyne measurement on a phase-space backend against the textbook conditional state"""
    try:
        out = run_case(spec, inject=dyne_inject(spec))
    except Exception as e:
        return [(raise_sig(spec, e), "measurement raised %r" % (e,))], None
    tag = predicate_dyne(spec, out)
    fails = []
    if tag:
        fails.append(("dyne:%s:%s" % (label_of(spec), tag),
                      "%s on mode %s (%s backend, hbar=%s): %s is not that of the textbook conditional state / expected value"
                      % (spec["meas"]["kind"], spec["meas"]["modes"], spec["backend"], spec["hbar"], tag)))
    # Born parameters handed to the generator, against an independent marginal of the pre-state
    btag = born_dyne(spec, out)
    if btag:
        fails.append(("born:%s:%s" % (label_of(spec), btag), "parameters handed to numpy.random are not the measured mode's marginal (%s)" % btag))
    return fails, out


def born_dyne(spec, out):
    meas = spec["meas"]
    if meas.get("select") is not None:
        return None
    r, V = state_of(out["pre"], spec["backend"])
    k = meas["modes"][0]
    c = out["rp"].of("multivariate_normal")
    if len(c) != 1:
        return "call-count"
    mean, cov = np.array(c[0][1][0], dtype=float), np.array(c[0][1][1], dtype=float)
    if meas["kind"] == "hom":
        cs, sn = math.cos(meas["phi"]), math.sin(meas["phi"])
        x, pq = 2 * k, 2 * k + 1
        mx = cs * r[x] + sn * r[pq]
        vx = cs * cs * V[x, x] + 2 * cs * sn * V[x, pq] + sn * sn * V[pq, pq]
        if abs(mean[0] - mx) > 1e-9 * max(1, abs(mx)):
            return "mean"
        if abs(cov[0, 0] - (vx + EPS ** 2)) > 1e-9 * max(1, abs(vx)):
            return "variance"
        if abs(cov[0, 1]) > 1e-3 * cov[1, 1] ** 0.5 * 10 and abs(cov[0, 1] - (-(cs * sn) * (V[x, x] - V[pq, pq]) + (cs * cs - sn * sn) * V[x, pq])) > 1e-8:
            return "xp-covariance"
        return None
    idx = [2 * k, 2 * k + 1]
    if not close(mean, r[idx], 1e-9):
        return "mean"
    if not close(cov, V[np.ix_(idx, idx)] + np.eye(2), 1e-9):
        return "covariance"
    return None


def check_dyne_family(spec):
    """sampled and post-selected measurement on both phase-space backends from the same pre-state spec:
    each against the textbook oracle; sampled-vs-selected on the returned value; Gaussian-vs-bosonic"""
    fails = []
    posts = {}
    for backend in ("gaussian", "bosonic"):
        sp = copy.deepcopy(spec)
        sp["backend"] = backend
        sp["meas"].pop("select", None)
        f, out = check_dyne(sp)
        fails += f
        if out is None:
            continue
        v = out["samples"][0, 0]
        sp2 = with_select(sp, v)
        f2, out2 = check_dyne(sp2)
        fails += f2
        if out2 is None:
            continue
        tol = 5e-6 if sp["meas"]["kind"] == "hom" else 1e-8
        a, b = post_state(out, backend), post_state(out2, backend)
        if not (close(a[0], b[0], tol) and close(a[1], b[1], tol)):
            fails.append(("sample-vs-select:%s:%s" % (backend, sp["meas"]["kind"]),
                          "%s backend: state after sampling outcome %s differs from the state after post-selecting that value" % (backend, v)))
        posts[backend] = (b, out2["samples"][0, 0])
    if len(posts) == 2:
        tol = 5e-6 if spec["meas"]["kind"] == "hom" else 1e-8
        (g, gv), (b, bv) = posts["gaussian"], posts["bosonic"]
        if not (close(g[0], b[0], tol) and close(g[1], b[1], tol)):
            fails.append(("select:%s:gaussian-vs-bosonic" % spec["meas"]["kind"],
                          "post-selecting %s=%s on mode %s gives different conditional states on the gaussian and bosonic backends (max mean difference %.3g)"
                          % (spec["meas"]["kind"], gv, spec["meas"]["modes"], float(np.max(np.abs(np.array(g[0]) - np.array(b[0]))))))) 
    return fails


def check_fock(spec):
    rec = {}
    inject = dict(choice=choice_injector(spec.get("u", 0.5), rec))
    try:
        out = run_case(spec, inject=inject)
    except Exception as e:
        return [(raise_sig(spec, e), "MeasureFock raised %r" % (e,))], None, rec
    tag = predicate_fock(spec, out, rec if spec["meas"].get("select") is None else None)
    fails = []
    if tag:
        fails.append(("fock:%s:%s" % ("select" if spec["meas"].get("select") is not None else "measure", tag),
                      "MeasureFock%s on modes %s (cutoff %s): %s wrong" % ("(select=%s)" % spec["meas"].get("select") if spec["meas"].get("select") is not None else "",
                                                                            spec["meas"]["modes"], spec["backend_options"], tag)))
    return fails, out, rec


def check_fock_family(spec):
    sp = copy.deepcopy(spec)
    sp["meas"].pop("select", None)
    fails, out, rec = check_fock(sp)
    if out is None:
        return fails
    outcome = [int(x) for x in out["ret"][0]]
    sp2 = with_select(sp, outcome)
    f2, out2, _ = check_fock(sp2)
    fails += f2
    if out2 is not None:
        nl = fock_axes(sp)[0]
        if not np.allclose(post_rho(out["post"], nl), post_rho(out2["post"], nl), atol=1e-9):
            fails.append(("sample-vs-select:fock:fock", "state after measuring %s on %s differs from the state after post-selecting it" % (outcome, sp["meas"]["modes"])))
    # post-select on a second possible outcome whose values, in listing order, are not ascending (so that any
    # re-ordering of the select list against the mode list shows); chosen from the pre-state's own distribution
    modes = sp["meas"]["modes"]
    if len(modes) >= 2:
        nl, axes = fock_axes(sp)
        t = sp["backend_options"]["cutoff_dim"]
        P = joint_probs(out["pre"]).reshape([t] * nl)
        rest = tuple(a for a in range(nl) if a not in axes)
        marg = P.sum(axis=rest) if rest else P      # axes in ascending order of the measured axes
        srt = sorted(axes)
        cands = []
        for idx in np.ndindex(*marg.shape):
            if marg[idx] > 1e-4 * marg.sum():
                listed = [int(idx[srt.index(a)]) for a in axes]
                if listed != sorted(listed) and listed != outcome:
                    cands.append((listed, float(marg[idx])))
        if cands:
            cands.sort(key=lambda c: (-len(set(c[0])), -c[1], c[0]))
            pick = cands[min(int(sp.get("u", 0.5) * min(len(cands), 3)), len(cands) - 1)][0]
            f3, _, _ = check_fock(with_select(sp, pick))
            fails += f3
    return fails


# ---- Fock-backend homodyne against the Gaussian backend ----------------------------------------

def ladder(t):
    a = np.diag(np.sqrt(np.arange(1, t)), 1)
    return a


def fock_moments(post, n, mode):
    """(mean, cov) of (x, p) of one mode of a Fock-backend state, hbar = 2 units, and its vacuum population"""
    rho = post_rho(post, n)
    t = rho.shape[0]
    letters = "abcdefgh"[:n]
    sub_in = "".join(letters) + "".join(c.upper() if i == mode else c for i, c in enumerate(letters))
    red = np.einsum(sub_in + "->" + letters[mode] + letters[mode].upper(), rho)
    tr = np.trace(red)
    red = red / tr
    a = ladder(t)
    x = a + a.conj().T
    pq = -1j * (a - a.conj().T)
    ex = lambda o: np.trace(red @ o)
    mx, mp = np.real(ex(x)), np.real(ex(pq))
    vxx = np.real(ex(x @ x)) - mx ** 2
    vpp = np.real(ex(pq @ pq)) - mp ** 2
    vxp = np.real(ex((x @ pq + pq @ x) / 2)) - mx * mp
    return np.array([mx, mp]), np.array([[vxx, vxp], [vxp, vpp]]), float(np.real(red[0, 0])), float(np.real(tr))


def weak_prefix(rng, n):
    cmds = []
    for i in range(n):
        cmds.append(["Sgate", [round(rng.uniform(0.1, 0.3), 3), round(rng.uniform(-1, 1), 3)], [i], False])
        cmds.append(["Dgate", [round(rng.uniform(0.1, 0.4), 3), round(rng.uniform(-2, 2), 3)], [i], False])
    for i in range(n - 1):
        cmds.append(["BSgate", [round(rng.uniform(0.3, 1.2), 3), round(rng.uniform(-1, 1), 3)], [i, i + 1], False])
    return cmds


def gen_fockhom_case(rng):
    n = rng.choice([1, 2, 2])
    k = rng.randrange(n)
    phi = rng.choice([0.0, math.pi / 2, round(rng.uniform(-3, 3), 3)])
    return dict(n=n, deleted=[], live=list(range(n)), prefix=weak_prefix(rng, n), hbar=rng.choice(HBARS), backend="fock",
                backend_options={"cutoff_dim": 16 if n == 2 else 24},
                meas=dict(kind="hom", modes=[k], phi=phi, select=round(rng.uniform(-0.8, 0.8), 3)), draw=[0.0, 0.0])


def check_fock_homodyne(spec):
    """post-selected homodyne: Fock backend against the Gaussian backend (same program, same value)"""
    fails = []
    n = spec["n"]
    k = spec["meas"]["modes"][0]
    try:
        fo = run_case(spec)
    except Exception as e:
        return [(raise_sig(spec, e), "Fock-backend homodyne raised %r" % (e,))]
    sg = copy.deepcopy(spec)
    sg["backend"] = "gaussian"
    sg["backend_options"] = {}
    go = run_case(sg, inject=dyne_inject(sg))
    gm, gc = post_state(go, "gaussian")
    if abs(fo["samples"][0, 0] - spec["meas"]["select"]) > 1e-9:
        fails.append(("fock-homodyne:select-not-reported", "Fock backend reports %s for select=%s" % (fo["samples"][0, 0], spec["meas"]["select"])))
    for m in range(n):
        mu, cv, p0, tr = fock_moments(fo["post"], n, m)
        idx = [2 * m, 2 * m + 1]
        if m == k:
            if abs(p0 - 1) > 1e-6:
                fails.append(("fock-homodyne:measured-mode-not-vacuum", "measured mode %d has vacuum population %.6f after MeasureHomodyne" % (m, p0)))
            continue
        if not (np.allclose(mu, gm[idx], atol=3e-3) and np.allclose(cv, gc[np.ix_(idx, idx)], atol=5e-3)):
            fails.append(("select:hom:fock-vs-gaussian", "post-selecting homodyne(phi=%s)=%s on mode %d: conditional state of mode %d differs between fock and gaussian backends (means %s vs %s)"
                          % (spec["meas"]["phi"], spec["meas"]["select"], k, m, np.round(mu, 4), np.round(gm[idx], 4))))
    return fails


def check_fock_homodyne_sample(spec):
    """sampling branch of the Fock-backend homodyne: distribution handed to multinomial has the mean/variance of
    x_phi of the pre-state (Born), the returned value is the chosen grid point, and the state equals the one
    obtained by post-selecting that value"""
    fails = []
    sp = copy.deepcopy(spec)
    sp["meas"].pop("select", None)
    rec = {}

    def multinomial(nn, pvals, size=None):
        pv = np.asarray(pvals, dtype=float)
        cdf = np.cumsum(pv)
        i = int(np.searchsorted(cdf, spec.get("u", 0.5) * cdf[-1]))
        rec["p"] = pv
        rec["i"] = i
        h = np.zeros(len(pv), dtype=int)
        h[i] = 1
        return h
    try:
        so = run_case(sp, inject=dict(multinomial=multinomial))
    except Exception as e:
        return [(raise_sig(sp, e), "Fock-backend homodyne raised %r" % (e,))]
    n, k = sp["n"], sp["meas"]["modes"][0]
    s = math.sqrt(sp["hbar"] / 2.0)
    grid = np.linspace(-10, 10, len(rec["p"]))
    val = so["samples"][0, 0]
    if abs(val - s * grid[rec["i"]]) > 1e-9:
        fails.append(("fock-homodyne:sample-value", "returned %s, chosen grid point %s (x sqrt(hbar/2))" % (val, grid[rec["i"]])))
    mu, cv, _, _ = fock_moments(so["pre"], n, k)
    cs, sn = math.cos(sp["meas"]["phi"]), math.sin(sp["meas"]["phi"])
    mx = cs * mu[0] + sn * mu[1]
    vx = cs * cs * cv[0, 0] + 2 * cs * sn * cv[0, 1] + sn * sn * cv[1, 1]
    pm = float(np.sum(rec["p"] * grid))
    pv = float(np.sum(rec["p"] * grid ** 2) - pm ** 2)
    if abs(pm - mx) > 2e-3 or abs(pv - vx) > 5e-3 * max(1, vx):
        fails.append(("born:fock:hom:sample", "distribution handed to multinomial has mean %.4f var %.4f, the x_phi quadrature has mean %.4f var %.4f" % (pm, pv, mx, vx)))
    sel = with_select(sp, val)
    so2 = run_case(sel)
    if not np.allclose(post_rho(so["post"], n), post_rho(so2["post"], n), atol=1e-7):
        fails.append(("sample-vs-select:fock:hom", "state after sampling homodyne outcome %s differs from post-selecting it" % val))
    return fails


# ---- bosonic threshold detection -----------------------------------------------------------------

def mix_moments(w, mu, cv):
    w = np.asarray(w, dtype=complex)
    mu, cv = np.asarray(mu, dtype=complex), np.asarray(cv, dtype=complex)
    m1 = np.einsum("i,ij->j", w, mu)
    m2 = np.einsum("i,ijk->jk", w, cv + np.einsum("ij,ik->ijk", mu, mu))
    return float(np.real(np.sum(w))), np.real(m1), np.real(m2)


def gen_threshold_case(rng):
    """bosonic threshold detection of 1..all live modes (as listed, any order), on a Gaussian pre-state (optionally
    with a deleted mode) or on a many-peak cat state; the outcome of every detector is injected"""
    if rng.random() < 0.3:
        n = rng.choice([2, 2, 3])
        prefix = [["Catstate", [round(rng.uniform(0.5, 1.0), 3), 0.0, rng.choice([0, 1]), rng.choice(["complex", "real"])], [0], False]]
        if rng.random() < 0.5:
            prefix.append(["Dgate", [round(rng.uniform(0.1, 0.4), 3), round(rng.uniform(-2, 2), 3)], [0], False])
        for i in range(1, n):
            prefix.append(["Squeezed", [round(rng.uniform(0.1, 0.4), 3), round(rng.uniform(-1, 1), 3)], [i], False])
        for i in range(n - 1):
            prefix.append(["BSgate", [round(rng.uniform(0.3, 1.2), 3), round(rng.uniform(-1, 1), 3)], [i, i + 1], False])
        spec = dict(backend="bosonic", n=n, deleted=[], live=list(range(n)), prefix=prefix, hbar=rng.choice(HBARS), cat=True)
    else:
        spec = gen_state_spec(rng, "bosonic", max_n=3)
    live = spec["live"]
    modes = rng.sample(live, rng.choice([1, 1, min(2, len(live)), len(live)]))
    spec["meas"] = dict(kind="thr", modes=modes)
    spec["outcomes"] = [rng.choice([0, 1]) for _ in modes]
    spec["xi_seed"] = rng.randrange(10 ** 6)
    return spec


def textbook_c(r, V, k, sig, m):
    """`textbook` for peaks with complex means (no conjugation anywhere, as for Wigner-function peaks)"""
    d = len(r)
    B_idx = [2 * k, 2 * k + 1]
    A_idx = [i for i in range(d) if i not in B_idx]
    VA, VAB, VB = V[np.ix_(A_idx, A_idx)], V[np.ix_(A_idx, B_idx)], V[np.ix_(B_idx, B_idx)]
    W = np.linalg.inv(VB + sig)
    Vn = np.eye(d, dtype=complex)
    Vn[np.ix_(A_idx, A_idx)] = VA - VAB @ W @ VAB.T
    rn = np.zeros(d, dtype=complex)
    rn[A_idx] = r[A_idx] + VAB @ W @ (np.asarray(m) - r[B_idx])
    return rn, Vn


def threshold_oracle(state, k, outcome):
    """state = list of (weight, mean, cov) (hbar = 2 units, xpxp); threshold detector on mode k.
    Returns (probability of no click, state after `outcome` with mode k reset to vacuum)."""
    idx = [2 * k, 2 * k + 1]
    proj, reset = [], []
    p0 = 0.0
    for w, r, V in state:
        C = V[np.ix_(idx, idx)] + np.eye(2)
        q = 2.0 / np.sqrt(np.linalg.det(C)) * np.exp(-0.5 * r[idx] @ np.linalg.inv(C) @ r[idx])
        r0, V0 = textbook_c(r, V, k, np.eye(2), [0.0, 0.0])
        proj.append((w * q, r0, V0))
        p0 = p0 + w * q
        rr, Vr = np.array(r, dtype=complex), np.array(V, dtype=complex)
        rr[idx] = 0
        Vr[idx, :] = 0
        Vr[:, idx] = 0
        Vr[idx, idx] = 1
        reset.append((w, rr, Vr))
    p0 = float(np.real(p0))
    if outcome == 0:
        return p0, [(w / p0, r, V) for w, r, V in proj]
    return p0, [(w / (1 - p0), r, V) for w, r, V in reset] + [(-w / (1 - p0), r, V) for w, r, V in proj]


def charfun(state, xi):
    """Wigner characteristic function of a weighted sum of Gaussians at the phase-space vector xi"""
    return sum(w * np.exp(1j * xi @ r - 0.5 * xi @ V @ xi) for w, r, V in state)


def same_mixture(a, b, d, seed, tol=1e-7):
    nr = np.random.RandomState(seed)
    for _ in range(8):
        xi = nr.normal(size=d) * 0.7
        if abs(charfun(a, xi) - charfun(b, xi)) > tol:
            return False
    return abs(charfun(a, np.zeros(d)) - charfun(b, np.zeros(d))) <= tol


def check_threshold(spec):
    fails = []
    recs = []
    todo = list(spec["outcomes"])

    actual = []

    def choice(a, size=None, p=None, **kw):
        pp = np.array(p, dtype=float)
        recs.append((list(a), pp))
        want = todo[min(len(recs) - 1, len(todo) - 1)]
        # an outcome of (nearly) zero probability cannot be conditioned on: take the other one
        o = want if len(pp) == 2 and pp[want] >= 0.02 else 1 - want
        actual.append(o)
        return o
    try:
        out = run_case(spec, inject=dict(choice=choice))
    except Exception as e:
        return [(raise_sig(spec, e), "MeasureThreshold raised %r" % (e,))]
    pre, post = out["pre"], out["post"]
    modes = spec["meas"]["modes"]
    spec = dict(spec, outcomes=list(actual) + list(spec["outcomes"][len(actual):]))
    state = [(complex(w), np.array(r, dtype=complex), np.array(V, dtype=complex)) for w, r, V in zip(pre["weights"], pre["means"], pre["covs"])]
    d = len(state[0][1])
    if len(recs) != len(modes):
        fails.append(("threshold:bosonic:detector-count", "%d detector draws for modes %s" % (len(recs), modes)))
        return fails
    for j, (k, o) in enumerate(zip(modes, spec["outcomes"])):
        p0, state = threshold_oracle(state, k, o)
        a, p = recs[j]
        if a != [0, 1] or abs(p[0] - p0) > 1e-7 or abs(p[0] + p[1] - 1) > 1e-9:
            fails.append(("born:bosonic:thr", "detector %d (mode %d): probabilities handed to choice %s, no-click probability of the mode given the earlier outcomes %.8f" % (j, k, p, p0)))
            return fails
    order = sorted(range(len(modes)), key=lambda i: modes[i])
    if out["samples"].shape != (1, len(modes)) or [int(x) for x in out["samples"][0]] != [spec["outcomes"][i] for i in order]:
        fails.append(("threshold:bosonic:sample-value", "Result.samples %s for outcomes %s on modes %s (columns must be ascending by mode)" % (out["samples"].tolist(), spec["outcomes"], modes)))
    for m, o in zip(modes, spec["outcomes"]):
        v = out["regvals"].get(m)
        if v is None or int(np.ravel(v)[0]) != o:
            fails.append(("threshold:bosonic:regref-val", "q[%d].val = %s, outcome %s" % (m, v, o)))
            break
    got = [(complex(w), np.array(r, dtype=complex), np.array(V, dtype=complex)) for w, r, V in zip(post["weights"], post["means"], post["covs"])]
    tot = charfun(got, np.zeros(d))
    if abs(tot - 1) > 1e-7:
        fails.append(("threshold:bosonic:weights-not-normalised", "weights sum to %s" % tot))
    elif not same_mixture(got, state, d, spec.get("xi_seed", 1)):
        # which clause? measured modes in vacuum, then the rest
        _, m1, m2 = mix_moments(post["weights"], post["means"], post["covs"])
        idx = [i for k in modes for i in (2 * k, 2 * k + 1)]
        if not (np.allclose(m1[idx], 0, atol=1e-7) and np.allclose(m2[np.ix_(idx, idx)], np.eye(len(idx)), atol=1e-7)):
            fails.append(("threshold:bosonic:measured-mode-not-vacuum", "measured modes %s are not left in vacuum" % modes))
        else:
            fails.append(("threshold:bosonic:%s-state" % ("click" if any(spec["outcomes"]) else "no-click"),
                          "state after threshold outcomes %s on modes %s is not the conditional state (rho_A - p0 rho_A|0)/(1-p0) for a click, rho_A|0 for no click)" % (spec["outcomes"], modes)))
    return fails


# ---- dark counts ------------------------------------------------------------------------------------

def gen_dark_case(rng):
    n = rng.choice([1, 2, 3, 4, 11])
    modes = rng.sample(range(n), rng.randint(1, min(n, 4)))
    shots = rng.choice([1, 1, 2, 3])
    backend = rng.choice(["gaussian", "fock"]) if n <= 4 else "gaussian"
    if backend == "fock":
        shots = 1
    dc = [rng.choice([0.1, 0.5, 1.5, 2.0]) * (i + 1) for i in range(len(modes))]
    short = rng.random() < 0.2 and len(modes) >= 2
    scalar = (not short) and len(modes) == 1 and rng.random() < 0.5
    return dict(n=n, modes=modes, shots=shots, backend=backend, dark_counts=dc[:1] if short else dc, malformed=short, scalar=scalar,
                inc=[[rng.randrange(0, 4) for _ in modes] for _ in range(shots)])


def check_dark_counts(case):
    """MeasureFock(dark_counts=...): every listed mode gets Poisson(dark_counts[i]) extra counts, i = its position in
    the listing; outcome = photon count + dark counts, reported per shot / ascending by mode"""
    n, modes, shots = case["n"], case["modes"], case["shots"]
    prog = sf.Program(n)
    dc = case["dark_counts"][0] if case.get("scalar") else case["dark_counts"]
    with prog.context as q:
        ops.MeasureFock(dark_counts=dc) | tuple(q[m] for m in modes)
    eng = sf.Engine(case["backend"], backend_options={"cutoff_dim": 3} if case["backend"] == "fock" else {})
    base = np.array([[10 * (m + 1) + 100 * s_ for m in modes] for s_ in range(shots)])
    eng.backend.measure_fock = lambda mm, shots=1, select=None, **kw: base.copy()
    rec = {}

    def poisson(lam=1.0, size=None):
        rec["lam"] = np.array(lam, dtype=float)
        rec["size"] = size
        return np.array(case["inc"]) if size is not None and tuple(np.atleast_1d(size)) == base.shape else np.array(case["inc"][0])
    rp = Rng(poisson=poisson)
    try:
        with rp:
            res = eng.run(prog, shots=shots)
    except ValueError as e:
        if case["malformed"]:
            return []
        return [("dark-counts:raises:ValueError", "MeasureFock(dark_counts=%s) on modes %s raised %r" % (dc, modes, e))]
    except Exception as e:
        return [("dark-counts:raises:" + type(e).__name__, "MeasureFock(dark_counts=%s) on modes %s raised %r" % (dc, modes, e))]
    if case["malformed"]:
        return [("dark-counts:length-not-checked", "MeasureFock(dark_counts=%s) on %d modes did not raise" % (dc, len(modes)))]
    fails = []
    if "lam" not in rec:
        return [("dark-counts:not-applied", "no Poisson draw for dark_counts=%s" % (dc,))]
    lam = np.broadcast_to(rec["lam"], base.shape) if rec["lam"].ndim <= 2 else rec["lam"]
    if lam.shape != base.shape or not np.allclose(lam, np.array(case["dark_counts"])[None, :]) or (rec["size"] is not None and tuple(np.atleast_1d(rec["size"])) != base.shape):
        fails.append(("born:dark-counts:rates", "Poisson rates %s (size %s) for dark_counts=%s on modes %s as listed, %d shots" % (rec["lam"].tolist(), rec["size"], dc, modes, shots)))
    order = sorted(range(len(modes)), key=lambda i: modes[i])
    exp = [[int(base[s_][i] + case["inc"][s_][i]) for i in order] for s_ in range(shots)]
    got = np.array(res.samples)
    if got.shape != (shots, len(modes)) or got.astype(int).tolist() != exp:
        fails.append(("dark-counts:samples", "Result.samples %s, expected photon counts + dark counts per shot, ascending by mode: %s" % (got.tolist(), exp)))
    return fails


# ---- time-domain programs: (shots, spatial modes, time bins) layout produced by LocalEngine._run_program ----

def gen_tdm_case(rng):
    two = rng.random() < 0.35
    return dict(N=[1, 2] if two else rng.choice([2, 3]), T=rng.randint(3, 6), shots=rng.choice([1, 2, 3]), crop=(not two) and rng.random() < 0.5)


def check_tdm_layout(case):
    """every homodyne call of a TDM program returns its call number; sample [shot][spatial mode][time bin] must be
    the number of the call made for that shot, bin and detector"""
    N, T, shots = case["N"], case["T"], case["shots"]
    nl = 1 if isinstance(N, int) else len(N)
    prog = sf.TDMProgram(N=N)
    args = [[0.1 * i for i in range(T)] for _ in range(2 * nl)]
    with prog.context(*args) as (p, q):
        if nl == 1:
            ops.Sgate(0.4, 0) | q[N - 1]
            ops.BSgate(p[0]) | (q[N - 2], q[N - 1])
            ops.MeasureHomodyne(p[1]) | q[0]
        else:
            ops.Sgate(0.4, 0) | q[0]
            ops.Sgate(0.4, 0) | q[2]
            ops.BSgate(p[0]) | (q[1], q[2])
            ops.BSgate(p[2]) | (q[0], q[1])
            ops.MeasureHomodyne(p[1]) | q[0]
            ops.MeasureHomodyne(p[3]) | q[1]
    eng = sf.Engine("gaussian")
    cnt = [0]

    def stub(phi, mode, shots=1, select=None, **kw):
        c = cnt[0]
        cnt[0] += 1
        return np.array([[float(c) + 100000.0 * s_] for s_ in range(shots)])
    eng.backend.measure_homodyne = stub
    try:
        with hbar_set(2.0):
            res = eng.run(prog, shots=shots, crop=case["crop"])
        cv = int(prog.get_crop_value()) if case["crop"] else 0
    except Exception as e:
        return [("tdm-layout:raises:" + type(e).__name__, "TDM run raised %r" % (e,))]
    exp = [[[float(s_ * T * nl + t * nl + j) for t in range(cv, T)] for j in range(nl)] for s_ in range(shots)]
    got = np.array(res.samples)
    fails = []
    if got.shape != (shots, nl, T - cv) or got.tolist() != exp:
        fails.append(("tdm-layout:samples", "TDM samples %s; expected [shot][spatial mode][time bin] = %s" % (got.tolist(), exp)))
    sd = {int(k): np.array(v).tolist() for k, v in res.samples_dict.items()}
    expd = {j: [exp[s_][j] for s_ in range(shots)] for j in range(nl)}
    if sd != expd:
        fails.append(("tdm-layout:samples_dict", "TDM samples_dict %s; expected %s" % (sd, expd)))
    return fails


# ---- bosonic multi-shot homodyne / heterodyne ---------------------------------------------------------

def gen_multishot_case(rng):
    spec = gen_dyne_case(rng, backend="bosonic", select=False)
    spec["shots"] = rng.choice([2, 3, 4])
    spec["draws"] = [[round(rng.gauss(0, 1.2), 4), round(rng.gauss(0, 1.2), 4)] for _ in range(spec["shots"])]
    return spec


def check_multishot(spec):
    """bosonic backend, shots > 1: one row per shot, row s holds the s-th drawn value; every draw comes from the
    same (pre-measurement) distribution; the state is conditioned on the first row (documented)"""
    seq = list(spec["draws"])
    calls = []

    def mvn(mean, cov, *a, **kw):
        calls.append((np.array(mean, dtype=float), np.array(cov, dtype=float)))
        return np.array(seq[len(calls) - 1], dtype=float)
    try:
        out = run_case(spec, inject=dict(mvn=mvn, choice=np.array([0]), random=0.5))
    except Exception as e:
        return [(raise_sig(spec, e) + ":multishot", "measurement with shots=%d raised %r" % (spec["shots"], e))]
    fails = []
    shots = spec["shots"]
    kind = spec["meas"]["kind"]
    s = math.sqrt(spec["hbar"] / 2.0)
    exp = [[d[0] * s] if kind == "hom" else [complex(d[0], d[1]) / 2.0] for d in seq]
    got = out["samples"]
    if got.shape != (shots, 1) or not np.allclose(got, np.array(exp), atol=1e-9):
        fails.append(("multishot:bosonic:%s:samples" % kind, "Result.samples %s for the %d draws %s (one row per shot expected: %s)" % (got.tolist(), shots, seq, exp)))
    if len(calls) != shots:
        fails.append(("multishot:bosonic:%s:draw-count" % kind, "%d draws for %d shots" % (len(calls), shots)))
    elif any(not (np.allclose(c[0], calls[0][0]) and np.allclose(c[1], calls[0][1])) for c in calls):
        fails.append(("born:bosonic:%s:multishot" % kind, "the shots are not drawn from the same distribution"))
    k = spec["meas"]["modes"][0]
    v = out["regvals"].get(k)
    if v is None or np.shape(np.ravel(v)) != (shots,) or not np.allclose(np.ravel(v), np.ravel(exp), atol=1e-9):
        fails.append(("multishot:bosonic:%s:regref-val" % kind, "q[%d].val = %s" % (k, v)))
    r, V = state_of(out["pre"], "bosonic")
    if kind == "hom":
        r2, V2 = rot_np(r, V, k, spec["meas"]["phi"])
        sig = np.diag([EPS ** 2, 1 / EPS ** 2])
        m = [seq[0][0], r2[2 * k + 1]]
        tol = 5e-6
    else:
        r2, V2, sig, m, tol = r, V, np.eye(2), seq[0], 1e-8
    rn, Vn = textbook(r2, V2, k, sig, m)
    pm, pc = post_state(out, "bosonic")
    if not (close(pm, rn, tol) and close(pc, Vn, tol)):
        fails.append(("multishot:bosonic:%s:state" % kind, "state after %d shots is not the conditional state of the first reported outcome" % shots))
    return fails


# ---- Gaussian backend photon counting / threshold: parameters handed to The Walrus; state update -----

def gen_gfock_case(rng):
    spec = gen_state_spec(rng, "gaussian", max_n=4, allow_del=True)
    live = spec["live"]
    modes = rng.sample(live, rng.randint(1, len(live)))
    spec["meas"] = dict(kind=rng.choice(["fock", "thr"]), modes=modes)
    spec["shots"] = rng.choice([1, 1, 3])
    if rng.random() < 0.3:
        spec["prefix"] = [c for c in spec["prefix"] if c[0] != "Dgate"]  # zero-mean branch
    return spec


def check_gaussian_fock(spec):
    import strawberryfields.backends.gaussianbackend.backend as gb
    fails = []
    rec = {}
    modes = spec["meas"]["modes"]
    shots = spec.get("shots", 1)

    def haf(cov, samples, mean=None, **kw):
        rec.update(cov=np.array(cov), mean=None if mean is None else np.array(mean), shots=samples, fn="hafnian")
        return np.array([[10 * s_ + m for m in modes] for s_ in range(samples)])

    def tor(mu=None, cov=None, samples=1, **kw):
        rec.update(cov=np.array(cov), mean=np.array(mu), shots=samples, fn="torontonian")
        return np.array([[10 * s_ + m for m in modes] for s_ in range(samples)])
    old = gb.hafnian_sample_state, gb.torontonian_sample_state
    gb.hafnian_sample_state, gb.torontonian_sample_state = haf, tor
    try:
        out = run_case(spec)
    except Exception as e:
        return [(raise_sig(spec, e), "measurement raised %r" % (e,))]
    finally:
        gb.hafnian_sample_state, gb.torontonian_sample_state = old
    r, V = state_of(out["pre"], "gaussian")
    xi = [2 * m for m in modes] + [2 * m + 1 for m in modes]
    expc = V[np.ix_(xi, xi)]
    expm = r[xi]
    if rec.get("shots") != shots:
        fails.append(("born:gaussian:%s:shots" % spec["meas"]["kind"], "sampler asked for %s samples, shots=%s" % (rec.get("shots"), shots)))
    if "cov" not in rec or not close(rec["cov"], expc, 1e-9):
        fails.append(("born:gaussian:%s:cov" % spec["meas"]["kind"], "covariance handed to the %s sampler is not the reduced covariance of modes %s as listed" % (rec.get("fn"), modes)))
    elif rec["mean"] is None:
        if not np.allclose(r, 0, atol=1e-8):
            fails.append(("born:gaussian:%s:mean-dropped" % spec["meas"]["kind"], "state has non-zero mean but none was handed to the sampler"))
    elif not close(rec["mean"], expm, 1e-9):
        fails.append(("born:gaussian:%s:mean" % spec["meas"]["kind"], "mean handed to the sampler is not the reduced mean of modes %s" % modes))
    # layout: one row per shot, columns ascending by mode
    srt = sorted(modes)
    exp_rows = [[10 * s_ + m for m in srt] for s_ in range(shots)]
    if out["samples"].tolist() != exp_rows:
        fails.append(("layout:gaussian:%s" % spec["meas"]["kind"], "Result.samples %s, expected rows per shot / columns ascending by mode %s" % (out["samples"].tolist(), exp_rows)))
    # measured modes must be reset to vacuum (the property); the Gaussian backend leaves the state untouched
    pm, pc = post_state(out, "gaussian")
    if shots == 1:
        notvac = [m for m in modes if not (np.allclose(pm[[2 * m, 2 * m + 1]], 0, atol=1e-8) and np.allclose(pc[np.ix_([2 * m, 2 * m + 1], [2 * m, 2 * m + 1])], np.eye(2), atol=1e-8))]
        if notvac:
            fails.append(("gaussian:%s:state-not-updated" % spec["meas"]["kind"],
                          "after Measure%s on the gaussian backend the measured modes %s are not reset to vacuum and the other modes are not conditioned (state unchanged: %s)"
                          % ("Fock" if spec["meas"]["kind"] == "fock" else "Threshold", notvac, bool(close(pm, r, 1e-12) and close(pc, V, 1e-12)))))
    return fails


# ---- sample layout with a real backend ------------------------------------------------------------

def gen_layout_case(rng):
    n = rng.randint(1, 4)
    t = 5
    photons = [rng.randrange(0, t) for _ in range(n)]
    cmds = []
    for i in range(n):
        cmds.append(["prep", i, photons[i]])
    cur = list(photons)
    for _ in range(rng.randint(1, 3)):
        modes = rng.sample(range(n), rng.randint(1, n))
        cmds.append(["measure", modes])
        for m in modes:
            cur[m] = 0
        if rng.random() < 0.5:
            m = rng.randrange(n)
            v = rng.randrange(0, t)
            cmds.append(["prep", m, v])
    return dict(n=n, cutoff=t, cmds=cmds)


def check_layout(case):
    n, t = case["n"], case["cutoff"]
    prog = sf.Program(n)
    cur = [0] * n
    per_mode = {}
    with prog.context as q:
        for c in case["cmds"]:
            if c[0] == "prep":
                ops.Fock(c[2]) | q[c[1]]
                cur[c[1]] = c[2]
            else:
                ops.MeasureFock() | tuple(q[m] for m in c[1])
                for m in c[1]:
                    per_mode.setdefault(m, []).append(cur[m])
                    cur[m] = 0
    eng = sf.Engine("fock", backend_options={"cutoff_dim": t})
    try:
        res = eng.run(prog)
    except Exception as e:
        return [("layout:fock:raises:" + type(e).__name__, "run raised %r" % (e,))]
    keys = sorted(per_mode)
    fails = []
    if np.array(res.samples).tolist() != [[per_mode[m][-1] for m in keys]]:
        fails.append(("layout:fock:samples", "Result.samples %s, expected %s (modes %s ascending, latest outcome)" % (np.array(res.samples).tolist(), [[per_mode[m][-1] for m in keys]], keys)))
    sd = {int(k): [int(np.ravel(v)[0]) for v in vs] for k, vs in res.samples_dict.items()}
    if sd != per_mode:
        fails.append(("layout:fock:samples_dict", "samples_dict %s, expected %s" % (sd, per_mode)))
    for m in range(n):
        v = prog.reg_refs[m].val
        if m in per_mode:
            if v is None or int(np.ravel(v)[0]) != per_mode[m][-1]:
                fails.append(("layout:fock:regref-val", "q[%d].val = %s, expected %s" % (m, v, per_mode[m][-1])))
                break
    # every measured-and-not-reprepared mode is in vacuum afterwards
    st = res.state
    for m in range(n):
        exp = cur[m]
        pr = st.fock_prob([exp if i == m else cur[i] for i in range(n)])
        if abs(pr - 1) > 1e-9:
            fails.append(("layout:fock:final-state", "final state is not |%s>" % cur))
            break
    return fails


# ---- bosonic cat states (many peaks, complex weights and means) against the Fock backend -----------

def gen_cat_case(rng):
    n = rng.choice([1, 2, 2])
    return dict(n=n, a=round(rng.uniform(0.5, 1.0), 3), p=rng.choice([0, 1]), rep=rng.choice(["complex", "real"]),
                r=round(rng.uniform(0.1, 0.3), 3), theta=round(rng.uniform(0.3, 1.2), 3), bsphi=round(rng.uniform(-1, 1), 3),
                k=rng.randrange(n), phi=rng.choice([0.0, math.pi / 2, round(rng.uniform(-3, 3), 3)]),
                select=round(rng.uniform(-0.6, 0.6), 3), hbar=rng.choice(HBARS), entangle=rng.random() < 0.7,
                disp=[rng.choice([0.0, round(rng.uniform(0.1, 0.4), 3)]), round(rng.uniform(-2, 2), 3)])


def cat_program(case, backend):
    n = case["n"]
    prog = sf.Program(n)
    with prog.context as q:
        if backend == "bosonic":
            ops.Catstate(case["a"], 0.0, case["p"], representation=case["rep"]) | q[0]
        else:
            ops.Catstate(case["a"], 0.0, case["p"]) | q[0]
        if case.get("disp", [0, 0])[0]:
            ops.Dgate(case["disp"][0], case["disp"][1]) | q[0]
        if n == 2 and case.get("entangle", True):
            ops.Squeezed(case["r"], 0.0) | q[1]
            ops.BSgate(case["theta"], case["bsphi"]) | (q[0], q[1])
        ops.MeasureHomodyne(case["phi"], select=case["select"]) | q[case["k"]]
    return prog


def check_cat(case):
    fails = []
    n, k = case["n"], case["k"]
    with hbar_set(case["hbar"]):
        try:
            eb = sf.Engine("bosonic")
            rb = eb.run(cat_program(case, "bosonic"))
            cb = eb.backend.circuit
        except Exception as e:
            allm = ":all-modes-measured" if n == 1 else ""
            if isinstance(e, TypeError) and case["rep"] == "real":
                allm = ":cat-real-weights"
            return [("raises:bosonic:hom:select:%s%s" % (type(e).__name__, allm), "bosonic cat-state homodyne raised %r" % (e,))]
        ef = sf.Engine("fock", backend_options={"cutoff_dim": 22 if n == 1 else 15})
        rf = ef.run(cat_program(case, "fock"))
        post_f = read_circuit(ef, "fock")
    tot, m1, m2 = mix_moments(cb.weights, cb.means, cb.covs)
    if abs(tot - 1) > 1e-8 or abs(np.sum(np.imag(cb.weights))) > 1e-8:
        fails.append(("cat:bosonic:weights-not-normalised", "weights sum to %s" % np.sum(cb.weights)))
    for m in range(n):
        mu, cv, p0, tr = fock_moments(post_f, n, m)
        idx = [2 * m, 2 * m + 1]
        bm = m1[idx]
        bc = m2[np.ix_(idx, idx)] - np.outer(bm, bm)
        if m == k:
            if not (np.allclose(bm, 0, atol=1e-7) and np.allclose(bc, np.eye(2), atol=1e-7)):
                fails.append(("cat:bosonic:measured-mode-not-vacuum", "measured mode moments %s" % np.round(bc, 5)))
            continue
        if not (np.allclose(mu, bm, atol=4e-3) and np.allclose(cv, bc, atol=8e-3)):
            fails.append(("select:hom:bosonic-vs-fock:cat", "cat state, homodyne(phi=%s) select=%s on mode %d: mode %d has means %s / variances %s on bosonic, %s / %s on fock"
                          % (case["phi"], case["select"], k, m, np.round(bm, 4), np.round(np.diag(bc), 4), np.round(mu, 4), np.round(np.diag(cv), 4))))
    return fails


# ---- bosonic rejection sampler on many-peak states: accepted density proportional to the Born density -----

def gen_reject_case(rng):
    case = gen_cat_case(rng)
    case["kind"] = rng.choice(["hom", "het"])
    case["pts"] = [[round(rng.uniform(-0.8, 0.8), 3), round(rng.uniform(-0.8, 0.8), 3)] for _ in range(2)]
    case["peak"] = rng.randrange(4)
    return case


def reject_program(case):
    n = case["n"]
    prog = sf.Program(n)
    with prog.context as q:
        ops.Catstate(case["a"], 0.0, case["p"], representation=case["rep"]) | q[0]
        if case.get("disp", [0, 0])[0]:
            ops.Dgate(case["disp"][0], case["disp"][1]) | q[0]
        if n == 2 and case.get("entangle", True):
            ops.Squeezed(case["r"], 0.0) | q[1]
            ops.BSgate(case["theta"], case["bsphi"]) | (q[0], q[1])
        if case["kind"] == "hom":
            ops.MeasureHomodyne(case["phi"]) | q[case["k"]]
        else:
            ops.MeasureHeterodyne() | q[case["k"]]
    return prog


def reject_probe(case, x, peak_pos, u):
    """one run with the proposal forced to peak `peak_pos`, phase-space sample x and uniform draw u;
    returns (accepted at first try, record)"""
    rec = {"nrand": 0}

    def choice(a, size=None, p=None, **kw):
        rec["a"] = list(a)
        rec["P"] = np.array(p, dtype=float)
        return np.array([a[min(peak_pos, len(a) - 1)]])

    def mvn(mean, cov, *a, **kw):
        rec.setdefault("mvn", []).append((np.array(mean, dtype=float), np.array(cov, dtype=float)))
        return np.array(x, dtype=float)

    def rnd(size=None):
        rec["nrand"] += 1
        return np.array([u if rec["nrand"] == 1 else 0.0])
    with hbar_set(case["hbar"]):
        eng = sf.Engine("bosonic")
        be = eng.backend
        snap = {}
        rp = Rng(choice=choice, mvn=mvn, random=rnd)
        for nm in ("measure_homodyne", "measure_heterodyne"):
            orig = getattr(be, nm)

            def f(*a, _orig=orig, **k):
                snap["pre"] = read_circuit(eng, "bosonic")
                with rp:
                    return _orig(*a, **k)
            setattr(be, nm, f)
        res = eng.run(reject_program(case))
    rec["pre"] = snap["pre"]
    rec["sample"] = np.array(res.samples)
    return rec["nrand"] == 1, rec


def n2(x, m, S):
    d = np.asarray(x) - np.asarray(m)
    return np.exp(-0.5 * d @ np.linalg.inv(S) @ d) / (2 * np.pi * np.sqrt(np.linalg.det(S)))


def check_reject(case):
    fails = []
    k = case["k"]
    idx = [2 * k, 2 * k + 1]
    sig = np.diag([EPS ** 2, 1 / EPS ** 2]) if case["kind"] == "hom" else np.eye(2)
    try:
        _, rec0 = reject_probe(case, case["pts"][0], 0, 0.0)
    except Exception as e:
        tag = ":cat-real-weights" if isinstance(e, TypeError) and case["rep"] == "real" else ":cat"
        return [("raises:bosonic:%s:sample:%s%s" % (case["kind"], type(e).__name__, tag), "sampling a cat-state measurement raised %r" % (e,))]
    pre = rec0["pre"]
    npk = len(rec0["a"])
    # proposal components, one forced run per envelope peak
    comps = []
    for j in range(npk):
        _, rj = reject_probe(case, case["pts"][0], j, 0.0)
        comps.append(rj["mvn"][0])
    P = rec0["P"]
    if abs(P.sum() - 1) > 1e-9 or np.any(P < 0):
        fails.append(("born:bosonic:reject:proposal-weights", "proposal probabilities %s" % P))

    def born(x):
        tot = 0.0
        for w, mu, cv in zip(pre["weights"], pre["means"], pre["covs"]):
            if case["kind"] == "hom":
                d = len(mu)
                R = np.eye(d)
                c, sn = math.cos(case["phi"]), math.sin(case["phi"])
                R[idx[0], idx[0]], R[idx[0], idx[1]], R[idx[1], idx[0]], R[idx[1], idx[1]] = c, sn, -sn, c
                mu, cv = R @ mu, R @ cv @ R.T
            tot = tot + w * n2(x, mu[idx], np.real(cv[np.ix_(idx, idx)]) + sig)
        return float(np.real(tot))

    def rotated_block(mu):
        if case["kind"] != "hom":
            return mu[idx]
        c, sn = math.cos(case["phi"]), math.sin(case["phi"])
        return np.array([c * mu[idx[0]] + sn * mu[idx[1]], -sn * mu[idx[0]] + c * mu[idx[1]]])
    blocks = [np.real(rotated_block(mu)) for mu in pre["means"]]
    centre = np.mean(blocks, axis=0)
    pts = [list(map(float, case["pts"][0])), list(map(float, case["pts"][1])),
           [float(centre[0]) + 0.05, float(centre[1]) - 0.03], [float(blocks[0][0]) - 0.1, float(blocks[0][1]) + 0.07],
           [float(centre[0]) - 0.21, float(centre[1]) + 0.4]]
    ratios = []
    for x in pts:
        lo, hi = 0.0, 1.0
        acc1, _ = reject_probe(case, x, case["peak"] % npk, 1.0 - 1e-12)
        if acc1:
            rho = 1.0
        else:
            for _ in range(16):
                mid = 0.5 * (lo + hi)
                acc, _ = reject_probe(case, x, case["peak"] % npk, mid)
                if acc:
                    lo = mid
                else:
                    hi = mid
            rho = 0.5 * (lo + hi)
        g = float(sum(Pj * n2(x, m, S) for Pj, (m, S) in zip(P, comps)))
        ratios.append((rho, g, born(x)))
    case["_ratios"] = [[float(v) for v in r] for r in ratios]
    ks = [r * g / pb for r, g, pb in ratios if r >= 0.01 and pb > 1e-9 and g > 0]
    if len(ks) >= 2 and (max(ks) - min(ks)) > 4e-3 * max(ks):
        fails.append(("born:bosonic:reject:acceptance", "bosonic %s on a %d-peak cat state: acceptance x proposal / Born density is not constant over outcomes: %s "
                      "(acceptance, proposal, Born density at the probed outcomes: %s)" % (case["kind"], len(pre["weights"]), np.round(ks, 5).tolist(),
                                                                                          [[float("%.5g" % v) for v in r] for r in ratios])))
    return fails


CHECKS = {}


def run_stream(ctx, name, gen, check, count, nontrivial, bucket):
    CHECKS[name] = check
    for _ in range(count):
        spec = gen(ctx.rng)
        try:
            fails = check(spec)
        except Exception as e:  # harness trouble must be visible, not silent
            import traceback
            ctx.obligation("search:%s:harness" % name, False, "%r\n%s\n%s" % (e, traceback.format_exc()[-1500:], canon_small(spec)))
            return
        ctx.case(dict(kind=name, spec=small(spec)), nontrivial=nontrivial(spec), bucket=bucket(spec))
        for sig, what in fails:
            ctx.counterexample(sig, what, dict(check=name, spec=spec))


def small(spec):
    return {k: v for k, v in spec.items() if k not in ("prefix",)}


def canon_small(spec):
    import json
    return json.dumps(spec, default=repr)[:1500]


def _fam_gen(rng):
    return gen_dyne_case(rng, backend="gaussian", select=False)


def register_checks():
    CHECKS.update({
        "dyne-family": check_dyne_family,
        "dyne": lambda sp: check_dyne(sp)[0],
        "fock-family": check_fock_family,
        "fock": lambda sp: check_fock(sp)[0],
        "fock-homodyne": check_fock_homodyne,
        "fock-homodyne-sample": check_fock_homodyne_sample,
        "threshold": check_threshold,
        "gaussian-fock": check_gaussian_fock,
        "layout": check_layout,
        "cat": check_cat,
        "all-measured": check_all_measured,
        "reject": check_reject,
        "dark-counts": check_dark_counts,
        "multishot": check_multishot,
        "tdm-layout": check_tdm_layout,
    })


def gen_all_measured(rng):
    """every live mode of a bosonic / gaussian register is measured by one post-selected measurement"""
    backend = rng.choice(["bosonic", "bosonic", "gaussian"])
    spec = gen_dyne_case(rng, backend=backend, select=True)
    spec["n"], spec["deleted"], spec["live"] = 1, [], [0]
    spec["prefix"] = prefix_cmds(rng, 1, [0])
    spec["meas"]["modes"] = [0]
    return spec


def check_all_measured(spec):
    return check_dyne(spec)[0]


# inputs on which defects that are now repaired in /repo (known_findings.d/C06-fixed.txt) used to show; run first on
# every run, so that a regression is reported as a VIOLATION with its original signature
REGRESSION_INPUTS = [{'check': 'dyne-family',
  'spec': {'backend': 'gaussian',
           'n': 2,
           'deleted': [],
           'live': [0, 1],
           'prefix': [['S2gate', [0.5, 0.3], [0, 1], False], ['Dgate', [0.3, 0.2], [0], False]],
           'hbar': 2.0,
           'meas': {'kind': 'het', 'modes': [1]},
           'draw': [0.4, 0.2]}},
 {'check': 'all-measured',
  'spec': {'backend': 'bosonic',
           'n': 1,
           'deleted': [],
           'live': [0],
           'prefix': [['Sgate', [0.4, 0.1], [0], False], ['Dgate', [0.3, 0.5], [0], False]],
           'hbar': 2.0,
           'meas': {'kind': 'hom', 'modes': [0], 'phi': 0.3, 'select': 0.25},
           'draw': [0.1, 0.2]}},
 {'check': 'all-measured',
  'spec': {'backend': 'bosonic',
           'n': 1,
           'deleted': [],
           'live': [0],
           'prefix': [['Sgate', [0.4, 0.1], [0], False], ['Dgate', [0.3, 0.5], [0], False]],
           'hbar': 2.0,
           'meas': {'kind': 'het', 'modes': [0], 'select': [0.2, 0.1]},
           'draw': [0.1, 0.2]}},
 {'check': 'cat',
  'spec': {'n': 2,
           'a': 0.8,
           'p': 0,
           'rep': 'real',
           'r': 0.2,
           'theta': 0.6,
           'bsphi': 0.1,
           'k': 0,
           'phi': 0.3,
           'select': 0.2,
           'hbar': 2.0,
           'entangle': False,
           'disp': [0.0, 0.0]}},
 {'check': 'reject',
  'spec': {'n': 2,
           'a': 0.8,
           'p': 0,
           'rep': 'real',
           'r': 0.2,
           'theta': 0.6,
           'bsphi': 0.1,
           'k': 0,
           'phi': 0.3,
           'select': 0.2,
           'hbar': 2.0,
           'entangle': False,
           'disp': [0.0, 0.0],
           'kind': 'hom',
           'pts': [[0.2, 0.1], [-0.3, 0.2]],
           'peak': 0}},
 {'check': 'reject',
  'spec': {'n': 2,
           'a': 0.8,
           'p': 0,
           'rep': 'real',
           'r': 0.2,
           'theta': 0.6,
           'bsphi': 0.1,
           'k': 0,
           'phi': 0.3,
           'select': 0.2,
           'hbar': 2.0,
           'entangle': False,
           'disp': [0.0, 0.0],
           'kind': 'het',
           'pts': [[0.2, 0.1], [-0.3, 0.2]],
           'peak': 0}}]


def run_corpus(ctx):
    """replay the recorded inputs first, on every run"""
    import glob
    import json
    import os
    for item in REGRESSION_INPUTS:
        fails = CHECKS[item["check"]](copy.deepcopy(item["spec"]))
        ctx.case(dict(kind="regression", check=item["check"]), nontrivial=False, bucket="regression")
        for sig, what in fails:
            ctx.counterexample(sig, what, dict(check=item["check"], spec=item["spec"]))
    for f in sorted(glob.glob(os.path.join(coq.VERIF, "corpus", "C06-*.json"))):
        body = json.load(open(f))
        d = body["data"]
        fn = CHECKS.get(REPLAY_ALIASES.get(d.get("check"), d.get("check")))
        if fn is None:
            continue
        fails = fn(copy.deepcopy(d["spec"]))
        ctx.case(dict(kind="corpus", file=os.path.basename(f)), nontrivial=False, bucket="corpus")
        for sig, what in fails:
            ctx.counterexample(sig, what, dict(check=d["check"], spec=d["spec"]))


def search(ctx):
    register_checks()
    run_corpus(ctx)
    nt_dyne = nontrivial_dyne
    b_dyne = lambda sp: "search:dyne:%s:n%d%s" % (sp["meas"]["kind"], len(sp["live"]), ":del" if sp["deleted"] else "")
    run_stream(ctx, "dyne-family", _fam_gen, check_dyne_family, ctx.budget(100, 2000), nt_dyne, b_dyne)
    run_stream(ctx, "all-measured", gen_all_measured, check_all_measured, ctx.budget(6, 40), lambda sp: False, lambda sp: "search:all-measured:" + sp["backend"])
    run_stream(ctx, "fock-family", gen_fock_case, check_fock_family, ctx.budget(80, 1500),
               lambda sp: sp["n"] >= 2 and sp["meas"]["modes"] != list(range(len(sp["meas"]["modes"]))), lambda sp: "search:fock:n%d" % sp["n"])
    run_stream(ctx, "threshold", gen_threshold_case, check_threshold, ctx.budget(60, 1000), nt_dyne,
               lambda sp: "search:threshold:%s:m%d%s" % ("cat" if sp.get("cat") else "gauss", len(sp["meas"]["modes"]), ":del" if sp["deleted"] else ""))
    run_stream(ctx, "dark-counts", gen_dark_case, check_dark_counts, ctx.budget(30, 400), lambda c: c["modes"] != sorted(c["modes"]) or c["modes"][0] != 0,
               lambda c: "search:dark-counts:%s:shots%d%s" % (c["backend"], c["shots"], ":malformed" if c["malformed"] else ""))
    run_stream(ctx, "tdm-layout", gen_tdm_case, check_tdm_layout, ctx.budget(12, 150), lambda c: c["shots"] > 1 or not isinstance(c["N"], int),
               lambda c: "search:tdm-layout:%s:shots%d%s" % ("2loops" if not isinstance(c["N"], int) else "1loop", c["shots"], ":crop" if c["crop"] else ""))
    run_stream(ctx, "multishot", gen_multishot_case, check_multishot, ctx.budget(20, 300), nt_dyne, lambda sp: "search:multishot:%s:shots%d" % (sp["meas"]["kind"], sp["shots"]))
    run_stream(ctx, "gaussian-fock", gen_gfock_case, check_gaussian_fock, ctx.budget(40, 600),
               lambda sp: sp["meas"]["modes"] != list(range(len(sp["meas"]["modes"]))), lambda sp: "search:gaussian-%s" % sp["meas"]["kind"])
    run_stream(ctx, "layout", gen_layout_case, check_layout, ctx.budget(40, 600), lambda c: any(x[0] == "measure" and x[1] != sorted(x[1]) for x in c["cmds"]), lambda c: "search:layout:n%d" % c["n"])
    run_stream(ctx, "fock-homodyne", gen_fockhom_case, check_fock_homodyne, ctx.budget(10, 120), lambda sp: sp["n"] == 2 and sp["meas"]["modes"] != [0], lambda sp: "search:fock-homodyne:n%d" % sp["n"])
    run_stream(ctx, "cat", gen_cat_case, check_cat, ctx.budget(10, 150), lambda c: c["n"] == 2 and c["k"] != 0, lambda c: "search:cat:n%d:%s" % (c["n"], c["rep"]))
    run_stream(ctx, "reject", gen_reject_case, check_reject, ctx.budget(12, 300), lambda c: c["n"] == 2 and c["k"] != 0, lambda c: "search:reject:%s:%s" % (c["kind"], c["rep"]))
    if True:
        def gen_fhs(rng):
            sp = gen_fockhom_case(rng)
            sp["backend_options"] = {"cutoff_dim": 8}
            sp["u"] = rng.random()
            return sp
        run_stream(ctx, "fock-homodyne-sample", gen_fhs, check_fock_homodyne_sample, ctx.budget(3, 25), lambda sp: sp["n"] == 2 and sp["meas"]["modes"] != [0], lambda sp: "search:fock-homodyne-sample")


def correspondence(ctx):
    corr_dyne(ctx)
    corr_peaks(ctx)
    corr_collation(ctx)
    corr_fock(ctx)


REPLAY_ALIASES = {"dyne-run": "dyne", "dyne-corr": "dyne", "fock-run": "fock", "fock-corr": "fock"}


def replay(ctx, data):
    register_checks()
    d = data["data"]
    chk = REPLAY_ALIASES.get(d.get("check"), d.get("check"))
    sig = data.get("signature")
    if chk == "peaks":
        case = d["case"]
        try:
            w, m, cv = run_peaks_impl(case)
        except Exception as e:
            print("post_select_generaldyne raised %r" % (e,))
            return True
        tag = predicate_peaks(case, w, m, cv)
        print("independent conditional mixture check:", tag or "holds")
        return bool(tag)
    if chk == "collation":
        case = d["case"]
        try:
            samples, sd, regvals, log = run_collation_impl(case)
        except Exception as e:
            print("run raised %r" % (e,))
            return True
        case["executed"] = log
        tag = check_collation_impl(case, samples, sd, regvals)
        print("samples:", samples.tolist(), "samples_dict:", sd, "->", tag or "layout holds")
        return bool(tag)
    fn = CHECKS.get(chk)
    if fn is None:
        print("no concrete input in this replay file (kind=%s); nothing to re-run" % data.get("kind"))
        return False
    spec = d["spec"]
    if chk == "fock" and "u" in d:
        spec["u"] = d["u"]
    fails = fn(spec)
    for s_, what in fails:
        print("FAILS [%s] %s" % (s_, what))
    if not fails:
        print("all predicates hold on this input")
    if sig and not sig.startswith(("corr:", "obligation:")):
        return any(s_ == sig for s_, _ in fails)
    return bool(fails)
