"""Bosonic — float correspondence between coq/Bosonic/Model.v (hand model of the Gaussian-operation part of
strawberryfields/backends/bosonicbackend/bosoniccircuit.py and of the thewalrus.symplectic helpers it uses) and the
real code.  Shared by C01 (bosonic_<op>_is_phase_space, gauss_bosonic_agree), C05 (bosonic_spectators) and
C07 (bosonic_symmetric, bosonic_weights_untouched).

The implementation is driven through the real BosonicModes methods on random multi-weight complex states; the model
is evaluated by vm_compute at K = complex binary64 (coq/Bosonic/Exec.v) on the very same inputs and compared inside
Coq within 1e-9 (relative to max(1,|x|,|y|)); weights are compared bit for bit.

Public interface (for tools/props/c01.py, c05.py, c07.py):
    COQ_TARGETS, COQ_DIRS, PROPERTIES_FILE, RULE_BOSONIC, TRUSTED_BOSONIC      (C01, C05, C07)
    COQ_TARGETS_AGREE, COQ_DIRS_AGREE, PROPERTIES_FILE_AGREE                   (C01 only: needs the Gaussian model)
    correspondence_bosonic(ctx, predicates=("spectator",))
        reports via ctx.counterexample / ctx.disagreement / ctx.obligation.  On model != implementation the listed
        property predicates are evaluated on the IMPLEMENTATION at that input, in the given order
          "spectator"  (C05) entries of means / covs not involving a target mode unchanged
          "weights"    (C07) weights untouched, shapes unchanged
          "symmetric"  (C07) a symmetric covariance stays symmetric
          "reference"  (C01) result equals an independent numpy phase-space calculation S V S^T (+Y), S r (+d)
        the first one that fails gives a counterexample "bosonic:<site>:<predicate-detail>", otherwise a
        disagreement "bosonic:<site>".
    replay_bosonic(ctx, data) -> bool    for replay files whose data["check"] == "bosonic"
"""
import math
from concurrent.futures import ThreadPoolExecutor

import numpy as np

from vlib import coq

COQ_DIRS = ["Bosonic"]
# core: independent of the Gaussian-simulator model (safe to audit from C01, C05 and C07)
COQ_TARGETS = ["Bosonic/Sum.vo", "Bosonic/Model.vo", "Bosonic/Index.vo", "Bosonic/Proofs.vo", "Bosonic/Physical.vo", "Bosonic/Exec.vo"]
PROPERTIES_FILE = "Properties/Bosonic.v"
# C01 only: corollaries "Gaussian simulator = bosonic simulator" (per operation and for whole programs).  They import
# Gen/GaussCirc.v, C01/GaussPhaseSpace.v and C07/GaussPhysical.v, so a change to gaussiancircuit.py that breaks C01's
# theorems breaks these too — do not audit them from C05 / C07.
COQ_TARGETS_AGREE = ["Bosonic/Agree.vo", "Bosonic/AgreeProg.vo"]
PROPERTIES_FILE_AGREE = "Properties/BosonicAgree.v"
COQ_DIRS_AGREE = ["Bosonic", "BosonicAgree"]     # "BosonicAgree" makes the grep gate scan Properties/BosonicAgree.v
ALL_PREDICATES = ("spectator", "weights", "symmetric", "reference")
RULE_BOSONIC = ("bosonic model correspondence: every method in {displace, squeeze, phase_shift, beamsplitter, loss, thermal_loss, init_thermal} at "
                "every target position (ordered pairs for the beam splitter) of 1-4 mode registers, 1-3 weights, random complex means / covariances "
                "(half of them symmetric), parameters incl. 0, 1 and multiples of pi/2; expandXY + apply_channel and expandS with random (X, Y) on "
                "1-3 modes in any order; apply_u; update_means / update_covs; to_xp / from_xp / get_*_xp; thewalrus expand / expand_vector / rotation / "
                "squeezing / beam_splitter / interferometer / xxpp_to_xpxp / xpxp_to_xxpp; multi-step programs (2-5 operations) — "
                "non-trivial = at least 2 modes and some target is not mode 0, or targets not ascending")
TRUSTED_BOSONIC = [
    "hand model coq/Bosonic/Model.v of bosoniccircuit.py (expandS, expandXY, apply_channel, apply_u, update_means/update_covs, to_xp/from_xp, displace, "
    "squeeze, phase_shift, beamsplitter, loss, thermal_loss, init_thermal) and of thewalrus.symplectic (expand, expand_vector, rotation, squeezing, "
    "beam_splitter, interferometer, xxpp_to_xpxp, xpxp_to_xxpp), tied on every run by binary64 correspondence (tol 1e-9) against the real code; "
    "coq/Bosonic/Exec.v (complex-float instance) is execution-only; hbar is the constant 2 of BosonicModes.__init__; the `active` bookkeeping and numpy "
    "index errors are not modelled",
]
TOL = "0x1.12e0be826d695p-30"   # 1e-9

METHODS = ["displace", "squeeze", "phase_shift", "beamsplitter", "loss", "thermal_loss", "init_thermal"]
PARAMS = {"displace": [("r", "d"), ("phi", "a")], "squeeze": [("r", "r"), ("phi", "a")], "phase_shift": [("phi", "a")],
          "beamsplitter": [("theta", "a"), ("phi", "a")], "loss": [("T", "t")], "thermal_loss": [("T", "t"), ("nbar", "n")],
          "init_thermal": [("nbar", "n")]}


# ---------------------------------------------------------------------------------------------- encoding

def enc(a):
    a = np.asarray(a)
    if a.ndim == 0:
        z = complex(a)
        return [z.real, z.imag]
    return [enc(x) for x in a]


def dec(l):
    def rec(x):
        if isinstance(x[0], (int, float)):
            return complex(x[0], x[1])
        return [rec(y) for y in x]
    if isinstance(l, list) and len(l) == 0:
        return np.zeros((0,), dtype=complex)
    return np.array(rec(l), dtype=complex)


def cz(z):
    z = complex(z)
    return "(mkC %s %s)" % (coq.coq_float(z.real), coq.coq_float(z.imag))


def cr(x):
    return "(cr %s)" % coq.coq_float(float(x))


def cvec(v):
    return "[" + "; ".join(cz(x) for x in v) + "]"


def cmat(m):
    return "[" + "; ".join(cvec(r) for r in m) + "]"


def cnats(l):
    return "[" + "; ".join(str(int(x)) for x in l) + "]"


def st_term(n, weights, means, covs):
    return "(bst_of %d %d %s %s %s)" % (n, len(weights), cvec(weights), "[" + "; ".join(cvec(m) for m in means) + "]",
                                        "[" + "; ".join(cmat(c) for c in covs) + "]")


def mat_fn(m):
    return "(mat_of %s)" % cmat(m)


# ---------------------------------------------------------------------------------------------- generators

def draw(rng, kind):
    if kind == "a":
        return rng.choice([0.0, math.pi / 2, math.pi, -math.pi / 2, 3 * math.pi / 2, math.pi / 4, -0.3, 1.1]) if rng.random() < 0.4 else rng.uniform(-math.pi, math.pi)
    if kind == "t":
        return rng.choice([0.0, 1.0, 0.5, 0.25]) if rng.random() < 0.4 else rng.uniform(0, 1)
    if kind == "n":
        return rng.choice([0.0, 0.5, 2.0]) if rng.random() < 0.4 else rng.uniform(0, 2)
    if kind == "d":
        return rng.choice([0.0, 1.0]) if rng.random() < 0.3 else rng.uniform(0, 1.5)
    return rng.choice([0.0, 0.5, -0.5]) if rng.random() < 0.3 else rng.uniform(-1, 1)


def rnd(rng, cplx=True):
    return complex(round(rng.uniform(-1, 1), 3), round(rng.uniform(-1, 1), 3) if cplx else 0.0)


def rand_state(rng, n, W, symmetric, cplx=True):
    weights = [rnd(rng, cplx) for _ in range(W)]
    means = [[rnd(rng, cplx) for _ in range(2 * n)] for _ in range(W)]
    covs = []
    for _ in range(W):
        V = [[rnd(rng, cplx) for _ in range(2 * n)] for _ in range(2 * n)]
        if symmetric:
            for i in range(2 * n):
                for j in range(i):
                    V[i][j] = V[j][i]
        covs.append(V)
    return {"weights": enc(weights), "means": enc(means), "covs": enc(covs)}


def rand_mat(rng, m, cplx=False):
    return enc([[rnd(rng, cplx) for _ in range(m)] for _ in range(m)])


def op_case(rng, method, n, tg, W=None):
    W = W if W is not None else rng.choice([1, 1, 2, 3])
    if n == 4 and W == 3:
        W = 2
    c = {"kind": "op", "method": method, "n": n, "targets": list(tg), "symmetric": rng.random() < 0.5,
         "args": {p: draw(rng, k) for p, k in PARAMS[method]}}
    c["state"] = rand_state(rng, n, W, c["symmetric"], cplx=rng.random() < 0.8)
    return c


def all_positions(n, size):
    import itertools
    return list(itertools.permutations(range(n), size))


def gen_cases(ctx):
    rng = ctx.rng
    reps = ctx.budget(1, 6)
    cases = []
    # every method at every target position
    for _ in range(reps):
        for method in METHODS:
            for n in (1, 2, 3, 4):
                size = 2 if method == "beamsplitter" else 1
                for tg in all_positions(n, size):
                    cases.append(op_case(rng, method, n, tg))
    # general channels through expandXY + apply_channel, expandS, apply_u, raw update_means / update_covs
    for _ in range(ctx.budget(24, 200)):
        n = rng.randint(1, 4)
        M = rng.randint(1, min(3, n))
        nm = M if M > 1 else rng.randint(1, min(2, n))      # M == 1: the same 2x2 block on 1-2 listed modes
        modes = rng.sample(range(n), nm)
        c = {"kind": "channel", "n": n, "M": M, "targets": modes, "symmetric": rng.random() < 0.5,
             "X": rand_mat(rng, 2 * M), "Y": rand_mat(rng, 2 * M), "state": None}
        c["state"] = rand_state(rng, n, rng.choice([1, 2]), c["symmetric"])
        cases.append(c)
    for _ in range(ctx.budget(12, 80)):
        n = rng.randint(1, 4)
        M = rng.randint(1, min(3, n))
        nm = M if M > 1 else rng.randint(1, min(2, n))
        cases.append({"kind": "expandS", "n": n, "M": M, "targets": rng.sample(range(n), nm), "S": rand_mat(rng, 2 * M)})
    for _ in range(ctx.budget(8, 60)):
        n = rng.randint(1, 3)
        cases.append({"kind": "unitary", "n": n, "targets": list(range(n)), "symmetric": False, "U": rand_mat(rng, n, cplx=True),
                      "state": rand_state(rng, n, rng.choice([1, 2]), False)})
    for _ in range(ctx.budget(8, 60)):
        n = rng.randint(1, 3)
        cases.append({"kind": "update", "n": n, "withY": rng.random() < 0.5, "X": rand_mat(rng, 2 * n), "Y": rand_mat(rng, 2 * n),
                      "state": rand_state(rng, n, 1, False)})
    # helpers
    for n in range(1, 7):
        cases.append({"kind": "perms", "n": n})
    for _ in range(ctx.budget(6, 40)):
        n = rng.randint(1, 4)
        cases.append({"kind": "readout", "n": n, "state": rand_state(rng, n, 1, False)})
        cases.append({"kind": "reorder", "n": n, "S": rand_mat(rng, 2 * n, cplx=True)})
        cases.append({"kind": "gates", "theta": draw(rng, "a"), "phi": draw(rng, "a"), "r": draw(rng, "r")})
        cases.append({"kind": "expand_vector", "n": n, "mode": rng.randrange(n), "alpha": enc(rnd(rng))})
        m = rng.randint(1, 3)
        cases.append({"kind": "interferometer", "M": m, "U": rand_mat(rng, m, cplx=True)})
    # multi-step programs
    for _ in range(ctx.budget(16, 150)):
        n = rng.randint(2, 4)
        steps = []
        for _ in range(rng.randint(2, 5)):
            method = rng.choice(METHODS)
            tg = rng.sample(range(n), 2 if method == "beamsplitter" else 1)
            steps.append({"method": method, "targets": tg, "args": {p: draw(rng, k) for p, k in PARAMS[method]}})
        sym = rng.random() < 0.5
        cases.append({"kind": "prog", "n": n, "steps": steps, "symmetric": sym, "targets": sorted({t for s in steps for t in s["targets"]}),
                      "state": rand_state(rng, n, rng.choice([1, 2]), sym)})
    return cases


def nontrivial(c):
    tg = c.get("targets")
    if tg is None:
        return c.get("n", 0) >= 2
    return c.get("n", 0) >= 2 and (any(t > 0 for t in tg) or list(tg) != sorted(tg))


def site(c):
    k = c["kind"]
    if k == "op":
        return c["method"]
    return {"channel": "apply_channel", "expandS": "expandS", "unitary": "apply_u", "update": "update_covs", "perms": "to_xp-from_xp",
            "readout": "get_covmat_xp", "reorder": "xxpp_to_xpxp", "gates": "symplectic-helpers", "expand_vector": "expand_vector",
            "interferometer": "interferometer", "prog": "program"}[k]


# ---------------------------------------------------------------------------------------------- implementation drivers

def make_circuit(n, state):
    from strawberryfields.backends.bosonicbackend.bosoniccircuit import BosonicModes
    bm = BosonicModes(n, 1)
    bm.weights = np.array(dec(state["weights"]), dtype=complex)
    bm.means = np.array(dec(state["means"]), dtype=complex)
    bm.covs = np.array(dec(state["covs"]), dtype=complex)
    return bm


def call_method(bm, method, args, tg):
    a = [args[p] for p, _ in PARAMS[method]]
    getattr(bm, method)(*(a + list(tg)))


def snapshot(bm):
    return {"weights": enc(bm.weights), "means": enc(bm.means), "covs": enc(bm.covs)}


def run_impl(c):
    """Run the real code; returns a JSON-able output."""
    import thewalrus.symplectic as symp
    from strawberryfields.backends.bosonicbackend import bosoniccircuit as bcirc
    k = c["kind"]
    if k == "op":
        bm = make_circuit(c["n"], c["state"])
        call_method(bm, c["method"], c["args"], c["targets"])
        return snapshot(bm)
    if k == "prog":
        bm = make_circuit(c["n"], c["state"])
        for s in c["steps"]:
            call_method(bm, s["method"], s["args"], s["targets"])
        return snapshot(bm)
    if k == "channel":
        bm = make_circuit(c["n"], c["state"])
        X2, Y2 = bm.expandXY(list(c["targets"]), dec(c["X"]).real.copy(), dec(c["Y"]).real.copy())
        bm.apply_channel(X2, Y2)
        out = snapshot(bm)
        out["X2"], out["Y2"] = enc(X2), enc(Y2)
        return out
    if k == "expandS":
        bm = make_circuit(c["n"], rand_zero_state(c["n"]))
        return {"S2": enc(bm.expandS(list(c["targets"]), dec(c["S"]).real.copy()))}
    if k == "unitary":
        bm = make_circuit(c["n"], c["state"])
        bm.apply_u(dec(c["U"]))
        return snapshot(bm)
    if k == "update":
        n = c["n"]
        st = c["state"]
        X, Y = dec(c["X"]).real.copy(), dec(c["Y"]).real.copy()
        perm = bcirc.from_xp(n)
        means = bcirc.update_means(np.array(dec(st["means"])), X, perm)
        covs = bcirc.update_covs(np.array(dec(st["covs"])), X, perm, Y if c["withY"] else None)
        return {"weights": st["weights"], "means": enc(means), "covs": enc(covs)}
    if k == "perms":
        n = c["n"]
        return {"to_xp": [int(x) for x in bcirc.to_xp(n)], "from_xp": [int(x) for x in bcirc.from_xp(n)]}
    if k == "readout":
        bm = make_circuit(c["n"], c["state"])
        return {"cov": enc(bm.get_covmat_xp()[0]), "mean": enc(bm.get_mean_xp()[0])}
    if k == "reorder":
        S = dec(c["S"])
        return {"a": enc(symp.xxpp_to_xpxp(S)), "b": enc(symp.xpxp_to_xxpp(S)), "va": enc(symp.xxpp_to_xpxp(S[0])), "vb": enc(symp.xpxp_to_xxpp(S[0]))}
    if k == "gates":
        return {"rot": enc(symp.rotation(c["theta"])), "sq": enc(symp.squeezing(c["r"], c["phi"])), "bs": enc(symp.beam_splitter(c["theta"], c["phi"]))}
    if k == "expand_vector":
        return {"v": enc(symp.expand_vector(complex(*c["alpha"]), c["mode"], c["n"]))}
    if k == "interferometer":
        return {"S": enc(symp.interferometer(dec(c["U"])))}
    raise ValueError(k)


def rand_zero_state(n):
    return {"weights": enc([1.0]), "means": enc(np.zeros((1, 2 * n))), "covs": enc(np.array([np.identity(2 * n)]))}


# ---------------------------------------------------------------------------------------------- model side

HEADER = """From Coq Require Import List PrimFloat Bool Arith.
Import ListNotations.
From SFV Require Import Base.Num Base.FloatInst Base.PhaseSpace Bosonic.Sum Bosonic.Model Bosonic.Exec.
Definition tol : float := %s%%float.
Definition matc (m : nat) (A : nat -> nat -> C float) (rows : list (list (C float))) : bool := mat_close tol m A (mat_of rows).
Definition vecc (m : nat) (u : nat -> C float) (l : list (C float)) : bool := vec_close tol m u (vec_of l).
Definition stc (s t : @bst (C float)) : bool := bst_close tol s t && weights_same s t.
""" % TOL


def op_term(method, args, tg, inner):
    """Coq term: the model of BosonicModes.<method>(*args, *tg) applied to the state term `inner`."""
    t = " ".join(str(x) for x in tg)
    if method == "phase_shift":
        phi = args["phi"]
        return "(phase_shift NCF %s %s %s %s)" % (cr(np.cos(phi)), cr(np.sin(phi)), t, inner)
    if method == "squeeze":
        r, phi = args["r"], args["phi"]
        return "(squeeze NCF %s %s %s %s %s %s)" % (cr(np.cos(phi)), cr(np.sin(phi)), cr(np.sinh(r)), cr(np.cosh(r)), t, inner)
    if method == "beamsplitter":
        th, phi = args["theta"], args["phi"]
        return "(beamsplitter NCF %s %s %s %s %s %s)" % (cr(np.cos(th)), cr(np.sin(th)), cr(np.cos(phi)), cr(np.sin(phi)), t, inner)
    if method == "displace":
        r, phi = args["r"], args["phi"]
        return "(displace NCF %s %s %s %s %s)" % (cr(r), cr(np.cos(phi)), cr(np.sin(phi)), t, inner)
    if method == "loss":
        return "(loss NCF %s %s %s %s)" % (cr(args["T"]), cr(np.sqrt(args["T"])), t, inner)
    if method == "thermal_loss":
        return "(thermal_loss NCF %s %s %s %s %s)" % (cr(args["T"]), cr(args["nbar"]), cr(np.sqrt(args["T"])), t, inner)
    if method == "init_thermal":
        return "(init_thermal NCF %s %s %s)" % (cr(args["nbar"]), t, inner)
    raise ValueError(method)


def state_of(c):
    st = c["state"]
    return st_term(c["n"], dec(st["weights"]), dec(st["means"]), dec(st["covs"]))


def out_state(c, out):
    return st_term(c["n"], dec(out["weights"]), dec(out["means"]), dec(out["covs"]))


def coq_case(c, out, i):
    """Coq text defining r<i> : bool (model agrees with the implementation's output)."""
    k = c["kind"]
    n = c.get("n", 0)
    if k == "op":
        body = "stc %s %s" % (op_term(c["method"], c["args"], c["targets"], state_of(c)), out_state(c, out))
    elif k == "prog":
        term = state_of(c)
        for s in c["steps"]:
            term = "(freeze %s)" % op_term(s["method"], s["args"], s["targets"], term)
        body = "stc %s %s" % (term, out_state(c, out))
    elif k == "channel":
        X, Y = mat_fn(dec(c["X"])), mat_fn(dec(c["Y"]))
        xy = "(expandXY NCF %d %s %s %s %d)" % (c["M"], cnats(c["targets"]), X, Y, n)
        body = ("matc %d (fst %s) %s && matc %d (snd %s) %s && stc (apply_op NCF (OChannel %d %s %s %s) %s) %s"
                % (2 * n, xy, cmat(dec(out["X2"])), 2 * n, xy, cmat(dec(out["Y2"])), c["M"], cnats(c["targets"]), X, Y, state_of(c), out_state(c, out)))
    elif k == "expandS":
        body = "matc %d (expandS NCF %d %s %s %d) %s" % (2 * n, c["M"], cnats(c["targets"]), mat_fn(dec(c["S"])), n, cmat(dec(out["S2"])))
    elif k == "unitary":
        U = dec(c["U"])
        body = "stc (apply_u NCF %s %s %s) %s" % (mat_fn(U.real), mat_fn(U.imag), state_of(c), out_state(c, out))
    elif k == "update":
        X, Y = mat_fn(dec(c["X"])), mat_fn(dec(c["Y"]))
        body = "stc (apply_XY NCF %s %s %s) %s" % (X, "(Some %s)" % Y if c["withY"] else "None", state_of(c), out_state(c, out))
    elif k == "perms":
        body = "nat_list_eq (to_xp %d) %s && nat_list_eq (from_xp %d) %s" % (n, cnats(out["to_xp"]), n, cnats(out["from_xp"]))
    elif k == "readout":
        st = c["state"]
        body = "matc %d (get_covmat_xp %d (mat_of %s)) %s && vecc %d (get_mean_xp %d (vec_of %s)) %s" % (
            2 * n, n, cmat(dec(st["covs"])[0]), cmat(dec(out["cov"])), 2 * n, n, cvec(dec(st["means"])[0]), cvec(dec(out["mean"])))
    elif k == "reorder":
        S = dec(c["S"])
        body = ("matc %d (xxpp_to_xpxp %d %s) %s && matc %d (xpxp_to_xxpp %d %s) %s && vecc %d (fun i => vec_of %s (from_xp %d i)) %s"
                " && vecc %d (fun i => vec_of %s (to_xp %d i)) %s") % (
            2 * n, n, mat_fn(S), cmat(dec(out["a"])), 2 * n, n, mat_fn(S), cmat(dec(out["b"])),
            2 * n, cvec(S[0]), n, cvec(dec(out["va"])), 2 * n, cvec(S[0]), n, cvec(dec(out["vb"])))
    elif k == "gates":
        th, phi, r = c["theta"], c["phi"], c["r"]
        body = "matc 2 (rotation NCF %s %s) %s && matc 2 (squeezing NCF %s %s %s %s) %s && matc 4 (beam_splitter NCF %s %s %s %s) %s" % (
            cr(np.cos(th)), cr(np.sin(th)), cmat(dec(out["rot"])),
            cr(np.cos(phi)), cr(np.sin(phi)), cr(np.sinh(r)), cr(np.cosh(r)), cmat(dec(out["sq"])),
            cr(np.cos(th)), cr(np.sin(th)), cr(np.cos(phi)), cr(np.sin(phi)), cmat(dec(out["bs"])))
    elif k == "expand_vector":
        al = complex(*c["alpha"])
        body = "vecc %d (expand_vector NCF %s %s %d %d) %s" % (2 * n, cr(al.real), cr(al.imag), c["mode"], n, cvec(dec(out["v"])))
    elif k == "interferometer":
        U = dec(c["U"])
        body = "matc %d (interferometer NCF %d %s %s) %s" % (2 * c["M"], c["M"], mat_fn(U.real), mat_fn(U.imag), cmat(dec(out["S"])))
    else:
        raise ValueError(k)
    return "Definition r%d : bool := %s." % (i, body)


# ---------------------------------------------------------------------------------------------- property predicates on the implementation

def _targets_of(c):
    return set(c.get("targets", []))


def pred_spectator(c, out):
    """C05: entries of means / covs not involving a target mode are unchanged (exactly: X is the identity and Y zero there)."""
    if "state" not in c or c["state"] is None or "means" not in out or "targets" not in c:
        return None
    tg = _targets_of(c)
    n = c["n"]
    spect = [2 * a + q for a in range(n) if a not in tg for q in (0, 1)]
    m0, m1 = dec(c["state"]["means"]), dec(out["means"])
    v0, v1 = dec(c["state"]["covs"]), dec(out["covs"])
    if m0.shape != m1.shape or v0.shape != v1.shape:
        return "shape-changed"
    for w in range(m0.shape[0]):
        for i in spect:
            if abs(m1[w, i] - m0[w, i]) > 1e-12 * max(1.0, abs(m0[w, i])):
                return "spectator-mean-changed"
            for j in spect:
                if abs(v1[w, i, j] - v0[w, i, j]) > 1e-12 * max(1.0, abs(v0[w, i, j])):
                    return "spectator-cov-changed"
    return None


def pred_weights(c, out):
    if "state" not in c or c["state"] is None or "weights" not in out:
        return None
    w0, w1 = dec(c["state"]["weights"]), dec(out["weights"])
    if w0.shape != w1.shape or not np.array_equal(w0, w1):
        return "weights-changed"
    if dec(c["state"]["means"]).shape != dec(out["means"]).shape or dec(c["state"]["covs"]).shape != dec(out["covs"]).shape:
        return "shape-changed"
    return None


def pred_symmetric(c, out):
    if not c.get("symmetric") or "covs" not in out:
        return None
    if c["kind"] == "channel":
        Y = dec(c["Y"])
        if not np.allclose(Y, Y.T):
            return None
    v1 = dec(out["covs"])
    for w in range(v1.shape[0]):
        if np.max(np.abs(v1[w] - v1[w].T)) > 1e-9 * max(1.0, np.max(np.abs(v1[w]))):
            return "covariance-not-symmetric"
    return None


def _ref_S(method, args, n, tg):
    """documented xpxp action of the operation on the whole register: (S, Y, d) with V -> S V S^T + Y, r -> S r + d"""
    S = np.identity(2 * n)
    Y = np.zeros((2 * n, 2 * n))
    d = np.zeros(2 * n)
    k = tg[0]
    ix = [2 * k, 2 * k + 1]
    if method == "phase_shift":
        c_, s_ = math.cos(args["phi"]), math.sin(args["phi"])
        S[np.ix_(ix, ix)] = [[c_, -s_], [s_, c_]]
    elif method == "squeeze":
        r, phi = args["r"], args["phi"]
        ch, sh = math.cosh(r), math.sinh(r)
        S[np.ix_(ix, ix)] = [[ch - math.cos(phi) * sh, -math.sin(phi) * sh], [-math.sin(phi) * sh, ch + math.cos(phi) * sh]]
    elif method == "beamsplitter":
        # a_k -> t a_k - e^{-i phi} r a_l ; a_l -> e^{i phi} r a_k + t a_l   (BSgate documentation)
        l = tg[1]
        t_, r_ = math.cos(args["theta"]), math.sin(args["theta"])
        U = np.array([[t_, -np.exp(-1j * args["phi"]) * r_], [np.exp(1j * args["phi"]) * r_, t_]])
        pos = [k, l]
        for a in range(2):
            for b in range(2):
                z = U[a, b]
                blk = [[z.real, -z.imag], [z.imag, z.real]]
                S[np.ix_([2 * pos[a], 2 * pos[a] + 1], [2 * pos[b], 2 * pos[b] + 1])] = blk
    elif method == "displace":
        d[2 * k] = 2 * args["r"] * math.cos(args["phi"])
        d[2 * k + 1] = 2 * args["r"] * math.sin(args["phi"])
    elif method in ("loss", "thermal_loss", "init_thermal"):
        T = args.get("T", 0.0)
        nb = args.get("nbar", 0.0)
        S[np.ix_(ix, ix)] = math.sqrt(T) * np.identity(2)
        Y[np.ix_(ix, ix)] = (1 - T) * (2 * nb + 1) * np.identity(2)
    return S, Y, d


def pred_reference(c, out):
    """C01: independent phase-space calculation (numpy) of the same operation(s)."""
    if c["kind"] not in ("op", "prog"):
        return None
    n = c["n"]
    m = dec(c["state"]["means"])
    v = dec(c["state"]["covs"])
    steps = [c] if c["kind"] == "op" else c["steps"]
    for s in steps:
        S, Y, d = _ref_S(s["method"], s["args"], n, s["targets"])
        m = m @ S.T + d
        v = S @ v @ S.T + Y
    m1, v1 = dec(out["means"]), dec(out["covs"])
    if m1.shape != m.shape or v1.shape != v.shape:
        return "shape-changed"
    if np.max(np.abs(m1 - m)) > 1e-8 * max(1.0, np.max(np.abs(m))):
        return "means-differ-from-phase-space"
    if np.max(np.abs(v1 - v)) > 1e-8 * max(1.0, np.max(np.abs(v))):
        return "cov-differs-from-phase-space"
    return None


PRED = {"spectator": pred_spectator, "weights": pred_weights, "symmetric": pred_symmetric, "reference": pred_reference}


def strip(c):
    return {k: v for k, v in c.items()}


def summary(c):
    return {k: v for k, v in c.items() if k not in ("state", "X", "Y", "S", "U")}


# ---------------------------------------------------------------------------------------------- the check

def correspondence_bosonic(ctx, predicates=("spectator",)):
    cases = gen_cases(ctx)
    outs = []
    for c in cases:
        ctx.case(summary(c), nontrivial=nontrivial(c), bucket="bosonic:" + site(c))
        try:
            outs.append(run_impl(c))
        except Exception as ex:   # the generated calls are all legal
            ctx.counterexample("bosonic:%s:raises:%s" % (site(c), type(ex).__name__), "BosonicModes %s raised %r on %s" % (site(c), ex, summary(c)),
                               {"check": "bosonic", "case": strip(c), "predicate": "raises"})
            outs.append(None)
    todo = [(i, c, o) for i, (c, o) in enumerate(zip(cases, outs)) if o is not None]

    def weight(c):
        n = c.get("n", 2)
        W = len(c["state"]["weights"]) if c.get("state") else 1
        return (2 * n) ** 4 * W * (len(c.get("steps", [])) or 1) + 50
    todo.sort(key=lambda x: -weight(x[1]))
    nsh = ctx.budget(6, 12)
    shards = [[] for _ in range(nsh)]
    load = [0] * nsh
    for item in todo:
        k = load.index(min(load))
        shards[k].append(item)
        load[k] += weight(item[1])
    shards = [s for s in shards if s]

    def run_shard(si):
        text = [HEADER]
        for i, c, o in shards[si]:
            text.append(coq_case(c, o, i))
        text.append("Eval vm_compute in [%s]." % "; ".join("r%d" % i for i, _, _ in shards[si]))
        return ctx.coq_eval("bosonic_%d" % si, "\n".join(text), timeout=900)

    with ThreadPoolExecutor(max_workers=min(6, len(shards) or 1)) as ex:
        results = list(ex.map(run_shard, range(len(shards))))
    all_ok = True
    for si, (ok, vals, raw) in enumerate(results):
        if not ok or not vals or len(vals[0]) != len(shards[si]):
            all_ok = False
            ctx.obligation("correspondence:bosonic:shard%d" % si, False, raw[-2500:])
            continue
        for (i, c, o), good in zip(shards[si], vals[0]):
            ctx.traces += 1
            if good is not True:
                report_mismatch(ctx, c, o, predicates)
    ctx.obligation("correspondence:bosonic", all_ok, "")


def report_mismatch(ctx, c, out, predicates):
    """model != implementation: evaluate the properties' own predicates on the implementation first"""
    s = site(c)
    data = {"check": "bosonic", "case": strip(c)}
    for p in predicates:
        r = PRED[p](c, out)
        if r:
            ctx.counterexample("bosonic:%s:%s" % (s, r), "BosonicModes %s on modes %s of a %d-mode register: %s" % (s, c.get("targets"), c.get("n", 0), r),
                               dict(data, predicate=p))
            return
    ctx.disagreement("bosonic:" + s, "model coq/Bosonic/Model.v and implementation of %s differ on %s" % (s, summary(c)), data)


def replay_bosonic(ctx, data):
    d = data.get("data", data)
    if d.get("check") != "bosonic":
        return False
    c = d["case"]
    try:
        out = run_impl(c)
    except Exception as ex:
        print("raises %r" % ex)
        return True
    pred = d.get("predicate")
    preds = [pred] if pred in PRED else list(ALL_PREDICATES)
    for p in preds:
        r = PRED[p](c, out)
        if r:
            print("%s: %s" % (p, r))
            return True
    return False
