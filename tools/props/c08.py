"""C08 — register and simulator agree on which modes exist, for every history.

History = list of operations over one engine (several program segments):
    ["New", n] | ["Del", [i..]] | ["Disp", i, k] | ["Swap", i, j] | ["Meas", [i..], kind] | ["Seg", None | k]
Every mode carries an integer "data" value observable as <x> = 0.1 * data (Disp adds k units through
Dgate(0.05*|k|), Swap is BSgate(pi/2, 0): (di, dj) -> (-dj, di), a measurement resets to vacuum).

Two levels are driven:
  * "engine": Program construction (RegRef accounting) + Engine.run per segment + Result.state;
  * "api":    direct calls on the backend object (begin_circuit, add_mode, del_mode, displacement,
              beamsplitter, measure_*, get_modes, state) including invalid mode arguments.
"""
import copy
import math
import warnings

warnings.filterwarnings("ignore")
import numpy as np  # noqa: E402

import strawberryfields as sf  # noqa: E402
from strawberryfields import ops  # noqa: E402
from strawberryfields.backends import load_backend  # noqa: E402

from vlib import coq  # noqa: E402

PROP = "C08"
LEVEL = "proof"
COQ_TARGETS = ["C08/Model.vo", "C08/Proofs.vo", "C08/ProofsPS.vo", "C08/ProofsFock.vo", "C08/ProofsMain.vo", "C08/Refuted.vo"]
COQ_DIRS = ["C08"]
PROPERTIES_FILE = "Properties/C08.v"
ALLOWED_AXIOMS = set()
RULE = ("a case is a history of New(n)/Del/Disp/Sq/Swap/Meas/segment-boundary/Reset operations (mostly valid, ~15% referring to "
        "deleted / unknown / repeated modes) run on one engine or one backend object; every operation is realised by one of several "
        "equivalent command recipes (Dgate, Xgate, R.D.R, S.D.S, loss+D, Coherent, Vacuum+D; BSgate with either argument order; "
        "homodyne / heterodyne / Fock measurements with and without select; New() default), segments are run one by one or as one "
        "eng.run([p0, p1, ...]) call, Result.state is requested for all modes or an ascending subset; plus 'survivor' cases "
        "(an entangled register whose joint reduced state must survive creations / deletions of other modes) and deterministic "
        "sweeps on 10-11 live modes; non-trivial = contains a deletion or a second program segment")
TRUSTED_BASE = [
    "Coq 8.16.1 kernel; vm_compute for evaluating the model on generated histories and for the _refuted witnesses",
    "hand-written model coq/C08/Model.v (Program register accounting incl. can_follow, ModeMap/_remap_modes/alloc/dealloc axis "
    "bookkeeping, Gaussian and bosonic `active` lists with their guards, slot selection of the three state() methods), tied to "
    "/repo by exact correspondence on generated histories at engine level (gaussian, fock; bosonic on single-segment "
    "histories) and backend-API level (all three)",
    "abstraction of simulator content to one integer per mode (coherent displacement in units of 0.05; BSgate(pi/2,0) as the "
    "two-mode gate; measurement = reset to vacuum); the per-mode fingerprint <x>/0.1 is decoded with tolerance 0.2 units; a second "
    "harness-only channel (squeeze level, var(x) = 2**-level, tolerance 0.3 in log2) and the survivors' reduced states (1e-7; Fock "
    "2e-4) are judged by the search predicate only, the Coq model sees Sq as Disp i 0 and a Reset as the start of a new history",
    "harness tools/props/c08.py (drivers, generators, signature classification, Python copy of the specification used as the "
    "search oracle; the copy is compared with the Coq specification run_spec on every generated history)",
    "the bosonic ENGINE re-initialises its circuit for every later non-empty program segment (recorded finding "
    "bosonic:engine:segment-reinit); this is not modelled in Coq: multi-segment bosonic histories are judged by the search only",
]
ASSUMPTIONS = [
    "histories use integer or RegRef mode references; negative integers are not generated at backend-API level "
    "(python negative indexing of the phase-space `active` lists is outside the quantifier: a Program never passes them)",
    "backend-API histories do not repeat a mode inside one del_mode / measure list; a list whose leading entries are valid and "
    "whose later entry is invalid is compared with the model (sequential semantics) but not judged by the property predicate",
    "measurement resets the measured mode to vacuum and leaves the (product) rest untouched",
    "Fock backend: cutoff 4, at most 4-5 live modes, |data| <= 4 units so that truncation stays below the decoding tolerance; "
    "the 10-mode Fock sweeps use cutoff 2 and |data| <= 2",
    "Result.state(modes=subset): ascending subsets only; the subset is given as external indices to the Gaussian / bosonic "
    "backends and as positions among the live modes to the Fock backend (what each of them documents)",
]
MANIFEST_TEXT = ("C08 (proof): for ALL histories of New/Del/gate/measure/segment operations the modelled Program register, Fock "
                 "ModeMap+tensor axes and Gaussian / bosonic `active` lists are proved to be functions of one finite map index -> "
                 "live data (refinement by induction over histories): index for life, register = get_modes, rejection of dead/"
                 "unknown/repeated modes without effect, Fock axis bijection and state content (exactly the live modes, index "
                 "order, own label, own data) are FULL for all three backends; theorems about the pre-fix behaviour (*_old "
                 "definitions) are kept as _partial/_refuted. Not in the model: the bosonic engine's per-segment "
                 "re-initialisation (known finding, search only). Model tied to /repo by exact correspondence.")

DELTA = 0.05
XUNIT = 0.1
CUTOFF = 4
CODES = {"RegRefError": 1, "ValueError": 2, "IndexError": 3, "RuntimeError": 4}
BACKENDS = ("gaussian", "fock", "bosonic")
LIVE_CAP = {"gaussian": 12, "fock": 4, "bosonic": 11}
SQ_R = math.log(2.0) / 2      # one squeeze level: var(x) halves
SQ_MAX = 2
SDS_R = 0.3
DMAX = {"gaussian": 9, "fock": 4, "bosonic": 9}
MEAS_KINDS = {"gaussian": ["homodyne", "heterodyne", "homodyne-select", "heterodyne-select"],
              "fock": ["fock", "fock", "homodyne", "homodyne-select"],
              "bosonic": ["homodyne", "homodyne-select", "heterodyne", "heterodyne-select"]}
DISP_RECIPES = {"gaussian": ["D", "D", "X", "RDR", "SDS", "loss", "prep", "vac"],
                "fock": ["D", "D", "D", "X", "RDR", "SDS", "loss", "prep", "vac"],
                "bosonic": ["D", "D", "X", "RDR", "SDS", "loss", "prep", "vac"]}


def rx(op):
    """Optional trailing dict of an operation: HOW the harness realises it (recipe), never WHAT it means."""
    return op[-1] if isinstance(op[-1], dict) else {}


# ----------------------------------------------------------------------------------------------
# Python copy of the specification (coq/C08/Model.v: sstep / view); tied to the Coq text by
# comparing with run_spec on every generated history.

def spec_step(s, op):
    """Return the new state, or None when the operation must be rejected."""
    k = op[0]

    def live(i):
        return 0 <= i < len(s) and s[i] is not None

    def sel_ok(sel):
        return len(sel) > 0 and all(live(i) for i in sel) and len(set(sel)) == len(sel)

    if k == "New":
        return None if op[1] < 1 else s + [0] * op[1]
    if k == "Del":
        if not sel_ok(op[1]):
            return None
        t = list(s)
        for i in op[1]:
            t[i] = None
        return t
    if k == "Disp":
        if not live(op[1]):
            return None
        t = list(s)
        t[op[1]] += op[2]
        return t
    if k == "Sq":          # squeezing: the integer data (mean) is untouched; modelled in Coq as Disp i 0
        return list(s) if live(op[1]) else None
    if k == "Swap":
        i, j = op[1], op[2]
        if not sel_ok([i, j]):
            return None
        t = list(s)
        t[i], t[j] = -s[j], s[i]
        return t
    if k == "Meas":
        if not sel_ok(op[1]):
            return None
        t = list(s)
        for i in op[1]:
            t[i] = 0
        return t
    if k == "Seg":
        if op[1] is None:
            return list(s)
        return list(s) if (len(s) == op[1] and all(x is not None for x in s)) else None
    if k == "Reset":       # engine.reset() / backend.reset(): a new computation with op[1] vacuum modes
        return [0] * op[1]
    raise ValueError(op)


def sq_step(q, s_before, op, accepted):
    """Second observable channel kept by the harness only: the squeeze level of every mode (var(x) = 2**-level)."""
    k = op[0]
    if not accepted:
        return q
    q = list(q)
    if k == "New":
        q += [0] * op[1]
    elif k == "Sq":
        q[op[1]] += 1
    elif k == "Disp" and rx(op).get("r") in ("prep", "vac", "loss"):
        q[op[1]] = 0
    elif k == "Swap":
        q[op[1]], q[op[2]] = q[op[2]], q[op[1]]
    elif k == "Meas":
        for i in op[1]:
            q[i] = 0
    elif k == "Reset":
        q = [0] * op[1]
    return q


def spec_trace(n, hist):
    """One expected observation per operation: [code, register, get_modes, [[index, data, squeeze level], ...]].
    After a Reset the backend is observed BEFORE the next program starts: it shows the modes of the first program of the
    computation that was reset, all vacuum."""
    s = [0] * n
    q = [0] * n
    n_chunk = n
    out = []
    for op in hist:
        t = spec_step(s, op)
        q = sq_step(q, s, op, t is not None)
        if t is None:
            code = 9
        else:
            code, s = 0, t
        lives = [i for i, x in enumerate(s) if x is not None]
        if op[0] == "Reset":
            shown = list(range(n_chunk))
            out.append([0, lives, shown, [[i, 0, 0] for i in shown]])
            n_chunk = op[1]
            continue
        st = [[i, s[i], q[i]] for i in lives]
        sel = rx(op).get("modes") if op[0] == "Seg" else None
        if sel is not None and code == 0:
            st = [st[p] for p in sel]
        out.append([code, lives, lives, st])
    return out


def fix_aux(case):
    """Recipes that overwrite a mode need to know its current data: recompute it from the specification (after
    generation and after every shrinking step)."""
    s = [0] * case["n"]
    for op in case["ops"]:
        if op[0] in ("Disp", "Sq") and isinstance(op[-1], dict):
            i = op[1]
            op[-1]["aux"] = s[i] if 0 <= i < len(s) and s[i] is not None else 0
        t = spec_step(s, op)
        if t is not None:
            s = t
    return case


# ----------------------------------------------------------------------------------------------
# Implementation drivers

def _kind(e):
    return CODES.get(type(e).__name__, "other:" + type(e).__name__)


def _decode(x):
    u = float(np.real(x)) / XUNIT
    r = round(u)
    return int(r) if abs(u - r) < 0.2 else round(u, 3)


def _decode_sq(var):
    try:
        u = -math.log2(float(np.real(var)))      # hbar = 2: vacuum variance 1
    except (ValueError, OverflowError):
        return "var:%r" % (var,)
    r = round(u)
    return int(r) if abs(u - r) < 0.3 else round(u, 3)


def _observe_state(st):
    """[[label index, data, squeeze level], ...] in the order of the state object."""
    try:
        n = st.num_modes
        names = st.mode_names
        out = []
        for j in range(n):
            nm = names[j]
            idx = int(nm[2:-1]) if isinstance(nm, str) and nm.startswith("q[") else nm
            mean, var = st.quad_expectation(j, 0.0)
            out.append([idx, _decode(mean), _decode_sq(var)])
        return out
    except Exception as e:  # a state object that cannot be interrogated is an observation too
        return "state-error:" + type(e).__name__


def _disp_args(k):
    return (abs(k) * DELTA, 0.0 if k >= 0 else math.pi)


def _opts(backend, case=None):
    if backend != "fock":
        return {}
    o = {"cutoff_dim": (case or {}).get("cutoff", CUTOFF)}
    if case is not None and case.get("pure") is False:
        o["pure"] = False
    return o


def _apply_disp_engine(m, k, r):
    """Append the commands realising `data += k` on mode reference m (inside a Program context)."""
    rec, aux = r.get("r", "D"), r.get("aux", 0)
    if rec == "X":
        ops.Xgate(k * XUNIT) | m
    elif rec == "RDR":
        ops.Rgate(math.pi) | m
        ops.Dgate(*_disp_args(-k)) | m
        ops.Rgate(-math.pi) | m
    elif rec == "SDS":
        ops.Sgate(SDS_R) | m
        ops.Dgate(*_disp_args(k * math.exp(-SDS_R))) | m
        ops.Sgate(-SDS_R) | m
    elif rec == "loss":
        ops.LossChannel(0.25) | m
        ops.Dgate(*_disp_args(aux / 2 + k)) | m
    elif rec == "prep":
        ops.Coherent(*_disp_args(aux + k)) | m
    elif rec == "vac":
        ops.Vacuum() | m
        ops.Dgate(*_disp_args(aux + k)) | m
    else:
        ops.Dgate(*_disp_args(k)) | m


def _apply_disp_api(be, i, k, r):
    rec, aux = r.get("r", "D"), r.get("aux", 0)
    if rec == "RDR":
        be.rotation(math.pi, i)
        be.displacement(*_disp_args(-k), i)
        be.rotation(-math.pi, i)
    elif rec == "SDS":
        be.squeeze(SDS_R, 0.0, i)
        be.displacement(*_disp_args(k * math.exp(-SDS_R)), i)
        be.squeeze(-SDS_R, 0.0, i)
    elif rec == "loss":
        be.loss(0.25, i)
        be.displacement(*_disp_args(aux / 2 + k), i)
    elif rec == "prep":
        be.prepare_coherent_state(*_disp_args(aux + k), i)
    elif rec == "vac":
        be.prepare_vacuum_state(i)
        be.displacement(*_disp_args(aux + k), i)
    else:
        be.displacement(*_disp_args(k), i)


SELECT_HOM = 0.05
SELECT_HET = 0.05 + 0.05j


def run_engine(case):
    """Engine-level driver.  Returns one observation per operation:
    [code, register, get_modes | None, state | None]  (backend observed at segment boundaries only).
    case["batch"]: the programs of all segments are handed to ONE eng.run([p0, p1, ...]) call at the end."""
    backend, n, hist = case["backend"], case["n"], case["ops"]
    styles = case.get("styles") or []
    batch = bool(case.get("batch"))
    eng = sf.Engine(backend, backend_options=_opts(backend, case))
    prog = sf.Program(n)
    last_run = None
    pending = []
    out = []

    def ref(i, style):
        if style == "ref" and i in prog.reg_refs:
            return prog.reg_refs[i]
        return i

    def observe(res):
        gm = [int(x) for x in eng.backend.get_modes()]
        st = _observe_state(res.state) if res is not None and res.state is not None else None
        return gm, st

    for pos, op in enumerate(hist):
        style = styles[pos] if pos < len(styles) else "int"
        k = op[0]
        r = rx(op)
        code = 0
        if k == "Seg":
            if op[1] is None:
                reg_now = [x.ind for x in prog.register]
                kw = {}
                if r.get("modes") is not None:
                    kw["modes"] = [p if backend == "fock" else reg_now[p] for p in r["modes"] if p < len(reg_now)]
                if batch and pos != len(hist) - 1:
                    pending.append(prog)
                    out.append([0, reg_now, None, None])
                    prog = sf.Program(prog)
                    continue
                try:
                    res = eng.run(pending + [prog], **kw) if batch else eng.run(prog, **kw)
                except Exception as e:
                    out.append([_kind(e), reg_now, None, None, "run:%s: %s" % (type(e).__name__, str(e)[:120])])
                    break
                last_run = prog
                gm, st = observe(res)
                out.append([0, reg_now, gm, st])
                prog = sf.Program(last_run)
            else:
                cur = prog if last_run is None else last_run
                try:
                    fresh = sf.Program(op[1])
                    res = eng.run(fresh)
                    last_run = fresh
                    prog = sf.Program(fresh)
                    gm, st = observe(res)
                    out.append([0, [x.ind for x in prog.register], gm, st])
                except Exception as e:
                    gm = [int(x) for x in eng.backend.get_modes()] if eng.backend.circuit is not None else None
                    out.append([_kind(e), [x.ind for x in cur.register], gm, None])
            continue
        if k == "Reset":
            try:
                eng.reset()
                gm = [int(x) for x in eng.backend.get_modes()]
                st = _observe_state(eng.backend.state())
                prog = sf.Program(op[1])
                last_run = None
                out.append([0, [x.ind for x in prog.register], gm, st])
            except Exception as e:
                out.append([_kind(e), [], None, None, "reset:%s: %s" % (type(e).__name__, str(e)[:120])])
                break
            continue
        try:
            with prog.context:
                if k == "New":
                    if op[1] == 1 and r.get("default"):
                        ops.New()
                    else:
                        ops.New(op[1])
                elif k == "Del":
                    sel = [ref(i, style) for i in op[1]]
                    ops.Del | (sel[0] if (len(sel) == 1 and style == "ref") else tuple(sel))
                elif k == "Disp":
                    _apply_disp_engine(ref(op[1], style), op[2], r)
                elif k == "Sq":
                    m = ref(op[1], style)
                    ops.Sgate(SQ_R) | m
                    ops.Dgate(*_disp_args(r.get("aux", 0) * (1 - math.exp(-SQ_R)))) | m
                elif k == "Swap":
                    if r.get("r") == "BSpi":
                        ops.BSgate(math.pi / 2, math.pi) | (ref(op[2], style), ref(op[1], style))
                    else:
                        ops.BSgate(math.pi / 2, 0.0) | (ref(op[1], style), ref(op[2], style))
                elif k == "Meas":
                    sel = tuple(ref(i, style) for i in op[1])
                    one = sel[0] if len(sel) == 1 else sel
                    kind = op[2]
                    if kind == "fock":
                        ops.MeasureFock() | sel
                    elif kind == "heterodyne":
                        ops.MeasureHD | one
                    elif kind == "heterodyne-select":
                        ops.MeasureHeterodyne(select=SELECT_HET) | one
                    elif kind == "homodyne-select":
                        ops.MeasureHomodyne(0.0, select=SELECT_HOM) | one
                    else:
                        ops.MeasureX | one
                else:
                    raise AssertionError(op)
        except Exception as e:
            code = _kind(e)
        out.append([code, [x.ind for x in prog.register], None, None])
    return out


def run_api(case):
    """Backend-API-level driver: one observation [code, [], get_modes, state] per operation."""
    backend, n, hist = case["backend"], case["n"], case["ops"]
    be = load_backend(backend)
    be.begin_circuit(n, **_opts(backend, case))
    out = []
    for op in hist:
        k = op[0]
        r = rx(op)
        code = 0
        try:
            if k == "New":
                be.add_mode(op[1]) if not (op[1] == 1 and r.get("default")) else be.add_mode()
            elif k == "Del":
                be.del_mode(op[1][0] if (len(op[1]) == 1 and case.get("int_single")) else list(op[1]))
            elif k == "Disp":
                _apply_disp_api(be, op[1], op[2], r)
            elif k == "Sq":
                be.squeeze(SQ_R, 0.0, op[1])
                be.displacement(*_disp_args(r.get("aux", 0) * (1 - math.exp(-SQ_R))), op[1])
            elif k == "Swap":
                if r.get("r") == "BSpi":
                    be.beamsplitter(math.pi / 2, math.pi, op[2], op[1])
                else:
                    be.beamsplitter(math.pi / 2, 0.0, op[1], op[2])
            elif k == "Meas":
                kind = op[2]
                if kind == "fock":
                    be.measure_fock(list(op[1]))
                elif kind == "heterodyne":
                    for i in op[1]:
                        be.measure_heterodyne(i)
                elif kind == "heterodyne-select":
                    for i in op[1]:
                        be.measure_heterodyne(i, select=SELECT_HET)
                elif kind == "homodyne-select":
                    for i in op[1]:
                        be.measure_homodyne(0.0, i, select=SELECT_HOM)
                else:
                    for i in op[1]:
                        be.measure_homodyne(0.0, i)
            elif k == "Reset":
                be.reset(**_opts(backend, case))
            else:
                raise AssertionError(op)
        except Exception as e:
            code = _kind(e)
        try:
            gm = [int(x) for x in be.get_modes()]
        except Exception as e:
            gm = "get_modes-error:" + type(e).__name__
        try:
            st = _observe_state(be.state())
        except Exception as e:
            st = "state-error:" + type(e).__name__
        out.append([code, [], gm, st])
    return out


def run_impl(case):
    np.random.seed(case.get("npseed", 1))
    return run_engine(case) if case["level"] == "engine" else run_api(case)


# ----------------------------------------------------------------------------------------------
# Generators

def gen_history(rng, backend, level, max_ops=None, malformed=0.15, churn=None, bad_first=False, wide=False, plain=False):
    """Structured random history.  wide: start with 9-10 modes (>= 10 live modes are reached); for the Fock backend this
    uses cutoff 2 and |data| <= 2.  plain: no recipes / extra op kinds (the pre-hardening stream, kept for the differential
    family where one history must run on all three backends)."""
    cap, dmax = LIVE_CAP[backend], DMAX[backend]
    if wide:
        n = rng.choice([9, 10, 10, 11]) if backend != "fock" else rng.choice([9, 10])
        cap = max(cap, 12) if backend != "fock" else 11
        dmax = dmax if backend != "fock" else 2
    else:
        n = rng.choice([1, 2, 2, 3, 3, 4]) if backend != "fock" else rng.choice([1, 2, 2, 3, 3])
    max_ops = max_ops or rng.choice([3, 5, 8, 12, 16])
    churn = rng.random() < 0.25 if churn is None else churn
    s = [0] * n
    q = [0] * n
    hist, styles = [], []
    kinds = MEAS_KINDS[backend] if not plain else [k for k in MEAS_KINDS[backend] if "select" not in k]
    recipes = DISP_RECIPES[backend]
    if wide and backend == "fock":
        recipes = ["D", "D", "X", "RDR", "prep", "vac"]
        kinds = ["fock"]
    can_sq = backend != "fock" and not plain
    n_chunk = [n]

    def lives():
        return [i for i, x in enumerate(s) if x is not None]

    def deads():
        return [i for i, x in enumerate(s) if x is None]

    def push(op, style=None):
        nonlocal s, q
        t = spec_step(s, op)
        q = sq_step(q, s, op, t is not None)
        if t is not None:
            s = t
        hist.append(op)
        styles.append(style or rng.choice(["int", "ref", "ref"]))

    def boundary():
        if not hist or hist[-1][0] != "Seg":
            push(["Seg", None], "int")

    if rng.random() < 0.12 and not wide:
        # drive the indices high (>= 9) while keeping few modes alive: delete all but one, create up to the cap
        for _ in range(rng.choice([3, 4, 5])):
            lv = lives()
            if len(lv) > 1:
                sel = lv[:-1] if rng.random() < 0.5 else list(reversed(lv[1:]))
                push(["Del", sel], rng.choice(["int", "ref"]))
            m = max(1, min(3, cap - len(lives())))
            push(["New", m], "int")
            i = lives()[-1]
            push(["Disp", i, rng.choice([1, 2, -1])], rng.choice(["int", "ref"]))
        max_ops += len(hist)
    while len(hist) < max_ops:
        lv = lives()
        bad = rng.random() < malformed
        choices = ["New", "Del", "Disp", "Disp", "Swap", "Meas"]
        if can_sq:
            choices += ["Sq"]
        if level == "engine":
            choices += ["Seg", "Seg"]
        if churn:
            choices += ["New", "Del", "Del"]
        if not plain and rng.random() < 0.04:
            choices = ["Reset"]
        k = rng.choice(choices)
        op = None
        if k == "Reset":
            if level == "engine":
                boundary()
                kk = rng.choice([1, 2, 3]) if not wide else n
                op = ["Reset", kk]
            else:
                op = ["Reset", n]
        elif bad:
            pool = deads() + [len(s), len(s) + 1, len(s) + rng.randrange(2, 5)]
            b = rng.choice(pool)
            if k == "New" and level == "engine":
                op = ["New", 0]
            elif k == "Del":
                if level == "engine" and rng.random() < 0.3:
                    op = ["Del", [] if rng.random() < 0.4 or not lv else [lv[0], lv[0]]]
                else:
                    sel = [b] + ([rng.choice(lv)] if lv and rng.random() < 0.5 else [])
                    if not bad_first:
                        rng.shuffle(sel)
                    op = ["Del", sel]
            elif k == "Disp":
                op = ["Disp", b, rng.choice([1, -1, 2])]
                if not plain:
                    op.append({"r": rng.choice(recipes)})
            elif k == "Sq":
                op = ["Sq", b, {}]
            elif k == "Swap":
                if level == "engine" and lv and rng.random() < 0.3:
                    op = ["Swap", lv[0], lv[0]]
                elif lv:
                    pr = [b, rng.choice(lv)]
                    rng.shuffle(pr)
                    op = ["Swap"] + pr
                else:
                    op = ["Swap", b, b + 1]
            elif k == "Meas":
                op = ["Meas", [b], rng.choice(kinds)]
            elif k == "Seg":
                want = len(s) + rng.choice([-1, 1, 0]) if deads() or rng.random() < 0.7 else len(s) + 1
                if want < 1:
                    want = len(s) + 1
                boundary()
                op = ["Seg", want]
        else:
            if k == "New":
                m = rng.choice([1, 1, 1, 2, 2, 3])
                if len(lv) + m > cap or len(s) + m > (16 if not wide else 22):
                    continue
                op = ["New", m]
                if m == 1 and not plain and rng.random() < 0.4:
                    op.append({"default": True})
            elif k == "Del":
                if not lv:
                    continue
                m = rng.choice([1, 1, 2, 3])
                sel = rng.sample(lv, min(m, len(lv)))
                op = ["Del", sel]
            elif k == "Disp":
                if not lv:
                    continue
                i = rng.choice(lv)
                kk = rng.choice([1, 2, 3, -1, -2, 0])
                if abs(s[i] + kk) > dmax:
                    kk = -1 if s[i] > 0 else 1
                op = ["Disp", i, kk]
                if not plain:
                    rec = rng.choice(recipes)
                    if rec == "loss" and q[i] != 0:
                        rec = "D"        # loss on a squeezed mode leaves a variance that is no power of two
                    op.append({"r": rec})
            elif k == "Sq":
                cand = [i for i in lv if q[i] < SQ_MAX]
                if not cand:
                    continue
                op = ["Sq", rng.choice(cand), {}]
            elif k == "Swap":
                if len(lv) < 2:
                    continue
                i, j = rng.sample(lv, 2)
                op = ["Swap", i, j]
                if not plain and rng.random() < 0.35:
                    op.append({"r": "BSpi"})
            elif k == "Meas":
                if not lv:
                    continue
                kind = rng.choice(kinds)
                m = rng.choice([1, 1, 2, 3]) if kind == "fock" else 1
                op = ["Meas", rng.sample(lv, min(m, len(lv))), kind]
            elif k == "Seg":
                if rng.random() < 0.25 and not deads():
                    boundary()
                    op = ["Seg", len(s)]
                else:
                    op = ["Seg", None]
                    if len(lv) >= 2 and not plain and rng.random() < 0.3:
                        # ask the engine for a proper, ascending subset of the modes (positions among the live ones)
                        m = rng.randrange(1, len(lv))
                        op.append({"modes": sorted(rng.sample(range(len(lv)), m))})
        if op is None:
            continue
        push(op)
    if level == "engine" and (not hist or hist[-1][0] != "Seg" or hist[-1][1] is not None):
        push(["Seg", None], "int")
    case = {"backend": backend, "level": level, "n": n, "ops": hist, "npseed": rng.randrange(1 << 30)}
    if level == "engine":
        case["styles"] = styles
        if not plain and rng.random() < 0.2 and not any(o[0] == "Reset" or (o[0] == "Seg" and o[1] is not None) for o in hist):
            case["batch"] = True
    else:
        case["int_single"] = rng.random() < 0.5
    if backend == "fock":
        if wide:
            case["cutoff"] = 2
        elif rng.random() < 0.3:
            case["pure"] = False
    return fix_aux(case)


def max_live(n, hist):
    s = [0] * n
    m = n
    for op in hist:
        t = spec_step(s, op)
        if t is not None:
            s = t
            m = max(m, sum(1 for x in s if x is not None))
    return m


def nontrivial(case):
    segs = sum(1 for o in case["ops"] if o[0] == "Seg")
    return any(o[0] == "Del" for o in case["ops"]) or segs >= 2


def note_stats(ctx, case):
    st = ctx.extra.setdefault("input_features", {"index>=9": 0, "descending-list": 0, "segments>=2": 0, "segments>=3": 0,
                                                  "rejected-op": 0, "fresh-program-segment": 0, "new>=2": 0, "delete-then-new": 0})
    ops_ = case["ops"]
    idx = [i for o in ops_ if o[0] in ("Del", "Meas") for i in o[1]] + [o[1] for o in ops_ if o[0] in ("Disp", "Swap", "Sq")] + [o[2] for o in ops_ if o[0] == "Swap"]
    if any(i >= 9 for i in idx):
        st["index>=9"] += 1
    if any(o[0] in ("Del", "Meas") and len(o[1]) > 1 and list(o[1]) != sorted(o[1]) for o in ops_) or any(o[0] == "Swap" and o[1] > o[2] for o in ops_):
        st["descending-list"] += 1
    segs = sum(1 for o in ops_ if o[0] == "Seg")
    st["segments>=2"] += segs >= 2
    st["segments>=3"] += segs >= 3
    st["fresh-program-segment"] += any(o[0] == "Seg" and o[1] is not None for o in ops_)
    st["new>=2"] += any(o[0] == "New" and o[1] >= 2 for o in ops_)
    s_ = [0] * case["n"]
    rej = False
    deleted = False
    dn = False
    for o in ops_:
        t = spec_step(s_, o)
        if t is None:
            rej = True
        else:
            s_ = t
            if o[0] == "Del":
                deleted = True
            if o[0] == "New" and deleted:
                dn = True
    st["rejected-op"] += rej
    st["delete-then-new"] += dn
    for key, hit in (("live>=10", max_live(case["n"], ops_) >= 10), ("batch-run-list", bool(case.get("batch"))),
                     ("reset", any(o[0] == "Reset" for o in ops_)), ("state-modes-subset", any(o[0] == "Seg" and rx(o).get("modes") for o in ops_)),
                     ("squeezed-mode", any(o[0] == "Sq" for o in ops_)), ("select-measurement", any(o[0] == "Meas" and "select" in str(o[2]) for o in ops_)),
                     ("new-default-arg", any(o[0] == "New" and rx(o).get("default") for o in ops_))):
        st[key] = st.get(key, 0) + bool(hit)
    for o in ops_:
        if o[0] in ("Disp", "Swap") and rx(o).get("r"):
            st["recipe:" + rx(o)["r"]] = st.get("recipe:" + rx(o)["r"], 0) + 1


def bucket(case):
    return "%s/%s/len%d" % (case["backend"], case["level"], min(20, 4 * (len(case["ops"]) // 4)))


# ----------------------------------------------------------------------------------------------
# Coq rendering

def enc_op(op):
    k = op[0]
    nl = lambda l: coq.coq_list(l, str)
    if k == "New":
        return "New %d" % op[1]
    if k == "Del":
        return "Del %s" % nl(op[1])
    if k == "Disp":
        return "Disp %d %s" % (op[1], coq.coq_Z(op[2]))
    if k == "Sq":
        return "Disp %d %s" % (op[1], coq.coq_Z(0))
    if k == "Swap":
        return "Swap %d %d" % (op[1], op[2])
    if k == "Meas":
        return "Meas %s" % nl(op[1])
    if k == "Seg":
        return "Seg None" if op[1] is None else "Seg (Some %d)" % op[1]
    raise ValueError(op)


RUNNER = {("engine", "fock"): "run_fock", ("engine", "gaussian"): "run_gauss", ("engine", "bosonic"): "run_bos",
          ("api", "fock"): "brun_fock", ("api", "gaussian"): "brun_gauss", ("api", "bosonic"): "brun_bos"}


def chunks(case):
    """Split a history at Reset operations: [(n, [ops...]), ...]; every chunk is an independent computation."""
    out = []
    n, cur = case["n"], []
    for o in case["ops"]:
        if o[0] == "Reset":
            out.append((n, cur))
            n, cur = o[1], []
        else:
            cur.append(o)
    out.append((n, cur))
    return out


def model_eval(ctx, name, cases, with_spec=True):
    """Return (model_traces, spec_traces) for the cases, or None when coqc failed.  Histories with Reset are evaluated
    chunk by chunk (the Coq model has no Reset: a reset computation is a new history) and stitched together again with
    a None placeholder at every Reset."""
    lines = ["From Coq Require Import List ZArith Bool.", "Import ListNotations.", "From SFV Require Import C08.Model.",
             "Open Scope nat_scope.", "Definition H := list op."]
    items, sitems, owner = [], [], []
    for ci, c in enumerate(cases):
        for n, ops_ in chunks(c):
            h = "(%s : H)" % coq.coq_list([enc_op(o) for o in ops_], lambda s: "(%s)" % s)
            items.append("%s %d %s" % (RUNNER[(c["level"], c["backend"])], n, h))
            sitems.append("run_spec %d %s" % (n, h))
            owner.append(ci)
    lines.append("Eval vm_compute in [%s]." % ";\n ".join(items))
    if with_spec:
        lines.append("Eval vm_compute in [%s]." % ";\n ".join(sitems))
    ok, vals, raw = ctx.coq_eval(name, "\n".join(lines))
    if not ok or len(vals) < (2 if with_spec else 1):
        ctx.obligation("correspondence:%s:coqc" % name, False, raw)
        return None
    conv = lambda tr: [[o[0], list(o[1]), list(o[2]), [[a, b] for a, b in o[3]]] for o in tr]

    def stitch(vs):
        res = [[] for _ in cases]
        first = [True] * len(cases)
        for ci, tr in zip(owner, vs):
            if not first[ci]:
                res[ci].append(None)
            first[ci] = False
            res[ci].extend(conv(tr))
        return res
    return stitch(vals[0]), (stitch(vals[1]) if with_spec else None)


# ----------------------------------------------------------------------------------------------
# Property predicate on the implementation: compare an implementation trace with the specification

def predicate_failures(case, impl, spec):
    """List of (signature, message) for every way the implementation trace breaks the property."""
    be, level = case["backend"], case["level"]
    fails = []
    hist = case["ops"]
    for pos, (op, io) in enumerate(zip(hist, impl)):
        so = spec[pos]
        where = "%s:%s" % (be, level)
        rejected = so[0] == 9
        icode = io[0]
        if rejected and icode != 0 and level == "api" and op[0] in ("Del", "Meas") and len(op[1]) > 1:
            # a list whose first entries are valid: the phase-space backends work through the list and stop at the
            # invalid entry (unreachable through a Program, which validates the whole list first) — not judged here
            break
        if rejected and icode == 0:
            fails.append(("%s:accepted-invalid:%s" % (where, op[0]), "op #%d %s refers to a deleted/unknown/repeated mode but was accepted" % (pos, op)))
            break
        if (not rejected) and icode != 0:
            detail = io[4] if len(io) > 4 else ""
            fails.append((classify_error(case, pos, icode, detail), "valid op #%d %s raised %s %s" % (pos, op, icode, detail)))
            break
        if level == "engine" and io[1] != so[1]:
            fails.append(("%s:register:%s" % (where, op[0]), "after op #%d %s Program.register is %s, expected %s" % (pos, op, io[1], so[1])))
            break
        if io[2] is not None and io[2] != so[2]:
            fails.append((classify_modes(case, pos, io, so), "after op #%d %s backend.get_modes() is %s, live indices are %s" % (pos, op, io[2], so[2])))
            break
        if io[3] is not None and io[3] != so[3]:
            fails.append((classify_state(case, pos, io, so), "after op #%d %s state (label, data, squeeze level) is %s, expected %s" % (pos, op, io[3], so[3])))
            break
    if len(impl) < len(hist) and not fails:
        fails.append(("%s:%s:trace-short" % (be, level), "driver stopped early"))
    return fails


def _seg_index(case, pos):
    return sum(1 for o in case["ops"][:pos] if o[0] == "Seg")


def _segment_ops(case, pos):
    """Operations of the segment that the Seg at position pos runs."""
    ops_ = case["ops"]
    j = pos - 1
    seg = []
    while j >= 0 and ops_[j][0] != "Seg":
        seg.append(ops_[j])
        j -= 1
    return list(reversed(seg))


def _accepted(case, upto):
    """The operations before position `upto` that the specification accepts (with positions)."""
    s = [0] * case["n"]
    acc = []
    for p, op in enumerate(case["ops"][:upto]):
        t = spec_step(s, op)
        if t is not None:
            s = t
            acc.append((p, op))
    return acc


def bosonic_reinit(case, pos):
    """True when the segment run at `pos` (a Seg) is a non-empty segment that follows an earlier non-empty one on
    the bosonic engine: BosonicBackend.run_prog then calls init_circuit -> begin_circuit again (recorded finding)."""
    acc = dict(_accepted(case, pos))
    j = pos - 1
    seg = []
    while j >= 0 and case["ops"][j][0] != "Seg":
        if j in acc:
            seg.append(case["ops"][j])
        j -= 1
    earlier_nonempty = False
    cur = []
    for p in range(0, j + 1):
        o = case["ops"][p]
        if o[0] == "Reset":
            earlier_nonempty, cur = False, []
        elif o[0] == "Seg":
            if cur:
                earlier_nonempty = True
            cur = []
        elif p in acc:
            cur.append(o)
    return bool(seg) and earlier_nonempty


def classify_error(case, pos, icode, detail):
    be, level = case["backend"], case["level"]
    op = case["ops"][pos]
    if _bos_known(case, pos):
        return "bosonic:engine:segment-reinit"
    return "%s:%s:valid-op-raised:%s:%s" % (be, level, op[0], icode)


def bosonic_reinit_before_reset(case, pos):
    """A Reset on the bosonic engine restores the mode count of the LAST begin_circuit, which the re-initialisation
    finding moves to the register size at the start of the latest non-empty segment."""
    p = pos - 1
    while p >= 0 and case["ops"][p][0] != "Reset":
        if case["ops"][p][0] == "Seg" and bosonic_reinit(case, p):
            return True
        p -= 1
    return False


def _bos_known(case, pos):
    if case["backend"] != "bosonic" or case["level"] != "engine":
        return False
    k = case["ops"][pos][0]
    # once a later non-empty segment has re-initialised the circuit, everything observed until the next Reset is affected
    return (k == "Seg" and bosonic_reinit(case, pos)) or (k in ("Seg", "Reset") and bosonic_reinit_before_reset(case, pos))


def classify_modes(case, pos, io, so):
    be, level = case["backend"], case["level"]
    if _bos_known(case, pos):
        return "bosonic:engine:segment-reinit"
    return "%s:%s:get_modes" % (be, level)


def classify_state(case, pos, io, so):
    be, level = case["backend"], case["level"]
    if _bos_known(case, pos):
        return "bosonic:engine:segment-reinit"
    if be == "gaussian" and isinstance(io[3], list):
        # the defect fixed by /repo 23cb098, should it come back: labels right, data read from slots 0..#live-1
        s = [0] * case["n"]
        for op in case["ops"][:pos + 1]:
            t = spec_step(s, op)
            if t is not None:
                s = t
        lives = [i for i, x in enumerate(s) if x is not None]
        slots = [0 if x is None else x for x in s]
        pred = [[lab, slots[j]] for j, lab in enumerate(lives)]
        if [x[:2] for x in io[3]] == pred and lives != list(range(len(lives))) and not any(o[0] == "Reset" for o in case["ops"]):
            return "gaussian:state-after-del:slots-range-nlive"
    labels_ok = isinstance(io[3], list) and [x[0] for x in io[3]] == [x[0] for x in so[3]]
    data_ok = labels_ok and [x[1] for x in io[3]] == [x[1] for x in so[3]]
    return "%s:%s:state-%s" % (be, level, "variance" if data_ok else ("data" if labels_ok else "labels"))


# ----------------------------------------------------------------------------------------------

def shrink(case, sig, still):
    """Greedy removal of operations keeping the same failure signature."""
    cur = copy.deepcopy(case)
    changed = True
    budget = 60
    while changed and budget > 0:
        changed = False
        for i in range(len(cur["ops"]) - 1, -1, -1):
            if budget <= 0:
                break
            cand = copy.deepcopy(cur)
            del cand["ops"][i]
            if "styles" in cand and i < len(cand["styles"]):
                del cand["styles"][i]
            if cand["level"] == "engine" and (not cand["ops"] or cand["ops"][-1][0] != "Seg" or cand["ops"][-1][1] is not None):
                continue
            fix_aux(cand)
            if cand["backend"] == "fock" and max_live(cand["n"], cand["ops"]) > max(LIVE_CAP["fock"] + 1, max_live(case["n"], case["ops"])):
                continue      # never shrink into a register the Fock simulator cannot hold
            budget -= 1
            try:
                if sig in still(cand):
                    cur = cand
                    changed = True
            except Exception:
                pass
    return cur


def failing_sigs(case):
    impl = run_impl(case)
    spec = spec_trace(case["n"], case["ops"])
    return [f[0] for f in predicate_failures(case, impl, spec)]


def report(ctx, case, fails, seen):
    for sig, msg in fails:
        if sig in seen:
            continue
        seen.add(sig)
        small = shrink(case, sig, failing_sigs)
        impl = run_impl(small)
        spec = spec_trace(small["n"], small["ops"])
        f2 = [f for f in predicate_failures(small, impl, spec) if f[0] == sig]
        ctx.counterexample(sig, (f2[0][1] if f2 else msg) + " [%s backend, %s level]" % (case["backend"], case["level"]),
                           {"case": small, "impl": impl, "expected": spec})


def canon_trace(tr):
    return [[o[0], o[1], o[2], o[3]] for o in tr]


def compare_model(case, impl, model):
    """Exact comparison of model and implementation observations (None = not observed).  The Coq model carries
    (label, data); the squeeze level is judged by the search predicate only.  A Reset is a history boundary for the model."""
    for pos, io in enumerate(impl):
        mo = model[pos]
        if mo is None:
            continue
        if io[0] != mo[0]:
            return pos, "result code impl %s vs model %s" % (io[0], mo[0])
        if case["level"] == "engine" and io[1] != mo[1]:
            return pos, "register impl %s vs model %s" % (io[1], mo[1])
        if io[2] is not None and io[2] != mo[2]:
            return pos, "get_modes impl %s vs model %s" % (io[2], mo[2])
        if io[3] is not None:
            want = mo[3]
            sel = rx(case["ops"][pos]).get("modes") if case["ops"][pos][0] == "Seg" else None
            if sel is not None and mo[0] == 0:
                want = [want[p] for p in sel if p < len(want)]
            got = [x[:2] for x in io[3]] if isinstance(io[3], list) else io[3]
            if got != want:
                return pos, "state impl %s vs model %s" % (got, want)
    if len(impl) != len(model):
        return len(impl) - 1, "implementation trace stops after %d of %d operations" % (len(impl), len(model))
    return None


def spec_plain(case):
    """The Python specification projected to what the Coq specification computes (for the python-vs-Coq tie)."""
    out = []
    first = True
    for n, ops_ in chunks(case):
        if not first:
            out.append(None)
        first = False
        bare = [[x for x in o if not isinstance(x, dict)] for o in ops_]
        out.extend([[o[0], o[1], o[2], [x[:2] for x in o[3]]] for o in spec_trace(n, bare)])
    return out


def corpus_cases():
    import glob, json, os
    out = []
    for p in sorted(glob.glob(os.path.join(coq.VERIF, "corpus", "C08-*.json"))):
        try:
            d = json.load(open(p))
            out.append(d["data"]["case"])
        except Exception:
            pass
    return out


def correspondence(ctx):
    rng = ctx.rng
    seen = set()
    plan = [("engine", "gaussian", ctx.budget(120, 1500)), ("engine", "fock", ctx.budget(60, 500)),
            ("engine", "bosonic", ctx.budget(60, 600)),
            ("api", "gaussian", ctx.budget(80, 800)), ("api", "fock", ctx.budget(50, 400)),
            ("api", "bosonic", ctx.budget(80, 800))]

    def single_segment(c):
        return sum(1 for o in c["ops"] if o[0] == "Seg") <= 1

    # the bosonic ENGINE is tied to the model on single-segment histories only (segment re-initialisation is a finding)
    cases = [c for c in corpus_cases() if (c["level"], c["backend"]) != ("engine", "bosonic") or single_segment(c)]
    for level, be, cnt in plan:
        for _ in range(cnt):
            if (level, be) == ("engine", "bosonic"):
                cases.append(gen_single_segment(rng, be))
            elif level == "api" and rng.random() < 0.15:
                # lists with a valid entry in front of an invalid one: the phase-space backends stop in the middle (modelled);
                # the specification — and therefore the recipes that need to know a mode's data — cannot follow that, so plain
                cases.append(gen_history(rng, be, level, plain=True))
            else:
                cases.append(gen_history(rng, be, level, bad_first=(level == "api")))
    # >= 10 live modes (Fock: cutoff 2)
    for level, be, cnt in [("engine", "gaussian", ctx.budget(8, 80)), ("api", "gaussian", ctx.budget(4, 40)),
                           ("api", "bosonic", ctx.budget(4, 40)), ("engine", "bosonic", ctx.budget(4, 40)),
                           ("engine", "fock", ctx.budget(0, 8))]:
        for _ in range(cnt):
            cases.append(gen_single_segment(rng, be, wide=True) if (level, be) == ("engine", "bosonic")
                         else gen_history(rng, be, level, wide=True, max_ops=rng.choice([6, 10, 14]), bad_first=(level == "api")))
    for be, level in (("gaussian", "engine"), ("bosonic", "api"), ("gaussian", "api"), ("bosonic", "engine")) + ((("fock", "engine"),) if not ctx.quick else ()):
        cases.append(wide_sweep(rng, be, level))
    impls = [run_impl(c) for c in cases]
    shard = 400
    for si in range(0, len(cases), shard):
        sub = cases[si:si + shard]
        r = model_eval(ctx, "cases_corr_%d" % (si // shard), sub)
        if r is None:
            return
        models, specs = r
        for c, impl, mo, sp in zip(sub, impls[si:si + shard], models, specs):
            ctx.case({"case": c}, nontrivial=nontrivial(c), bucket=bucket(c))
            note_stats(ctx, c)
            ctx.traces += 1
            pyspec = spec_plain(c)
            if pyspec != sp:
                ctx.obligation("correspondence:python-spec-equals-coq-spec", False, "%s\npy %s\ncoq %s" % (c, pyspec, sp))
                return
            d = compare_model(c, impl, mo)
            if d is not None:
                pos, what = d
                fails = predicate_failures(c, impl, spec_trace(c["n"], c["ops"]))
                if fails:
                    report(ctx, c, fails, seen)
                else:
                    ctx.disagreement("corr:%s:%s:%s" % (c["backend"], c["level"], c["ops"][pos][0]),
                                     "model and implementation differ at op #%d %s: %s" % (pos, c["ops"][pos], what),
                                     {"case": c, "impl": impl, "model": mo})
    ctx.obligation("correspondence:python-spec-equals-coq-spec", True)


def enumerate_histories(n, length, max_index):
    """All histories of the given length over a small alphabet (used in the thorough tier)."""
    alphabet = [["New", 1], ["New", 2], ["Seg", None]]
    for i in range(max_index):
        alphabet += [["Del", [i]], ["Disp", i, i + 1], ["Meas", [i], None]]
    for i in range(max_index):
        for j in range(max_index):
            if i != j:
                alphabet.append(["Swap", i, j])
    alphabet.append(["Del", [1, 0]])
    import itertools
    for combo in itertools.product(alphabet, repeat=length):
        yield [list(o) for o in combo]


def search(ctx):
    """The property's own predicate on the implementation, all three backends, both levels:
    implementation observations must equal the specification's (register, get_modes, labels, data,
    rejection of invalid operations).  Differential between backends is implied."""
    rng = ctx.rng
    seen = set()
    plan = [("engine", "gaussian", ctx.budget(150, 2500)), ("engine", "fock", ctx.budget(60, 700)),
            ("engine", "bosonic", ctx.budget(90, 1200)),
            ("api", "gaussian", ctx.budget(60, 800)), ("api", "fock", ctx.budget(40, 400)), ("api", "bosonic", ctx.budget(60, 800))]
    cases = list(corpus_cases())
    for level, be, cnt in plan:
        for _ in range(cnt):
            if be == "bosonic" and level == "engine" and rng.random() < 0.6:
                cases.append(gen_single_segment(rng, "bosonic"))
            else:
                cases.append(gen_history(rng, be, level, bad_first=(level == "api")))
    for level, be, cnt in [("engine", "gaussian", ctx.budget(8, 80)), ("engine", "bosonic", ctx.budget(5, 50)),
                           ("api", "gaussian", ctx.budget(3, 30)), ("api", "bosonic", ctx.budget(3, 30)),
                           ("engine", "fock", ctx.budget(0, 8))]:
        for _ in range(cnt):
            cases.append(gen_single_segment(rng, be, wide=True) if (level, be) == ("engine", "bosonic")
                         else gen_history(rng, be, level, wide=True, max_ops=rng.choice([6, 10, 14]), bad_first=(level == "api")))
    for be, level in (("gaussian", "engine"), ("bosonic", "engine"), ("fock", "engine")) + ((("fock", "api"),) if not ctx.quick else ()):
        for _ in range(ctx.budget(1, 6) if be != "fock" else ctx.budget(1, 3)):
            cases.append(wide_sweep(rng, be, level))
    # the same history on all backends (differential)
    for _ in range(ctx.budget(40, 500)):
        base = gen_history(rng, "fock", "engine", malformed=0.1)
        for be in BACKENDS:
            c = copy.deepcopy(base)
            c["backend"] = be
            for o in c["ops"]:
                if o[0] == "Meas":
                    o[1] = o[1][:1]
                    o[2] = "homodyne"
            c.pop("cutoff", None)
            cases.append(fix_aux(c))
    def judge(c, bkt):
        impl = run_impl(c)
        spec = spec_trace(c["n"], c["ops"])
        ctx.case({"case": c}, nontrivial=nontrivial(c), bucket=bkt)
        note_stats(ctx, c)
        fails = predicate_failures(c, impl, spec)
        if fails:
            report(ctx, c, fails, seen)

    for c in cases:
        judge(c, "search/" + bucket(c))
    search_survivors(ctx, seen)

    if not ctx.quick:
        import time as _time

        def enum_case(be, n, h):
            ops_ = [o if o[0] != "Meas" else ["Meas", o[1], "fock" if be == "fock" else "homodyne"] for o in h]
            return {"backend": be, "level": "engine", "n": n, "ops": ops_ + [["Seg", None]], "npseed": 1,
                    "styles": ["ref"] * (len(ops_) + 1)}

        small = [["New", 1], ["Del", [0]], ["Del", [1]], ["Disp", 0, 1], ["Disp", 1, 2], ["Swap", 0, 1], ["Swap", 1, 0], ["Seg", None]]
        # (backend, n, length, alphabet): full alphabet = enumerate_histories; "small" = the 8 operations above
        plan_enum = [(be, n, L, "full") for be in ("gaussian", "bosonic") for n in (1, 2) for L in (1, 2, 3)]
        plan_enum += [("fock", 1, 1, "full"), ("fock", 1, 2, "full"), ("fock", 1, 3, "full"), ("fock", 2, 1, "full"), ("fock", 2, 2, "full")]
        plan_enum += [("gaussian", 1, 4, "full"), ("bosonic", 1, 4, "full"), ("fock", 2, 3, "full"), ("gaussian", 1, 5, "small"),
                      ("gaussian", 2, 4, "small"), ("bosonic", 2, 4, "small"), ("fock", 1, 4, "small")]
        done = []
        for be, n, L, alpha in plan_enum:
            if _time.time() - ctx.t0 > ctx.budget(0, 720):
                ctx.notes.append("enumeration stopped by the time guard before (%s, n=%d, length %d, %s)" % (be, n, L, alpha))
                break
            import itertools as _it
            gen = enumerate_histories(n, L, n + 1) if alpha == "full" else ([list(o) for o in combo] for combo in _it.product(small, repeat=L))
            cnt = 0
            for h in gen:
                if be == "bosonic" and any(o[0] == "Seg" for o in h):
                    continue     # bosonic engine: single-segment histories (see finding segment-reinit)
                if be == "fock" and max_live(n, h) > LIVE_CAP["fock"] + 1:
                    continue
                judge(enum_case(be, n, copy.deepcopy(h)), "enum/%s/n%d/len%d/%s" % (be, n, L, alpha))
                cnt += 1
            done.append("%s n=%d len=%d %s: %d" % (be, n, L, alpha, cnt))
        ctx.notes.append("exhaustively enumerated engine histories: " + "; ".join(done))


def wide_sweep(rng, backend, level):
    """Deterministic-shape history on 10-12 modes: every mode gets its own data (observed with >= 10 live modes), a low and
    possibly a middle index are deleted, survivors are touched again (shifted internal positions), modes are created behind
    them (>= 10 live, internal positions >= 9 in use, observed), pairs across the gap are swapped, one more deletion, the
    last modes are touched, observed.  Fock (cutoff 2): the creation comes first, while the state is still pure, and no
    two-mode gate is used (11 live modes in the mixed representation / a numba specialisation for a 20-axis tensor cost
    tens of seconds)."""
    two = backend == "fock"
    n = rng.choice([10, 11]) if not two else 10
    hist = []
    for i in range(n):
        hist.append(["Disp", i, (i % 2) + 1 if two else (i % 3) + 1])
    live = list(range(n))
    if two:
        hist.append(["New", 1])
        live.append(n)
        hist.append(["Disp", n, 2])
    hist.append(["Seg", None])
    a, b = rng.randrange(0, 3), rng.randrange(3, n - 2)
    hist.append(["Del", [b, a]] if (rng.random() < 0.5 and not two) else ["Del", [a]])
    for d in hist[-1][1]:
        live.remove(d)
    for i in (live if not two else [live[0], live[len(live) // 2], live[-2], live[-1]]):
        hist.append(["Disp", i, -1])
    if not two:
        m = n + 1 - len(live)
        hist.append(["New", m])
        live += list(range(n, n + m))
        hist.append(["Disp", live[-1], 2])
    hist.append(["Seg", None])
    if not two:
        hist.append(["Swap", live[-1], live[0]])
        hist.append(["Swap", live[1], live[-2]])
    c = rng.choice(live[2:-2])
    hist.append(["Del", [c]])
    live.remove(c)
    for i in live[-3:]:
        hist.append(["Disp", i, 1])
    hist.append(["Seg", None])
    if level != "engine" or backend == "bosonic":      # bosonic engine: single segment (see finding segment-reinit)
        hist = [o for o in hist if o[0] != "Seg"]
        if level == "engine":
            hist.append(["Seg", None])
    case = {"backend": backend, "level": level, "n": n, "ops": hist, "npseed": 1}
    if level == "engine":
        case["styles"] = [rng.choice(["int", "ref"]) for _ in hist]
    else:
        case["int_single"] = True
    if two:
        case["cutoff"] = 2
    return case


def gen_single_segment(rng, backend, wide=False):
    """Engine history with all the commands of one computation in ONE program segment (the bosonic engine re-initialises
    its circuit for every later non-empty segment — recorded finding — so this is where the property must hold outright).
    Only the boundary in front of a Reset (the run that the reset then discards) and the final one are kept."""
    while True:
        c = gen_history(rng, backend, "engine", malformed=0.15, wide=wide, max_ops=(rng.choice([6, 10, 14]) if wide else None))
        ops_, sts = c["ops"], c["styles"]
        keep = []
        for p, o in enumerate(ops_):
            if o[0] == "Seg":
                continue
            if o[0] == "Reset" and (not keep or keep[-1][0][0] != "Seg"):
                keep.append((["Seg", None], "int"))      # the run that the reset then discards
            keep.append((o, sts[p]))
        if not any(o[0] not in ("Seg", "Reset") for o, _ in keep):
            continue
        keep.append((["Seg", None], "int"))
        c["ops"] = [o for o, _ in keep]
        c["styles"] = [st for _, st in keep]
        c.pop("batch", None)
        # the live cap is still respected: removing boundaries does not change which commands are valid
        return fix_aux(c)


# ----------------------------------------------------------------------------------------------
# "Survivors": entangled modes must come through creations / deletions of OTHER modes with their joint state intact
# (content that the one-integer-per-mode abstraction cannot see: correlations, complex off-diagonal moments, squeezing)

def gen_survivor_case(rng, backend):
    n = rng.choice([2, 3]) if backend == "fock" else rng.choice([2, 3, 3, 4])
    small = backend == "fock"
    pre = []
    for i in range(n):
        pre.append(["Sgate", [round(rng.uniform(0.05, 0.15) if small else rng.uniform(0.2, 0.6), 3), round(rng.uniform(-3, 3), 3)], [i]])
        pre.append(["Dgate", [round(rng.uniform(0.05, 0.2) if small else rng.uniform(0.2, 0.8), 3), round(rng.uniform(-3, 3), 3)], [i]])
    pairs = [(i, j) for i in range(n) for j in range(n) if i != j]
    for _ in range(n):
        a, b = rng.choice(pairs)
        pre.append(["BSgate", [round(rng.uniform(0.3, 1.2), 3), round(rng.uniform(-3, 3), 3)], [a, b]])
    if not small:
        pre.append(["ThermalLossChannel", [round(rng.uniform(0.6, 0.95), 3), round(rng.uniform(0.1, 0.8), 3)], [rng.randrange(n)]])
    keep = rng.randrange(n)                       # one original mode is never deleted
    s = [0] * n
    tail = []
    cap = 4 if small else 8
    for _ in range(rng.choice([2, 4, 6, 9])):
        lv = [i for i, x in enumerate(s) if x is not None]
        extra = [i for i in lv if i >= n]
        k = rng.choice(["New", "New", "Del", "Del", "DispNew", "MeasNew", "Seg"])
        op = None
        if k == "New" and len(lv) < cap:
            op = ["New", rng.choice([1, 1, 2, 3]) if len(lv) + 3 <= cap else 1]
        elif k == "Del":
            cand = [i for i in lv if i != keep]
            if cand:
                op = ["Del", rng.sample(cand, min(len(cand), rng.choice([1, 1, 2])))]
        elif k == "DispNew" and extra:
            op = ["Disp", rng.choice(extra), rng.choice([1, 2, -1])]
        elif k == "MeasNew" and extra:
            op = ["Meas", [rng.choice(extra)], "fock" if small else "homodyne"]
        elif k == "Seg" and backend != "bosonic":
            op = ["Seg", None]
        if op is None:
            continue
        s = spec_step(s, op)
        tail.append(op)
    tail.append(["Seg", None])
    return {"kind": "survivors", "backend": backend, "n": n, "prefix": pre, "ops": tail, "npseed": rng.randrange(1 << 30),
            "pure": (False if small and rng.random() < 0.3 else None)}


def _survivor_engine(case):
    o = _opts(case["backend"], case)
    if case["backend"] == "fock":
        o["cutoff_dim"] = 5
    return sf.Engine(case["backend"], backend_options=o)


def _prefix_program(case):
    prog = sf.Program(case["n"])
    with prog.context as q:
        for name, params, modes in case["prefix"]:
            getattr(ops, name)(*params) | tuple(q[m] for m in modes)
    return prog


def _reduced(st, backend, positions):
    if backend == "fock":
        return [np.asarray(st.reduced_dm(list(positions)))]
    if backend == "gaussian":
        mu, cov = st.reduced_gaussian(list(positions))
        return [np.asarray(mu), np.asarray(cov)]
    w, mu, cov = st.reduced_bosonic(list(positions))
    return [np.asarray(w), np.asarray(mu), np.asarray(cov)]


def survivor_failures(case):
    """[(signature, message)]: after every program segment the original modes still alive must be present under their own
    labels and their joint reduced state must equal the one right after the entangling prefix."""
    be = case["backend"]
    np.random.seed(case.get("npseed", 1))
    ref_state = _survivor_engine(case).run(_prefix_program(case)).state
    eng = _survivor_engine(case)
    prog = _prefix_program(case)
    s = [0] * case["n"]
    fails = []
    for pos, op in enumerate(case["ops"]):
        k = op[0]
        if k == "Seg":
            try:
                res = eng.run(prog)
            except Exception as e:
                return [("%s:survivors:run-raised:%s" % (be, type(e).__name__), "segment ending at tail op #%d raised %r" % (pos, e))]
            st = res.state
            names = [st.mode_names[j] for j in range(st.num_modes)]
            lives = [i for i, x in enumerate(s) if x is not None]
            if names != ["q[%d]" % i for i in lives]:
                return [("%s:survivors:labels" % be, "after tail op #%d the state holds %s, live modes are %s" % (pos, names, lives))]
            surv = [i for i in lives if i < case["n"]]
            got = _reduced(st, be, [lives.index(i) for i in surv])
            want = _reduced(ref_state, be, surv)
            for g, w in zip(got, want):
                # Fock: a measurement renormalises the truncated state, which rescales everything by 1 + O(1e-5)
                if g.shape != w.shape or not np.allclose(g, w, atol=(2e-4 if be == "fock" else 1e-7), rtol=0):
                    return [("%s:survivors:reduced-state-changed" % be,
                             "after tail op #%d the joint state of the original modes %s differs from the one they had before "
                             "the other modes were created / deleted (max deviation %s)" % (pos, surv, (float(np.max(np.abs(g - w))) if g.shape == w.shape else "shape")))]
            prog = sf.Program(prog)
            continue
        try:
            with prog.context:
                if k == "New":
                    ops.New(op[1])
                elif k == "Del":
                    ops.Del | tuple(prog.reg_refs[i] for i in op[1])
                elif k == "Disp":
                    ops.Dgate(*_disp_args(op[2])) | prog.reg_refs[op[1]]
                elif k == "Meas":
                    (ops.MeasureFock() if op[2] == "fock" else ops.MeasureX) | prog.reg_refs[op[1][0]]
        except Exception as e:
            return [("%s:survivors:valid-op-raised:%s" % (be, k), "tail op #%d %s raised %r" % (pos, op, e))]
        s = spec_step(s, op)
    return fails


def shrink_survivors(case, sig):
    cur = copy.deepcopy(case)
    changed, budget = True, 40
    while changed and budget > 0:
        changed = False
        for i in range(len(cur["ops"]) - 2, -1, -1):
            cand = copy.deepcopy(cur)
            del cand["ops"][i]
            s = [0] * cand["n"]
            ok = True
            for o in cand["ops"]:
                s = spec_step(s, o)
                if s is None:
                    ok = False
                    break
            if not ok:
                continue
            budget -= 1
            try:
                if sig in [f[0] for f in survivor_failures(cand)]:
                    cur, changed = cand, True
            except Exception:
                pass
            if budget <= 0:
                break
    return cur


def search_survivors(ctx, seen):
    rng = ctx.rng
    for be, cnt in (("gaussian", ctx.budget(40, 600)), ("bosonic", ctx.budget(30, 400)), ("fock", ctx.budget(8, 80))):
        for _ in range(cnt):
            c = gen_survivor_case(rng, be)
            ctx.case({"case": c}, nontrivial=any(o[0] == "Del" for o in c["ops"]), bucket="survivors/" + be)
            try:
                fails = survivor_failures(c)
            except Exception as e:
                fails = [("%s:survivors:harness:%s" % (be, type(e).__name__), repr(e))]
            for sig, msg in fails:
                if sig in seen:
                    continue
                seen.add(sig)
                small = shrink_survivors(c, sig)
                f2 = [f for f in survivor_failures(small) if f[0] == sig]
                ctx.counterexample(sig, (f2[0][1] if f2 else msg) + " [%s backend, engine level, entangled survivors]" % be, {"case": small})


def replay(ctx, data):
    d = data["data"]
    case = d["case"]
    if case.get("kind") == "survivors":
        fails = survivor_failures(case)
        print("survivors case:", case)
        for f in fails:
            print("FAILS   :", f[0], "-", f[1])
        return bool(fails)
    impl = run_impl(case)
    spec = spec_trace(case["n"], case["ops"])
    print("history :", case["backend"], case["level"], "n=%d" % case["n"], case["ops"])
    print("impl    :", impl)
    print("expected:", spec)
    fails = predicate_failures(case, impl, spec)
    for f in fails:
        print("FAILS   :", f[0], "-", f[1])
    sig = data.get("signature")
    if sig and not sig.startswith("corr:") and not sig.startswith("obligation:"):
        return any(f[0] == sig for f in fails) or bool(fails)
    return bool(fails)
