"""C17 — matrix decompositions return exact, correctly structured factors."""
import math

import numpy as np

from vlib import coq

PROP = "C17"
LEVEL = "proof"
COQ_TARGETS = ["C17/Model.vo", "C17/Alg.vo", "C17/Sched.vo", "C17/PhaseEnd.vo", "C17/Main.vo", "C17/Unitary.vo", "C17/Float.vo"]
COQ_DIRS = ["C17"]
PROPERTIES_FILE = "Properties/C17.v"
ALLOWED_AXIOMS = set()
RULE = ("case = (routine, input class, size, matrix); non-trivial = degenerate spectrum, exact zeros, permutation-like, "
        "already canonical, boundary-of-tolerance, or invalid input")
TRUSTED_BASE = [
    "Coq 8.16.1 kernel; vm_compute with primitive floats (PrimFloat) for executing the model in correspondence files only",
    "hand-written model coq/C17/Model.v of T/Ti/mach_zehnder blocks, the nulling order of rectangular/rectangular_MZ/triangular and the "
    "phase-pushing of rectangular_phase_end/rectangular_symmetric; tied to the code by (i) exact comparison of the nulling order with "
    "the calls the implementation makes to nullTi/nullT/nullMZi/nullMZ (observed by wrapping those module attributes in-process) and "
    "(ii) tolerance-1e-6 comparison of every element's (cos, sin, exp(i phi)) and of the diagonals computed by the float model "
    "coq/C17/Float.v (sqrt-based formulas instead of numpy's arctan/angle/cos/sin/exp) on generated unitaries",
    "section hypotheses standing for real analysis: ring laws of the scalars; cos^2+sin^2=1, |exp(i phi)|=1, tan(theta)=|r|, "
    "exp(i angle r)=r/|r|, the half-angle relation of exp(i 2 arctan t)",
    "harness tools/props/c17.py: generators, independent element matrices used to multiply the factors back, tolerances "
    "(1e-8 reconstruction/structure, 2e-7 for Bloch-Messiah whose values are rounded to 9 decimals, 1e-4 on the mean photon number "
    "because the scaling root comes from thewalrus.adj_scaling)",
    "numpy/scipy/LAPACK and thewalrus are libraries: takagi, williamson, bloch_messiah, *_compact, sun_compact and the graph "
    "embeddings are validated per output, not modelled",
]
ASSUMPTIONS = [
    "williamson's convention is V = S Db S^T (as used by its callers and tests); its docstring says S^T Db S",
    "an input that is invalid by a routine's own documentation (non-square, odd dimension, too small, NaN, not positive definite, "
    "validity measure >= 3x (random stream) / 10x (guard sweep) the tolerance in force) must be rejected; in the guard sweep the "
    "rejection must be the documented ValueError, not a later crash; inputs at 0.1x the tolerance must be decomposed to an accuracy "
    "of the order of their inexactness (mesh, takagi, embeddings, williamson, bloch_messiah; the compact meshes self-check exactly)",
    "element / nulling helpers (T, Ti, mach_zehnder(_inv), M, P, null*) are compared with their documented matrices; "
    "covmat_to_hamil / hamil_to_covmat with H = S^-T arctanh(1/nu) S^-1",
    "inputs on the boundary of a routine's own tolerance may be accepted or rejected",
]
MANIFEST_TEXT = ("proof: for every size n, commutative ring of scalars and parameter list, Coq proves that the nulling order of "
                 "rectangular/rectangular_MZ/triangular zeroes the strict lower triangle given blocks that null their targets, that every "
                 "branch of nullTi/nullT/nullMZi/nullMZ yields such a block, that T/Ti/Mach-Zehnder blocks are unitary, that applying the "
                 "inverse blocks in reverse restores the input, that for unitary input the remainder is diagonal with unit-modulus "
                 "entries (C17_rectangular_full, C17_triangular_full, C17_rectangular_MZ_full), and that rectangular_phase_end / "
                 "rectangular_symmetric preserve the product (C17_phase_end, C17_symmetric_phase_end); all closed under the global "
                 "context.  Not proved: floating-point error, and all LAPACK-based routines (takagi, williamson, bloch_messiah, compact "
                 "meshes, sun_compact, graph embeddings), which are checked per output by a randomized search over degenerate / "
                 "exact-zero / permutation-like / boundary / invalid inputs.")

TWO_PI = 2 * math.pi

MESH_T = ["rectangular", "rectangular_phase_end", "triangular"]
MESH_MZ = ["rectangular_MZ", "rectangular_symmetric"]
MESH_COMPACT = ["triangular_compact", "rectangular_compact", "sun_compact"]
UNITARY_ROUTINES = MESH_T + MESH_MZ + MESH_COMPACT
SYMM_ROUTINES = ["takagi", "graph_embed", "bipartite_graph_embed", "graph_embed_deprecated"]
ALL_ROUTINES = UNITARY_ROUTINES + SYMM_ROUTINES + ["williamson", "bloch_messiah"]


def dec():
    from strawberryfields import decompositions
    return decompositions


# ------------------------------------------------------------------ independent factor matrices
def Tm(m, n, th, ph, N):
    M = np.eye(N, dtype=complex)
    e = np.exp(1j * ph)
    M[m, m] = e * np.cos(th)
    M[m, n] = -np.sin(th)
    M[n, m] = e * np.sin(th)
    M[n, n] = np.cos(th)
    return M


def MZm(m, n, phi_i, phi_e, N):
    """external phase on m, 50:50 BS, internal phase on m, 50:50 BS (the docstring's closed form)."""
    M = np.eye(N, dtype=complex)
    g = 1j * np.exp(1j * phi_i / 2)
    s, c = np.sin(phi_i / 2), np.cos(phi_i / 2)
    e = np.exp(1j * phi_e)
    M[m, m] = g * s * e
    M[m, n] = g * c
    M[n, m] = g * c * e
    M[n, n] = -g * s
    return M


def sMZm(n, sigma, delta, N):
    M = np.eye(N, dtype=complex)
    e = np.exp(1j * sigma)
    M[n, n] = e * np.sin(delta)
    M[n, n + 1] = e * np.cos(delta)
    M[n + 1, n] = e * np.cos(delta)
    M[n + 1, n + 1] = -e * np.sin(delta)
    return M


def Pm(j, phi, N):
    M = np.eye(N, dtype=complex)
    M[j, j] = np.exp(1j * phi)
    return M


def su2m(i, j, a, b, g, N):
    M = np.eye(N, dtype=complex)
    M[i, i] = np.exp(1j * (a + g) / 2) * np.cos(b / 2)
    M[i, j] = -np.exp(1j * (a - g) / 2) * np.sin(b / 2)
    M[j, i] = np.exp(-1j * (a - g) / 2) * np.sin(b / 2)
    M[j, j] = np.exp(-1j * (a + g) / 2) * np.cos(b / 2)
    return M


def sympmat(n):
    I = np.eye(n)
    O = np.zeros((n, n))
    return np.block([[O, I], [-I, O]])


# ------------------------------------------------------------------ matrices <-> JSON
def _fj(x):
    x = float(x)
    return x if math.isfinite(x) else repr(x)   # "nan" / "inf" / "-inf": strict JSON has no literals for them


def mat_to_json(A):
    A = np.asarray(A)
    if np.iscomplexobj(A):
        return {"shape": list(A.shape), "re": [_fj(x) for x in A.real.ravel()], "im": [_fj(x) for x in A.imag.ravel()]}
    d = {"shape": list(A.shape), "re": [_fj(x) for x in A.ravel()]}
    if A.dtype.kind in "iu":
        d["dtype"] = "int"
    return d


def mat_from_json(d):
    re = np.array([float(v) for v in d["re"]], dtype=float).reshape(d["shape"])
    if "im" in d:
        return re + 1j * np.array([float(v) for v in d["im"]], dtype=float).reshape(d["shape"])
    if d.get("dtype") == "int":
        return re.astype(int)
    return re


# ------------------------------------------------------------------ structure checks on returned parameter lists
class Bad(Exception):
    def __init__(self, sig, msg):
        Exception.__init__(self, msg)
        self.sig = sig
        self.msg = msg


def _finite(x):
    return np.all(np.isfinite(np.asarray(x, dtype=complex)))


def _check_tlist(lst, N, what, ranged=False):
    for e in lst:
        if len(e) != 5:
            raise Bad("structure", "%s entry %r does not have 5 fields" % (what, e))
        m, n, a, b, nm = e
        if int(m) != m or int(n) != n or not (0 <= m < N - 1) or n != m + 1 or nm != N:
            raise Bad("structure", "%s entry %r is not a nearest-neighbour element of an %d-mode mesh" % (what, e, N))
        if not (_finite(a) and _finite(b)) or np.iscomplexobj(np.asarray(a)) or np.iscomplexobj(np.asarray(b)):
            raise Bad("structure", "%s entry %r has a non-finite / non-real parameter" % (what, e))
        if ranged and not (0 <= a < TWO_PI and 0 <= b < TWO_PI):
            raise Bad("phase-range", "%s entry %r has a phase outside [0, 2pi)" % (what, e))


def _check_diag(d, N, what):
    d = np.asarray(d)
    if d.shape != (N,):
        raise Bad("structure", "%s has shape %r, expected (%d,)" % (what, d.shape, N))
    if not _finite(d) or np.abs(np.abs(d) - 1).max(initial=0) > 1e-10 + _SLACK[0]:
        raise Bad("diag-not-unit", "%s is not unit-modulus: %r" % (what, np.abs(d)))


def recompose(routine, res, N):
    """Matrix implemented by the returned factors, built from this file's own element matrices."""
    if routine == "rectangular":
        ti, d, t = res
        _check_tlist(ti, N, "tilist"); _check_tlist(t, N, "tlist"); _check_diag(d, N, "diagonal")
        if len(ti) + len(t) != N * (N - 1) // 2:
            raise Bad("structure", "expected %d elements, got %d" % (N * (N - 1) // 2, len(ti) + len(t)))
        q = np.eye(N, dtype=complex)
        for i in ti:
            q = Tm(int(i[0]), int(i[1]), i[2], i[3], N) @ q
        q = np.diag(d) @ q
        for i in reversed(t):
            q = Tm(int(i[0]), int(i[1]), i[2], i[3], N).conj().T @ q
        return q
    if routine == "rectangular_MZ":
        ti, d, t = res
        _check_tlist(ti, N, "tilist", True); _check_tlist(t, N, "tlist", True); _check_diag(d, N, "diagonal")
        if len(ti) + len(t) != N * (N - 1) // 2:
            raise Bad("structure", "expected %d elements, got %d" % (N * (N - 1) // 2, len(ti) + len(t)))
        q = np.eye(N, dtype=complex)
        for i in ti:
            q = MZm(int(i[0]), int(i[1]), i[2], i[3], N) @ q
        q = np.diag(d) @ q
        for i in reversed(t):
            q = MZm(int(i[0]), int(i[1]), i[2], i[3], N).conj().T @ q
        return q
    if routine in ("rectangular_phase_end", "rectangular_symmetric"):
        t, d, third = res
        if third is not None:
            raise Bad("structure", "third component is not None")
        _check_tlist(t, N, "tlist", routine == "rectangular_symmetric"); _check_diag(d, N, "diagonal")
        if len(t) != N * (N - 1) // 2:
            raise Bad("structure", "expected %d elements, got %d" % (N * (N - 1) // 2, len(t)))
        el = Tm if routine == "rectangular_phase_end" else MZm
        q = np.eye(N, dtype=complex)
        for i in t:
            q = el(int(i[0]), int(i[1]), i[2], i[3], N) @ q
        return np.diag(d) @ q
    if routine == "triangular":
        t, d, third = res
        if third is not None:
            raise Bad("structure", "third component is not None")
        _check_tlist(t, N, "tlist"); _check_diag(d, N, "diagonal")
        if len(t) != N * (N - 1) // 2:
            raise Bad("structure", "expected %d elements, got %d" % (N * (N - 1) // 2, len(t)))
        q = np.diag(d).astype(complex)
        for i in t:
            q = Tm(int(i[0]), int(i[1]), i[2], i[3], N).conj().T @ q
        return q
    if routine == "triangular_compact":
        ph = res
        if ph["m"] != N:
            raise Bad("structure", "m=%r" % ph["m"])
        exp_keys = sorted((j - k, k) for j in range(N - 1) for k in range(j + 1))
        if sorted(ph["deltas"]) != exp_keys or sorted(ph["sigmas"]) != exp_keys or sorted(ph["phi_ins"]) != list(range(N - 1)) or sorted(ph["zetas"]) != list(range(N)):
            raise Bad("structure", "unexpected key set in phases dict")
        allv = list(ph["deltas"].values()) + list(ph["sigmas"].values()) + list(ph["phi_ins"].values()) + list(ph["zetas"].values())
        if not _finite(allv):
            raise Bad("structure", "non-finite phase")
        U = np.eye(N, dtype=complex)
        for j in range(N - 1):
            U = Pm(j + 1, ph["phi_ins"][j], N) @ U
            for k in range(j + 1):
                n = j - k
                U = sMZm(n, ph["sigmas"][n, k], ph["deltas"][n, k], N) @ U
        for j in range(N):
            U = Pm(j, ph["zetas"][j], N) @ U
        return U
    if routine == "rectangular_compact":
        ph = res
        if ph["m"] != N:
            raise Bad("structure", "m=%r" % ph["m"])
        if "zetas" in ph:
            raise Bad("structure", "zetas not absorbed")
        exp_keys = sorted((mode, layer) for layer in range(N) for mode in range(layer % 2, N - 1, 2))
        if sorted(ph["deltas"]) != exp_keys or sorted(ph["sigmas"]) != exp_keys:
            raise Bad("structure", "unexpected sMZI key set %r" % sorted(ph["deltas"]))
        if sorted(ph["phi_ins"]) != list(range(0, N - 1, 2)):
            raise Bad("structure", "unexpected phi_ins keys")
        edges_ok = set((N - 1, layer) for layer in range(N) if (layer + N + 1) % 2 == 0)
        for k, v in list(ph["phi_edges"].items()):
            if k not in edges_ok and v != 0:
                raise Bad("structure", "edge phase at %r which the mesh does not have" % (k,))
        for j in ph["phi_outs"]:
            if not (0 <= j < N):
                raise Bad("structure", "phi_outs key %r" % j)
        allv = list(ph["deltas"].values()) + list(ph["sigmas"].values()) + list(ph["phi_ins"].values()) + list(ph["phi_outs"].values()) + list(ph["phi_edges"].values())
        if not _finite(allv):
            raise Bad("structure", "non-finite phase")
        U = np.eye(N, dtype=complex)
        for j in range(0, N - 1, 2):
            U = Pm(j, ph["phi_ins"][j], N) @ U
        for layer in range(N):
            if (layer + N + 1) % 2 == 0:
                U = Pm(N - 1, ph["phi_edges"].get((N - 1, layer), 0.0), N) @ U
            for mode in range(layer % 2, N - 1, 2):
                U = sMZm(mode, ph["sigmas"][mode, layer], ph["deltas"][mode, layer], N) @ U
        for j, p in ph["phi_outs"].items():
            U = Pm(j, p, N) @ U
        return U
    if routine == "sun_compact":
        params, gp = res
        exp_modes = [(md1 - 1, md1) for md2 in range(2, N + 1) for md1 in range(N - 1, md2 - 2, -1)]
        if [tuple(p[0]) for p in params] != exp_modes:
            raise Bad("structure", "mode sequence %r" % [tuple(p[0]) for p in params])
        U = np.eye(N, dtype=complex)
        for (i, j), abg in params:
            if len(abg) != 3 or not _finite(abg) or np.iscomplexobj(np.asarray(abg)):
                raise Bad("structure", "SU(2) parameters %r" % (abg,))
            U = U @ su2m(i, j, abg[0], abg[1], abg[2], N)
        if gp is not None:
            if not _finite(gp):
                raise Bad("structure", "global phase %r" % gp)
            U = np.exp(1j * gp / N) * U
        return U
    raise KeyError(routine)


# ------------------------------------------------------------------ the property's predicate on one case
_SLACK = [0.0]       # extra absolute tolerance while checking inputs that are deliberately inexact (guard sweeps)
REC_TOL = 1e-10      # reconstruction, absolute, relative to max(1, |A|max)
STRUCT_TOL = 1e-10   # unitarity / symplecticity of returned factors
BM_TOL = 1e-9        # Bloch-Messiah rounds its singular values to 9 decimals by default


def _scale(A):
    return max(1.0, float(np.abs(A).max(initial=0)))


def _is_unitary(U, tol=None):
    tol = STRUCT_TOL + _SLACK[0] if tol is None else tol
    U = np.asarray(U)
    return U.ndim == 2 and U.shape[0] == U.shape[1] and _finite(U) and np.abs(U @ U.conj().T - np.eye(U.shape[0])).max(initial=0) <= tol


def _is_symplectic(S, tol):
    n = S.shape[0] // 2
    Om = sympmat(n)
    return _finite(S) and np.abs(S.T @ Om @ S - Om).max(initial=0) <= tol * _scale(S) ** 2


def call_routine(routine, A, opts):
    d = dec()
    fn = getattr(d, routine)
    return fn(A, **opts)


def valid_input(routine, A, opts):
    """Independent decision whether A is a valid input of the routine (None = boundary, either outcome accepted)."""
    A = np.asarray(A)
    if A.ndim != 2 or A.shape[0] != A.shape[1] or not _finite(A):
        return False
    n = A.shape[0]
    if routine in UNITARY_ROUTINES:
        if routine == "sun_compact" and n < 3:
            return False
        defect = np.abs(A @ A.conj().T - np.eye(n)).max(initial=0)
        tol = opts.get("tol", opts.get("atol", 1e-11 if routine in MESH_T + MESH_MZ else 1e-12))
        if defect <= 0.3 * tol:
            return True
        if defect >= 3 * tol + (opts.get("rtol", 1e-12) if routine in MESH_COMPACT else 0) * 3:
            return False
        return None
    if routine in ("takagi", "graph_embed", "graph_embed_deprecated"):
        asym = np.linalg.norm(A - A.T)
        tol = opts.get("tol", 1e-13) if routine == "takagi" else None
        if routine == "takagi":
            return True if asym < 0.3 * tol else (False if asym > 3 * tol else None)
        rt, at = opts.get("rtol", 1e-5), opts.get("atol", 1e-8)
        if np.abs(A - A.T).max(initial=0) <= 0.3 * at:
            At = A - np.trace(A) * np.eye(n) / n if opts.get("make_traceless") else A
            if np.abs(At).max(initial=0) < 1e-6:
                return None  # scaling of a (near-)zero matrix is undefined
            return True
        if np.all(np.abs(A - A.T) > 3 * (at + rt * np.abs(A.T))) or np.abs(A - A.T).max() > 3 * (at + rt * np.abs(A).max()):
            return False
        return None
    if routine == "bipartite_graph_embed":
        return None if np.abs(A).max(initial=0) < 1e-6 else True
    if routine == "williamson":
        if np.iscomplexobj(A):
            return None
        tol = opts.get("tol", 1e-11)
        asym = np.linalg.norm(A - A.T)
        if asym > 3 * tol or n % 2:
            return False
        ev = np.linalg.eigvalsh((A + A.T) / 2)
        if ev.min() <= -1e-9 * max(1, ev.max()):
            return False
        if asym < 0.3 * tol and ev.min() >= 1e-6 * max(1, ev.max()):
            return True
        return None
    if routine == "bloch_messiah":
        if np.iscomplexobj(A):
            return None
        if n % 2:
            return False
        tol = opts.get("tol", 1e-10)
        Om = sympmat(n // 2)
        defect = np.linalg.norm(A.T @ Om @ A - Om)
        return True if defect < 0.3 * tol else (False if defect > 3 * tol else None)
    raise KeyError(routine)


def check_valid(routine, A, opts, res):
    """Raise Bad(sig, msg) if the returned factors violate the property for valid input A."""
    A = np.asarray(A)
    N = A.shape[0]
    if routine in UNITARY_ROUTINES:
        q = recompose(routine, res, N)
        err = np.abs(q - A).max(initial=0)
        if not (err <= REC_TOL + _SLACK[0]):
            raise Bad("reconstruct", "factors multiply to a matrix differing from the input by %.3g" % err)
        if routine == "sun_compact":
            det = np.linalg.det(A)
            if res[1] is None and abs(det - 1) > 1e-6:
                raise Bad("global-phase", "global phase None although det = %r" % det)
        return
    if routine == "takagi":
        rl, U = res
        rl = np.asarray(rl); U = np.asarray(U)
        if rl.shape != (N,) or U.shape != (N, N):
            raise Bad("structure", "shapes %r %r" % (rl.shape, U.shape))
        if np.iscomplexobj(rl) or not _finite(rl) or (rl < 0).any():
            raise Bad("values-negative", "Takagi values not real non-negative: %r" % rl)
        if (np.diff(rl) > (1e-9 + _SLACK[0]) * _scale(A)).any():
            raise Bad("values-unordered", "Takagi values not in descending order: %r" % rl)
        if not _is_unitary(U):
            raise Bad("not-unitary", "Takagi U is not unitary (defect %.3g)" % np.abs(U @ U.conj().T - np.eye(N)).max())
        err = np.abs(U @ np.diag(rl) @ U.T - A).max(initial=0)
        if not (err <= (REC_TOL + _SLACK[0] + 10.0 ** (-opts.get("rounding", 13))) * _scale(A)):
            raise Bad("reconstruct", "U diag(rl) U^T differs from N by %.3g" % err)
        return
    if routine == "graph_embed":
        vals, U = res
        vals = np.asarray(vals)
        if vals.shape != (N,) or np.iscomplexobj(vals) or not _finite(vals):
            raise Bad("structure", "squeezing values %r" % vals)
        if not _is_unitary(U):
            raise Bad("not-unitary", "interferometer is not unitary")
        At = A - np.trace(A) * np.eye(N) / N if opts.get("make_traceless") else A
        s = np.tanh(-vals)
        if (s < -1e-12).any() or (np.diff(s) > 1e-9).any():
            raise Bad("values-unordered", "tanh(r) not non-negative descending: %r" % s)
        B = U @ np.diag(s) @ U.T
        # proportionality with a positive constant
        k = np.vdot(At, B).real / max(np.vdot(At, At).real, 1e-300)
        if not (k > 0) or np.abs(B - k * At).max() > (1e-7 + _SLACK[0]) * max(1.0, k * np.abs(At).max()):
            raise Bad("not-proportional", "U tanh(r) U^T is not a positive multiple of A (k=%.6g, err %.3g)" % (k, np.abs(B - k * At).max()))
        nbar = np.sum(np.sinh(vals) ** 2) / N
        want = opts.get("mean_photon_per_mode", 1.0)
        if abs(nbar - want) > 1e-4 * max(1, want):   # the scaling root is found by thewalrus.adj_scaling (library tolerance)
            raise Bad("mean-photon", "mean photon number per mode %.9g, requested %.9g" % (nbar, want))
        return
    if routine == "graph_embed_deprecated":
        vals, U = res
        vals = np.asarray(vals)
        if vals.shape != (N,) or np.iscomplexobj(vals) or not _finite(vals):
            raise Bad("structure", "squeezing values %r" % vals)
        if not _is_unitary(U):
            raise Bad("not-unitary", "interferometer is not unitary")
        At = A - np.trace(A) * np.eye(N) / N if opts.get("make_traceless") else A
        s = np.tanh(-vals)
        if (s < -1e-12).any() or (np.diff(s) > 1e-9).any():
            raise Bad("values-unordered", "tanh(r) not non-negative descending: %r" % s)
        B = U @ np.diag(s) @ U.T
        k = np.vdot(At, B).real / max(np.vdot(At, At).real, 1e-300)
        if not (k > 0) or np.abs(B - k * At).max() > (1e-7 + _SLACK[0]) * max(1.0, k * np.abs(At).max()):
            raise Bad("not-proportional", "U tanh(r) U^T is not a positive multiple of A (k=%.6g, err %.3g)" % (k, np.abs(B - k * At).max()))
        want = opts.get("max_mean_photon", 1.0)
        got = np.sinh(vals[0]) ** 2
        if abs(got - want) > 1e-8 * max(1, want):
            raise Bad("max-mean-photon", "largest mean photon number %.9g, requested %.9g" % (got, want))
        return
    if routine == "bipartite_graph_embed":
        vals, U, V = res
        vals = np.asarray(vals)
        if vals.shape != (N,) or np.iscomplexobj(vals) or not _finite(vals):
            raise Bad("structure", "squeezing values %r" % vals)
        if not _is_unitary(U) or not _is_unitary(V):
            raise Bad("not-unitary", "an interferometer is not unitary")
        s = np.tanh(-vals)
        if (s < -1e-12).any() or (np.diff(s) > 1e-9).any():
            raise Bad("values-unordered", "tanh(r) not non-negative descending: %r" % s)
        B = U @ np.diag(s) @ V.T
        k = np.vdot(A, B).real / max(np.vdot(A, A).real, 1e-300)
        if not (k > 0) or np.abs(B - k * A).max() > (1e-7 + _SLACK[0]) * max(1.0, k * np.abs(A).max()):
            raise Bad("not-proportional", "U tanh(r) V^T is not a positive multiple of A (k=%.6g, err %.3g)" % (k, np.abs(B - k * A).max()))
        nbar = np.sum(np.sinh(vals) ** 2) / N
        want = opts.get("mean_photon_per_mode", 1.0)
        if abs(nbar - want) > 1e-4 * max(1, want):   # the scaling root is found by thewalrus.adj_scaling (library tolerance)
            raise Bad("mean-photon", "mean photon number per mode %.9g, requested %.9g" % (nbar, want))
        return
    if routine == "williamson":
        Db, S = res
        Db = np.asarray(Db); S = np.asarray(S)
        n = N // 2
        if Db.shape != (N, N) or S.shape != (N, N) or np.iscomplexobj(Db) or np.iscomplexobj(S) or not _finite(Db) or not _finite(S):
            raise Bad("structure", "shapes/dtypes %r %r" % (Db.shape, S.shape))
        if np.abs(Db - np.diag(np.diag(Db))).max() > 0:
            raise Bad("Db-not-diagonal", "Db is not diagonal")
        nu = np.diag(Db)
        if (nu <= 0).any() or np.abs(nu[:n] - nu[n:]).max() > (1e-10 + _SLACK[0]) * _scale(nu) * max(1.0, np.linalg.cond(A) ** 0.5):
            raise Bad("Db-structure", "Db is not diag(nu, nu) with nu > 0: %r" % nu)
        sc = _scale(A)
        # convention actually used by the library, its tests and ops.Gaussian: V = S Db S^T (the docstring says S^T Db S)
        if not _is_symplectic(S.T, (1e-10 + _SLACK[0]) * max(1.0, np.linalg.cond(A) ** 0.5)):
            raise Bad("not-symplectic", "S is not symplectic (defect %.3g)" % np.abs(S @ sympmat(n) @ S.T - sympmat(n)).max())
        err = np.abs(S @ Db @ S.T - A).max()
        if not (err <= (1e-10 + _SLACK[0]) * sc * max(1.0, np.linalg.cond(A) ** 0.5)):
            raise Bad("reconstruct", "S Db S^T differs from V by %.3g" % err)
        return
    if routine == "bloch_messiah":
        O1, D, O2 = [np.asarray(x) for x in res]
        n = N // 2
        for X in (O1, D, O2):
            if X.shape != (N, N) or np.iscomplexobj(X) or not _finite(X):
                raise Bad("structure", "shape/dtype %r" % (X.shape,))
        sc = _scale(A)
        tol = (BM_TOL + _SLACK[0]) * sc
        for nm, O in (("O1", O1), ("O2", O2)):
            if np.abs(O @ O.T - np.eye(N)).max() > tol:
                raise Bad("not-orthogonal", "%s is not orthogonal (defect %.3g)" % (nm, np.abs(O @ O.T - np.eye(N)).max()))
            if np.abs(O.T @ sympmat(n) @ O - sympmat(n)).max() > tol:
                raise Bad("not-symplectic", "%s is not symplectic (defect %.3g)" % (nm, np.abs(O.T @ sympmat(n) @ O - sympmat(n)).max()))
        if np.abs(D - np.diag(np.diag(D))).max() > tol:
            raise Bad("D-not-diagonal", "middle factor is not diagonal (off-diagonal %.3g)" % np.abs(D - np.diag(np.diag(D))).max())
        dd = np.diag(D)
        if (dd <= 0).any() or np.abs(dd[:n] * dd[n:] - 1).max() > tol * sc:
            raise Bad("D-structure", "middle factor is not diag(s, 1/s): %r" % dd)
        if (dd[:n] < 1 - tol).any() or (np.diff(dd[:n]) > tol * sc).any():
            raise Bad("D-unordered", "squeezing values not >= 1 in descending order: %r" % dd[:n])
        err = np.abs(O1 @ D @ O2 - A).max()
        if not (err <= tol * sc):
            raise Bad("reconstruct", "O1 D O2 differs from S by %.3g" % err)
        # documented convention: a passive S is returned as the first factor, the other two are the identity
        if np.linalg.norm(A.T @ A - np.eye(N)) < 0.3 * opts.get("tol", 1e-10) and max(np.abs(D - np.eye(N)).max(), np.abs(O2 - np.eye(N)).max()) > tol:
            raise Bad("passive-convention", "passive S: squeezing / second orthogonal factor are not the identity")
        return
    raise KeyError(routine)


def _rounding_split(vals, decimals, rounded=False):
    """True iff two of the values are equal to working precision but np.round(., decimals) separates them.
    rounded=True: the values are already rounded; look for two on adjacent grid points instead."""
    v = np.sort(np.asarray(vals, dtype=float))
    if v.size < 2 or not np.all(np.isfinite(v)):
        return False
    step = 10.0 ** (-decimals)
    dv = np.diff(v)
    if rounded:
        return bool(np.any(np.abs(dv - step) <= 1e-2 * step))
    rv = np.diff(np.round(v, decimals))
    return bool(np.any((rv != 0) & (dv <= 64 * np.finfo(float).eps * np.maximum(1.0, np.abs(v[1:])))))


def input_class(routine, A, kind, res=None):
    """Class of the input used in signatures: the generator's kind, refined where one kind mixes mechanisms."""
    A = np.asarray(A)
    square = A.ndim == 2 and A.shape[0] == A.shape[1] and _finite(A)
    if routine in SYMM_ROUTINES and square and res is not None:
        # singular values returned by takagi's complex branch are rounded to 13 decimals and were grouped by that rounding
        try:
            sv = np.asarray(res[0], dtype=float)
            if routine != "takagi":
                sv = np.tanh(-sv)
            if _rounding_split(sv, 13, rounded=True):
                return "rounding-boundary"
        except Exception:  # noqa: BLE001
            pass
    if routine == "takagi" and square and np.iscomplexobj(A) and _rounding_split(np.linalg.svd(A, compute_uv=False), 13):
        return "rounding-boundary"
    if routine == "bloch_messiah" and square and np.isrealobj(A) and kind not in SYMP_BAD and kind not in ("near-passive", "mixed-degenerate"):
        sv = np.sort(np.linalg.svd(A, compute_uv=False))
        gaps = np.diff(sv) / sv[1:]
        if ((gaps > 1e-11) & (gaps < 1e-5)).any():
            return "near-degenerate"      # same weakness as the recorded near-passive finding: nearly equal singular values
    if routine == "bloch_messiah" and square and np.isrealobj(A) and kind not in SYMP_BAD:
        if _rounding_split(np.linalg.svd(A, compute_uv=False), 9):
            return "rounding-boundary"
    return kind


def evaluate(case):
    """Run one case on the implementation.  Returns (outcome, failure) where outcome is
    'ok' | 'rejected:<ExcType>' and failure is None or (signature, message)."""
    out, fail, res = _evaluate(case)
    if fail is not None:
        cls = input_class(case["routine"], mat_from_json(case["matrix"]), case.get("kind"), res)
        sig = fail[0] if fail[0].endswith(":" + str(case.get("kind"))) and cls == case.get("kind") else "%s:%s" % (fail[0], cls)
        fail = (sig, fail[1])
    return out, fail


def _evaluate(case):
    routine = case["routine"]
    A = mat_from_json(case["matrix"])
    opts = dict(case.get("opts", {}))
    valid = valid_input(routine, A, opts)
    try:
        res = call_routine(routine, A, opts)
    except Exception as e:  # noqa: BLE001
        kind = type(e).__name__
        if valid is True:
            return "rejected:" + kind, ("%s:valid-input-raises:%s" % (routine, kind), "valid %s input raised %s: %s" % (case.get("kind"), kind, str(e)[:200])), None
        return "rejected:" + kind, None, None
    if valid is False:
        # an input that is invalid by the routine's own documentation (non-square, NaN, odd dimension, too small, clearly
        # outside the tolerance, not positive definite) must be rejected, whatever comes out
        try:
            check_valid(routine, A, opts, res)
            return "ok", ("%s:invalid-accepted:%s" % (routine, case.get("kind")), "invalid input (%s) was decomposed without an error" % case.get("kind")), res
        except Bad as b:
            return "ok", ("%s:invalid-accepted:%s" % (routine, case.get("kind")), "invalid input (%s) was decomposed without an error, and wrongly: %s" % (case.get("kind"), b.msg)), res
        except Exception as e:  # noqa: BLE001
            return "ok", ("%s:invalid-accepted:%s" % (routine, case.get("kind")), "invalid input (%s) was decomposed without an error into malformed factors (%s)" % (case.get("kind"), type(e).__name__)), res
    try:
        check_valid(routine, A, opts, res)
    except Bad as b:
        if valid is None:
            return "ok", None, res
        return "ok", ("%s:%s" % (routine, b.sig), b.msg), res
    return "ok", None, res


# ------------------------------------------------------------------ generators
def haar(n, rs):
    z = (rs.randn(n, n) + 1j * rs.randn(n, n)) / np.sqrt(2)
    q, r = np.linalg.qr(z)
    d = np.diag(r).copy()
    d[np.abs(d) == 0] = 1
    return q * (d / np.abs(d))


def bdiag(*blocks):
    n = sum(b.shape[0] for b in blocks)
    M = np.zeros((n, n), dtype=complex if any(np.iscomplexobj(b) for b in blocks) else float)
    i = 0
    for b in blocks:
        k = b.shape[0]
        M[i:i + k, i:i + k] = b
        i += k
    return M


NICE_ANGLES = [0.0, math.pi / 2, math.pi, -math.pi / 2, math.pi / 4, 0.3, 1.1, 2.5]

UNITARY_KINDS = ["haar", "identity", "anti-identity", "permutation", "phase-permutation", "diagonal", "block", "embedded",
                 "sparse", "dft", "real-orthogonal", "givens", "neg-identity", "special", "boundary-in", "tiny-rotation", "int-permutation"]
UNITARY_BAD = ["scaled", "random-complex", "non-square", "boundary-out", "nan", "row-isometry", "subunitary"]
NONTRIVIAL_KINDS = None  # everything except the dense generic kinds, see is_nontrivial


def gen_unitary(rs, kind, n):
    if kind == "haar":
        return haar(n, rs)
    if kind == "identity":
        return np.eye(n) if rs.rand() < 0.5 else np.eye(n, dtype=complex)
    if kind == "anti-identity":
        return np.eye(n)[::-1].copy()
    if kind == "neg-identity":
        return -np.eye(n, dtype=complex)
    if kind == "permutation":
        return np.eye(n)[rs.permutation(n)]
    if kind == "int-permutation":
        return np.eye(n, dtype=int)[rs.permutation(n)]
    if kind == "phase-permutation":
        ph = np.array([np.exp(1j * (NICE_ANGLES[rs.randint(len(NICE_ANGLES))] if rs.rand() < 0.5 else rs.uniform(-np.pi, np.pi))) for _ in range(n)])
        return np.eye(n)[rs.permutation(n)] * ph
    if kind == "diagonal":
        return np.diag(np.exp(1j * rs.uniform(-np.pi, np.pi, n)))
    if kind == "block":
        k = rs.randint(1, n) if n > 1 else 1
        parts = [haar(k, rs), np.eye(n - k)] if n > k else [haar(n, rs)]
        if rs.rand() < 0.5:
            parts.reverse()
        return bdiag(*parts)
    if kind == "embedded":
        k = rs.randint(1, n) if n > 1 else 1
        return bdiag(haar(k, rs), haar(n - k, rs)) if n > k else haar(n, rs)
    if kind == "sparse":
        U = np.eye(n, dtype=complex)
        for _ in range(rs.randint(1, max(2, n))):
            if n < 2:
                break
            m = rs.randint(0, n - 1)
            th = NICE_ANGLES[rs.randint(len(NICE_ANGLES))] if rs.rand() < 0.4 else rs.uniform(0, np.pi / 2)
            ph = NICE_ANGLES[rs.randint(len(NICE_ANGLES))] if rs.rand() < 0.4 else rs.uniform(-np.pi, np.pi)
            U = Tm(m, m + 1, th, ph, n) @ U
        return U
    if kind == "dft":
        return np.fft.fft(np.eye(n)) / np.sqrt(n)
    if kind == "real-orthogonal":
        q, r = np.linalg.qr(rs.randn(n, n))
        return q * np.sign(np.diag(r) + (np.diag(r) == 0))
    if kind == "givens":
        U = np.eye(n)
        if n >= 2:
            i, j = sorted(rs.choice(n, 2, replace=False))
            t = rs.uniform(0, 2 * np.pi)
            U[i, i] = np.cos(t); U[j, j] = np.cos(t); U[i, j] = -np.sin(t); U[j, i] = np.sin(t)
        return U
    if kind == "tiny-rotation":
        U = np.eye(n, dtype=complex)
        if n >= 2:
            i, j = sorted(rs.choice(n, 2, replace=False))
            t = 10.0 ** rs.uniform(-9, -2)
            U[i, i] = np.cos(t); U[j, j] = np.cos(t); U[i, j] = -np.sin(t); U[j, i] = np.sin(t)
        if rs.rand() < 0.5:
            U = U * np.exp(1j * rs.uniform(-3, 3, n))
        return U
    if kind == "special":
        U = haar(n, rs)
        return U / np.linalg.det(U) ** (1.0 / n)
    if kind == "boundary-in":
        U = haar(n, rs)
        return U * (1 + 1e-13)
    # ---- invalid
    if kind == "scaled":
        return haar(n, rs) * (1 + 10.0 ** rs.uniform(-9, -1))
    if kind == "random-complex":
        return rs.rand(n, n) + 1j * rs.rand(n, n)
    if kind == "non-square":
        return haar(n + 1, rs)[:, :n]
    if kind == "row-isometry":
        return haar(n + 1, rs)[:n, :]
    if kind == "boundary-out":
        U = haar(n, rs)
        E = rs.randn(n, n) + 1j * rs.randn(n, n)
        return U + 10.0 ** rs.uniform(-9.5, -6) * E
    if kind == "nan":
        U = haar(n, rs)
        U[rs.randint(n), rs.randint(n)] = np.nan
        return U
    if kind == "subunitary":
        U = haar(n, rs)
        U[:, rs.randint(n)] = 0
        return U
    raise KeyError(kind)


SYMM_KINDS = ["complex", "real", "real-psd", "degenerate-complex", "rank-deficient-complex", "rank-deficient-real", "zero",
              "identity", "adjacency", "adjacency-complex", "phase-adjacency", "diagonal-signed", "diagonal-complex", "swap",
              "tiny", "large", "degenerate-real", "unitary-symmetric", "rounding-boundary", "nearly-real", "int-adjacency"]
SYMM_BAD = ["asymmetric", "non-square", "nan", "slightly-asymmetric"]


def gen_symmetric(rs, kind, n):
    if kind == "complex":
        A = rs.randn(n, n) + 1j * rs.randn(n, n)
        return A + A.T
    if kind == "real":
        A = rs.randn(n, n)
        return A + A.T
    if kind == "real-psd":
        A = rs.randn(n, n)
        return A @ A.T
    if kind in ("degenerate-complex", "rank-deficient-complex", "unitary-symmetric"):
        U = haar(n, rs)
        if kind == "unitary-symmetric":
            d = np.ones(n)
        else:
            d = np.sort(rs.randint(0 if kind.startswith("rank") else 1, 3, n).astype(float))[::-1]
            if kind.startswith("rank"):
                d[-1] = 0.0
        return U @ np.diag(d) @ U.T
    if kind == "int-adjacency":
        A = np.triu((rs.rand(n, n) < 0.6).astype(int), 1)
        A = A + A.T
        if not A.any():
            A[0, 0] = 1
        return A
    if kind == "nearly-real":
        # a real symmetric matrix plus a small (but far above rounding) symmetric imaginary part
        B = rs.randn(n, n); C = rs.randn(n, n)
        return (B + B.T) + 1j * 10.0 ** rs.uniform(-9, -4) * (C + C.T)
    if kind == "rounding-boundary":
        # a degenerate singular value sitting exactly on a boundary of np.round(., 13)
        U = haar(n, rs)
        s0 = float(rs.randint(1000, 9000)) * 1e-4 + float(rs.randint(0, 10 ** 9)) * 1e-13 + 0.5e-13
        d = np.full(n, s0)
        if n >= 3:
            d[-1] = 0.5 * s0
        return U @ np.diag(d) @ U.T
    if kind in ("degenerate-real", "rank-deficient-real"):
        q, _ = np.linalg.qr(rs.randn(n, n))
        d = rs.randint(-2, 3, n).astype(float)
        if kind.startswith("rank"):
            d[rs.randint(n)] = 0.0
        return q @ np.diag(d) @ q.T
    if kind == "zero":
        return np.zeros((n, n), dtype=complex if rs.rand() < 0.5 else float)
    if kind == "identity":
        return np.eye(n, dtype=complex if rs.rand() < 0.5 else float)
    if kind in ("adjacency", "adjacency-complex", "phase-adjacency"):
        A = np.triu((rs.rand(n, n) < 0.6).astype(float), 1)
        A = A + A.T
        if not A.any() and n >= 2:
            A[0, 1] = A[1, 0] = 1.0
        if kind == "adjacency-complex":
            return A.astype(complex)
        if kind == "phase-adjacency":
            return A * np.exp(1j * rs.uniform(0.1, 3.0))
        return A
    if kind == "diagonal-signed":
        return np.diag(rs.randint(-2, 3, n).astype(float))
    if kind == "diagonal-complex":
        return np.diag(rs.randint(0, 3, n) * np.exp(1j * rs.uniform(-np.pi, np.pi, n)))
    if kind == "swap":
        return np.eye(n)[::-1].copy()
    if kind == "tiny":
        A = rs.randn(n, n) + 1j * rs.randn(n, n)
        return 1e-5 * (A + A.T)
    if kind == "large":
        A = rs.randn(n, n) + 1j * rs.randn(n, n)
        return 1e4 * (A + A.T)
    # ---- invalid
    if kind == "asymmetric":
        A = rs.randn(n, n) + 1j * rs.randn(n, n)
        if n == 1:
            return np.array([[1.0, 2.0]])
        return A
    if kind == "slightly-asymmetric":
        A = rs.randn(n, n) + 1j * rs.randn(n, n)
        A = A + A.T
        if n >= 2:
            A[0, 1] += 1e-3
        else:
            return np.array([[1.0, 2.0]])
        return A
    if kind == "non-square":
        return rs.randn(n, n + 1)
    if kind == "nan":
        A = rs.randn(n, n)
        A = A + A.T
        A[0, 0] = np.nan
        return A
    raise KeyError(kind)


def rand_orth_symp(n, rs, kind="haar"):
    if kind == "identity":
        U = np.eye(n, dtype=complex)
    elif kind == "permutation":
        U = np.eye(n, dtype=complex)[rs.permutation(n)]
    else:
        U = haar(n, rs)
    X, Y = U.real, U.imag
    return np.block([[X, -Y], [Y, X]])


def rand_symplectic(n, rs, s=None):
    if s is None:
        s = np.exp(rs.uniform(0, 1.5, n))
    return rand_orth_symp(n, rs) @ np.diag(np.concatenate([s, 1 / s])) @ rand_orth_symp(n, rs)


COV_KINDS = ["random", "vacuum", "thermal-diag", "pure", "degenerate", "thermal-degenerate", "squeezed-diag", "scaled-vacuum", "int-diag"]
COV_BAD = ["asymmetric", "odd", "indefinite", "non-square", "singular", "nan"]


def gen_cov(rs, kind, n):
    """2n x 2n covariance-like matrices (xxpp ordering)."""
    if kind == "random":
        nu = rs.uniform(1, 4, n)
        S = rand_symplectic(n, rs)
        return _sym(S.T @ np.diag(np.concatenate([nu, nu])) @ S)
    if kind == "vacuum":
        return np.eye(2 * n)
    if kind == "scaled-vacuum":
        return np.eye(2 * n) * rs.choice([0.5, 2.0, 1.0, 3.0])
    if kind == "int-diag":
        nu = rs.randint(1, 4, n)
        return np.diag(np.concatenate([nu, nu])).astype(int)
    if kind == "thermal-diag":
        nu = rs.randint(1, 4, n).astype(float)
        return np.diag(np.concatenate([nu, nu]))
    if kind == "pure":
        S = rand_symplectic(n, rs)
        return _sym(S.T @ S)
    if kind in ("degenerate", "thermal-degenerate"):
        nu = rs.randint(1, 3, n).astype(float)
        S = rand_symplectic(n, rs) if kind == "degenerate" else rand_orth_symp(n, rs)
        return _sym(S.T @ np.diag(np.concatenate([nu, nu])) @ S)
    if kind == "squeezed-diag":
        s = np.exp(rs.uniform(-1, 1, n))
        return np.diag(np.concatenate([s, 1 / s]))
    # ---- invalid
    if kind == "asymmetric":
        A = gen_cov(rs, "random", n)
        A[0, -1] += 1e-3
        return A
    if kind == "odd":
        A = rs.randn(2 * n + 1, 2 * n + 1)
        return A @ A.T + np.eye(2 * n + 1)
    if kind == "indefinite":
        A = gen_cov(rs, "random", n)
        return A - (np.linalg.eigvalsh(A).min() + 0.5) * np.eye(2 * n)
    if kind == "singular":
        A = rs.randn(2 * n, 2 * n - 1)
        return A @ A.T
    if kind == "nan":
        A = gen_cov(rs, "random", n)
        A[0, 0] = np.nan
        return A
    if kind == "non-square":
        return rs.randn(2 * n, 2 * n + 2)
    raise KeyError(kind)


def _sym(A):
    return (A + A.T) / 2


SYMP_KINDS = ["random", "passive", "identity", "degenerate", "partially-passive", "diagonal-squeezer", "diagonal-antisqueezer",
              "two-mode-squeezer", "passive-permutation", "mixed-degenerate", "near-passive", "rounding-boundary", "int-permutation"]
SYMP_BAD = ["non-symplectic", "odd", "non-square", "scaled", "nan"]


def gen_symp(rs, kind, n):
    if kind == "random":
        return rand_symplectic(n, rs)
    if kind == "passive":
        return rand_orth_symp(n, rs)
    if kind == "passive-permutation":
        return rand_orth_symp(n, rs, "permutation")
    if kind == "int-permutation":
        return np.rint(rand_orth_symp(n, rs, "permutation")).astype(int)
    if kind == "identity":
        return np.eye(2 * n)
    if kind == "degenerate":
        return rand_symplectic(n, rs, np.full(n, float(np.exp(rs.uniform(0.2, 1.0)))))
    if kind == "rounding-boundary":
        s0 = 1.0 + float(rs.randint(1000, 9000)) * 1e-4 + float(rs.randint(0, 10 ** 5)) * 1e-9 + 0.5e-9
        return rand_symplectic(n, rs, np.full(n, s0))
    if kind == "mixed-degenerate":
        s = np.exp(rs.randint(0, 3, n) * 0.4)
        return rand_symplectic(n, rs, s)
    if kind == "partially-passive":
        s = np.exp(rs.uniform(0.2, 1.0, n))
        s[rs.randint(n)] = 1.0
        return rand_symplectic(n, rs, s)
    if kind == "diagonal-squeezer":
        s = np.exp(rs.uniform(0.1, 1.0, n))
        return np.diag(np.concatenate([s, 1 / s]))
    if kind == "diagonal-antisqueezer":
        s = np.exp(rs.uniform(-1.0, 1.0, n))
        return np.diag(np.concatenate([s, 1 / s]))
    if kind == "two-mode-squeezer":
        if n < 2:
            return gen_symp(rs, "diagonal-squeezer", n)
        r = rs.uniform(0.1, 1.0)
        S = np.eye(2 * n)
        ch, sh = np.cosh(r), np.sinh(r)
        i, j = 0, 1
        S[i, i] = S[j, j] = S[n + i, n + i] = S[n + j, n + j] = ch
        S[i, j] = S[j, i] = sh
        S[n + i, n + j] = S[n + j, n + i] = -sh
        return S
    if kind == "near-passive":
        s = np.exp(10.0 ** rs.uniform(-12, -8, n))
        return rand_symplectic(n, rs, s)
    # ---- invalid
    if kind == "non-symplectic":
        return rs.randn(2 * n, 2 * n)
    if kind == "nan":
        A = rand_symplectic(n, rs)
        A[0, 0] = np.nan
        return A
    if kind == "scaled":
        return rand_symplectic(n, rs) * (1 + 10.0 ** rs.uniform(-8, -2))
    if kind == "odd":
        q, _ = np.linalg.qr(rs.randn(2 * n + 1, 2 * n + 1))
        return q
    if kind == "non-square":
        return rs.randn(2 * n, 2 * n + 2)
    raise KeyError(kind)


GENERIC_KINDS = {"haar", "special", "complex", "real", "real-psd", "random", "large"}


def is_nontrivial(kind):
    return kind not in GENERIC_KINDS


def gen_case(rng, routine=None, bad_fraction=0.2, max_n=7):
    """One case {routine, kind, n, matrix, opts}; all randomness from rng (random.Random)."""
    rs = np.random.RandomState(rng.getrandbits(32))
    routine = routine or rng.choice(ALL_ROUTINES)
    bad = rng.random() < bad_fraction
    opts = {}
    if routine in UNITARY_ROUTINES:
        lo = 3 if routine == "sun_compact" else 1
        n = rng.randint(lo, max_n)
        if routine == "sun_compact" and bad and rng.random() < 0.15:
            n = rng.randint(1, 2)
            kind = "too-small"
            A = haar(n, rs)
        else:
            kind = rng.choice(UNITARY_BAD if bad else UNITARY_KINDS)
            A = gen_unitary(rs, kind, n)
    elif routine in SYMM_ROUTINES:
        n = rng.randint(1, max_n)
        kinds_ok, kinds_bad = SYMM_KINDS, SYMM_BAD
        if routine == "bipartite_graph_embed":
            kinds_ok = SYMM_KINDS + ["bip-general", "bip-real", "bip-permutation", "bip-rank-deficient"]
            kinds_bad = ["non-square"]
        kind = rng.choice(kinds_bad if bad else kinds_ok)
        if kind == "bip-general":
            A = rs.randn(n, n) + 1j * rs.randn(n, n)
        elif kind == "bip-real":
            A = rs.randn(n, n)
        elif kind == "bip-permutation":
            A = np.eye(n)[rs.permutation(n)]
        elif kind == "bip-rank-deficient":
            A = rs.randn(n, n)
            A[:, -1] = 0
            if not A.any():
                A = np.ones((1, 1))
        else:
            A = gen_symmetric(rs, kind, n)
        if routine == "graph_embed_deprecated":
            if rng.random() < 0.7:
                opts["max_mean_photon"] = rng.choice([0.1, 0.5, 1.0, 2.5])
            if rng.random() < 0.3 and not (kind == "nearly-real" and n == 2):
                opts["make_traceless"] = True
        elif routine == "takagi":
            if rng.random() < 0.25 and not bad:
                opts["rounding"] = rng.choice([13, 10, 8])
        else:
            if rng.random() < 0.7:
                opts["mean_photon_per_mode"] = rng.choice([0.01, 0.1, 0.5, 1.0, 2.5, 10.0])
            # a traceless 2x2 real symmetric matrix [[a, b], [b, -a]] has two EQUAL singular values; a 1e-9 imaginary part splits
            # them by ~1e-9 and the Takagi vectors become ill-conditioned (error ~ eps / gap ~ 1e-6): that near-degenerate weakness
            # is recorded as a finding (corpus/C17-embed-traceless-2x2-nearly-real.json), the random stream does not re-draw it
            if routine == "graph_embed" and rng.random() < 0.3 and not (kind == "nearly-real" and n == 2):
                opts["make_traceless"] = True
    elif routine == "williamson":
        n = rng.randint(1, max(1, max_n // 2 + 1))
        kind = rng.choice(COV_BAD if bad else COV_KINDS)
        A = gen_cov(rs, kind, n)
    elif routine == "bloch_messiah":
        n = rng.randint(1, max(1, max_n // 2 + 1))
        kind = rng.choice(SYMP_BAD if bad else SYMP_KINDS)
        A = gen_symp(rs, kind, n)
        if not bad and rng.random() < 0.25:
            opts["rounding"] = rng.choice([9, 12, 7])
    else:
        raise KeyError(routine)
    return {"routine": routine, "kind": kind, "n": int(n), "opts": opts, "matrix": mat_to_json(A)}


# ------------------------------------------------------------------ correspondence: Coq model vs implementation
COQ_HEADER = ("From Coq Require Import List Arith Bool Floats.\nImport ListNotations.\n"
              "From SFV Require Import C17.Model C17.Float.\nOpen Scope float_scope.\n")


def coq_cmatrix(A):
    A = np.asarray(A, dtype=complex)
    return coq.coq_list([coq.coq_list(["(%s, %s)" % (coq.coq_float(z.real), coq.coq_float(z.imag)) for z in row]) for row in A])


def record_schedule(routine, n, rs):
    """Order in which the implementation nulls elements: list of (is_col, row, col)."""
    d = dec()
    rec = []
    saved = {k: getattr(d, k) for k in ("nullTi", "nullT", "nullMZi", "nullMZ")}

    def wrap(name, is_col):
        orig = saved[name]

        def f(a, b, U):
            rec.append((is_col, int(a), int(b)))
            return orig(a, b, U)
        return f
    try:
        d.nullTi = wrap("nullTi", True); d.nullMZi = wrap("nullMZi", True)
        d.nullT = wrap("nullT", False); d.nullMZ = wrap("nullMZ", False)
        getattr(d, routine)(haar(n, rs))
    finally:
        for k, v in saved.items():
            setattr(d, k, v)
    return rec


def _cx(p):
    return complex(p[0], p[1])


def _close(a, b, tol=1e-6):
    return abs(a - b) <= tol


def _blocks_T(entries, N):
    """entries: list of (is_col, tr, tc, (c, s, (er, ei))) from the model; rebuild the product the way rectangular's
    caller does, return reconstruction."""
    q = np.eye(N, dtype=complex)
    cols = [e for e in entries if e[0]]
    rows = [e for e in entries if not e[0]]
    return cols, rows


def _T_from(c, s, e, m, N):
    M = np.eye(N, dtype=complex)
    M[m, m] = e * c; M[m, m + 1] = -s; M[m + 1, m] = e * s; M[m + 1, m + 1] = c
    return M


def _MZ_from(u, w, m, N):
    M = np.eye(N, dtype=complex)
    M[m, m] = 0.5 * (u - 1) * w; M[m, m + 1] = 0.5j * (u + 1); M[m + 1, m] = 0.5j * (u + 1) * w; M[m + 1, m + 1] = 0.5 * (1 - u)
    return M


def model_reconstruct(kind, steps, diag, N):
    """Unitary implemented by the model's own factors (kind 'T' or 'MZ'), rectangular layout."""
    q = np.eye(N, dtype=complex)
    mk = (lambda p, m: _T_from(p[0], p[1], _cx(p[2]), m, N)) if kind == "T" else (lambda p, m: _MZ_from(complex(p[0], p[1]), _cx(p[2]), m, N))
    for is_col, tr, tc, p in steps:
        if is_col:
            q = mk(p, tc) @ q
    q = np.diag([_cx(d) for d in diag]) @ q
    for is_col, tr, tc, p in reversed([s for s in steps if not s[0]]):
        q = mk(p, tr - 1).conj().T @ q
    return q


def compare_T(steps, impl_ti, impl_t):
    cols = [s for s in steps if s[0]]
    rows = [s for s in steps if not s[0]]
    if len(cols) != len(impl_ti) or len(rows) != len(impl_t):
        return "lengths differ"
    for lst, impl, col in ((cols, impl_ti, True), (rows, impl_t, False)):
        for (is_col, tr, tc, (c, s, e)), ent in zip(lst, impl):
            m = tc if col else tr - 1
            if int(ent[0]) != m or int(ent[1]) != m + 1:
                return "indices differ: model %d impl %r" % (m, ent[:2])
            if not (_close(c, np.cos(ent[2])) and _close(s, np.sin(ent[2])) and _close(_cx(e), np.exp(1j * ent[3]))):
                return "parameters differ at (%d,%d): model c=%.9g s=%.9g e=%r impl theta=%.9g phi=%.9g" % (tr, tc, c, s, e, ent[2], ent[3])
    return None


def compare_MZ(steps, impl_ti, impl_t):
    cols = [s for s in steps if s[0]]
    rows = [s for s in steps if not s[0]]
    if len(cols) != len(impl_ti) or len(rows) != len(impl_t):
        return "lengths differ"
    for lst, impl, col in ((cols, impl_ti, True), (rows, impl_t, False)):
        for (is_col, tr, tc, (ur, ui, w)), ent in zip(lst, impl):
            u = (ur, ui)
            m = tc if col else tr - 1
            if int(ent[0]) != m or int(ent[1]) != m + 1:
                return "indices differ: model %d impl %r" % (m, ent[:2])
            if not (_close(_cx(u), np.exp(1j * ent[2])) and _close(_cx(w), np.exp(1j * ent[3]))):
                return "parameters differ at (%d,%d): model u=%r w=%r impl phi_i=%.9g phi_e=%.9g" % (tr, tc, u, w, ent[2], ent[3])
    return None


def compare_diag(model_d, impl_d):
    if len(model_d) != len(impl_d):
        return "diagonal lengths differ"
    for a, b in zip(model_d, impl_d):
        if not _close(_cx(a), complex(b)):
            return "diagonal differs: model %r impl %r" % (a, b)
    return None


CORR_KINDS = ["haar", "haar", "identity", "anti-identity", "permutation", "phase-permutation", "diagonal", "block", "embedded",
              "sparse", "dft", "real-orthogonal", "givens", "neg-identity"]


def correspondence(ctx):
    rng = ctx.rng
    rs = np.random.RandomState(rng.getrandbits(32))
    d = dec()
    # ---- (1) nulling order, exact
    max_n = ctx.budget(9, 14)
    lines = [COQ_HEADER]
    for n in range(1, max_n + 1):
        lines.append("Eval vm_compute in (sched_out (rect_schedule %d), sched_out (tri_schedule %d))." % (n, n))
    ok, vals, raw = ctx.coq_eval("sched", "\n".join(lines))
    if not ok:
        ctx.obligation("correspondence:schedule", False, raw)
    else:
        bad = None
        for n, (rect_m, tri_m) in zip(range(1, max_n + 1), vals):
            for routine, model in (("rectangular", rect_m), ("rectangular_MZ", rect_m), ("triangular", tri_m)):
                impl = record_schedule(routine, n, rs)
                model_l = [(bool(a), int(b), int(c)) for a, b, c in model]
                ctx.case({"check": "schedule", "routine": routine, "n": n}, nontrivial=n >= 3, bucket="schedule")
                ctx.traces += 1
                if impl != model_l:
                    bad = (routine, n, impl, model_l)
                    # does the implementation still decompose correctly?
                    case = {"routine": routine, "kind": "haar", "n": n, "opts": {}, "matrix": mat_to_json(haar(n, rs))}
                    out, fail = evaluate(case)
                    if fail:
                        ctx.counterexample(fail[0], fail[1], case)
                    ctx.disagreement("corr:schedule:" + routine, "nulling order of %s(n=%d) differs from the model: impl %r model %r" % (routine, n, impl[:8], model_l[:8]),
                                     {"routine": routine, "n": n, "impl": impl, "model": model_l})
                    break
            if bad:
                break
        ctx.obligation("correspondence:schedule", bad is None, "" if bad is None else repr(bad)[:1500])
    # ---- (2) float model of rectangular / phase_end / triangular / rectangular_MZ / rectangular_symmetric
    n_cases = ctx.budget(60, 400)
    cases = []
    for i in range(n_cases):
        kind = CORR_KINDS[i % len(CORR_KINDS)] if i < 2 * len(CORR_KINDS) else rng.choice(CORR_KINDS)
        n = rng.randint(1, 6) if rng.random() < 0.85 else rng.randint(7, 9)
        A = np.asarray(gen_unitary(rs, kind, n), dtype=complex)
        cases.append((kind, n, A))
    diverged = 0
    shard = 40
    for si in range(0, len(cases), shard):
        lines = [COQ_HEADER]
        for ci, (kind, n, A) in enumerate(cases[si:si + shard]):
            lines.append("Definition V%d := %s." % (ci, coq_cmatrix(A)))
            lines.append("Eval vm_compute in rectangular_f %d V%d.\nEval vm_compute in triangular_f %d V%d.\nEval vm_compute in rectangular_MZ_f %d V%d." % (n, ci, n, ci, n, ci))
        ok, vals, raw = ctx.coq_eval("mesh_%d" % (si // shard), "\n".join(lines), timeout=600)
        if not ok or len(vals) != 3 * len(cases[si:si + shard]):
            ctx.obligation("correspondence:mesh:shard%d" % (si // shard), False, raw)
            return
        for ci, (kind, n, A) in enumerate(cases[si:si + shard]):
            rect_m, tri_m, mz_m = vals[3 * ci], vals[3 * ci + 1], vals[3 * ci + 2]
            ctx.traces += 1
            case_json = {"check": "mesh-model", "kind": kind, "n": n, "matrix": mat_to_json(A)}
            ctx.case(case_json, nontrivial=is_nontrivial(kind), bucket="corr-" + kind)
            problems = []
            try:
                ti, dg, t = d.rectangular(A)
                pe_t, pe_d, _ = d.rectangular_phase_end(A)
                tri_t, tri_d, _ = d.triangular(A)
                mti, mdg, mt = d.rectangular_MZ(A)
                sy_t, sy_d, _ = d.rectangular_symmetric(A)
            except Exception as e:  # noqa: BLE001
                ctx.counterexample("mesh:valid-input-raises:" + kind, "valid unitary (%s) raised %r" % (kind, e), {"routine": "rectangular", "kind": kind, "n": n, "opts": {}, "matrix": mat_to_json(A)})
                continue
            steps, mdiag, pushed, pdiag = rect_m
            r = compare_T(steps, ti, t) or compare_diag(mdiag, dg)
            if r:
                problems.append(("rectangular", r, ("T", steps, mdiag)))
            else:
                # phase_end: first part equals tilist, the pushed elements follow
                k = len(ti)
                r2 = None
                if len(pe_t) != k + len(pushed):
                    r2 = "phase_end length"
                else:
                    for (m, (c, s, e)), ent in zip(pushed, pe_t[k:]):
                        if int(ent[0]) != m or not (_close(c, np.cos(ent[2])) and _close(s, np.sin(ent[2])) and _close(_cx(e), np.exp(1j * ent[3]))):
                            r2 = "pushed element differs at mode %d: model %r impl %r" % (m, (c, s, e), ent)
                            break
                    r2 = r2 or compare_diag(pdiag, pe_d)
                if r2:
                    problems.append(("rectangular_phase_end", r2, None))
            tsteps, tdiag = tri_m
            r = compare_T(tsteps, [], list(reversed(tri_t))) or compare_diag(tdiag, tri_d)
            if r:
                problems.append(("triangular", r, ("tri", tsteps, tdiag)))
            zsteps, zdiag, zpushed, zpdiag = mz_m
            r = compare_MZ(zsteps, mti, mt) or compare_diag(zdiag, mdg)
            if r:
                problems.append(("rectangular_MZ", r, ("MZ", zsteps, zdiag)))
            else:
                k = len(mti)
                r2 = None
                if len(sy_t) != k + len(zpushed):
                    r2 = "symmetric length"
                else:
                    for (m, (ur, ui, w)), ent in zip(zpushed, sy_t[k:]):
                        u = (ur, ui)
                        if int(ent[0]) != m or not (_close(_cx(u), np.exp(1j * ent[2])) and _close(_cx(w), np.exp(1j * ent[3]))):
                            r2 = "pushed MZ element differs at mode %d: model %r impl %r" % (m, (u, w), ent)
                            break
                    r2 = r2 or compare_diag(zpdiag, sy_d)
                if r2:
                    problems.append(("rectangular_symmetric", r2, None))
            for routine, why, own in problems:
                # model != implementation here.  First: does the implementation violate the property on this input?
                case = {"routine": routine, "kind": kind, "n": n, "opts": {}, "matrix": mat_to_json(A)}
                out, fail = evaluate(case)
                if fail:
                    ctx.counterexample(fail[0], fail[1], case)
                    continue
                # both may be valid decompositions that took different exact-zero / ill-conditioned branches
                benign = False
                if own is not None and kind != "haar":
                    k2, st, dg2 = own
                    if k2 == "tri":
                        q = np.diag([_cx(x) for x in dg2]).astype(complex)
                        for is_col, tr_, tc_, p in reversed(st):
                            q = _T_from(p[0], p[1], _cx(p[2]), tr_ - 1, n).conj().T @ q
                    else:
                        q = model_reconstruct(k2, st, dg2, n)
                    benign = np.abs(q - A).max(initial=0) <= 1e-8
                if benign:
                    diverged += 1
                    ctx.hist["corr-diverged-benign"] = ctx.hist.get("corr-diverged-benign", 0) + 1
                else:
                    ctx.disagreement("corr:mesh:" + routine, "model and implementation differ on a %s unitary (n=%d): %s" % (kind, n, why), case)
    ctx.notes.append("mesh correspondence: %d inputs x 5 routines, %d benign branch divergences (both outputs valid decompositions)" % (len(cases), diverged))
    ctx.obligation("correspondence:mesh:divergence-rate", diverged <= max(3, 0.1 * len(cases) * 5), "%d diverged" % diverged)


# ------------------------------------------------------------------ validation guards: just inside / just outside the tolerance
def guard_ratio(routine, A, opts):
    """(the routine's documented validity measure of A) / (its tolerance): <= 1 means 'valid' by the documentation."""
    A = np.asarray(A)
    n = A.shape[0]
    if routine in MESH_T + MESH_MZ:
        return np.abs(A @ A.conj().T - np.eye(n)).max() / opts.get("tol", 1e-11)
    if routine in MESH_COMPACT:
        rt, at = opts.get("rtol", 1e-12), opts.get("atol", 1e-12)
        return (np.abs(A @ A.conj().T - np.eye(n)) / (at + rt * np.eye(n))).max()
    if routine == "takagi":
        return np.linalg.norm(A - A.T) / opts.get("tol", 1e-13)
    if routine in ("graph_embed", "graph_embed_deprecated", "bipartite_graph_embed"):
        rt, at = opts.get("rtol", 1e-5), opts.get("atol", 1e-8)
        return (np.abs(A - A.T) / (at + rt * np.abs(A.T))).max()
    if routine == "williamson":
        return np.linalg.norm(A - A.T) / opts.get("tol", 1e-11)
    if routine == "bloch_messiah":
        Om = sympmat(n // 2)
        return np.linalg.norm(A.T @ Om @ A - Om) / opts.get("tol", 1e-10)
    raise KeyError(routine)


def perturb_to_ratio(routine, X, E, opts, target):
    """X + t E with guard_ratio == target (bisection on a log scale); None if not reachable."""
    f = lambda t: guard_ratio(routine, X + t * E, opts)
    lo, hi = 1e-18, 1e-18
    for _ in range(80):
        if f(hi) >= target:
            break
        lo, hi = hi, hi * 4
    else:
        return None
    if f(lo) >= target:
        return None
    for _ in range(60):
        mid = math.sqrt(lo * hi)
        if f(mid) >= target:
            hi = mid
        else:
            lo = mid
    A = X + hi * E
    r = f(hi)
    return A if 0.9 * target <= r <= 1.2 * target else None


GUARD_OPTS = {
    "rectangular": [{}, {"tol": 1e-8}, {"tol": 1e-4}],
    "rectangular_phase_end": [{}, {"tol": 1e-8}, {"tol": 1e-4}],
    "rectangular_MZ": [{}, {"tol": 1e-8}, {"tol": 1e-4}],
    "rectangular_symmetric": [{}, {"tol": 1e-8}, {"tol": 1e-4}],
    "triangular": [{}, {"tol": 1e-8}, {"tol": 1e-4}],
    "triangular_compact": [{}, {"rtol": 1e-9, "atol": 1e-9}, {"atol": 1e-7}, {"rtol": 1e-7}],
    "rectangular_compact": [{}, {"rtol": 1e-9, "atol": 1e-9}, {"atol": 1e-7}, {"rtol": 1e-7}],
    "sun_compact": [{}, {"rtol": 1e-9, "atol": 1e-9}, {"atol": 1e-7}, {"rtol": 1e-7}],
    "takagi": [{}, {"tol": 1e-9}, {"tol": 1e-5}],
    "graph_embed": [{}, {"rtol": 0.0, "atol": 1e-6}, {"rtol": 0.0, "atol": 1e-10}, {"rtol": 1e-3, "atol": 1e-12}],
    "graph_embed_deprecated": [{}, {"rtol": 0.0, "atol": 1e-6}, {"rtol": 0.0, "atol": 1e-10}],
    "williamson": [{}, {"tol": 1e-8}, {"tol": 1e-4}],
    "bloch_messiah": [{}, {"tol": 1e-7}, {"tol": 1e-4}],
    # no invalid square inputs: an almost symmetric matrix on either side of the internal symmetry test must be decomposed
    "bipartite_graph_embed": [{}, {"rtol": 0.0, "atol": 1e-6}, {"rtol": 0.0, "atol": 1e-10}],
}
# routines whose inexact-but-inside-tolerance inputs must still be decomposed (to an accuracy of the order of the inexactness);
# the compact meshes end with an exact self-check and may legitimately fail on inexact input
GUARD_INSIDE = set(MESH_T + MESH_MZ + ["takagi", "graph_embed", "graph_embed_deprecated", "williamson", "bloch_messiah", "bipartite_graph_embed"])


def guard_base(rs, routine, n):
    """(X valid base input, list of perturbation directions E)."""
    if routine in UNITARY_ROUTINES:
        n = max(n, 3) if routine == "sun_compact" else n
        X = haar(n, rs) if rs.rand() < 0.7 else np.asarray(gen_unitary(rs, rs.choice(["identity", "permutation", "diagonal", "block"]), n), dtype=complex)
        r = rs.randint(n)
        E_row = np.zeros((n, n), dtype=complex); E_row[r] = X[r]                     # one row mis-normalised
        E_el = np.zeros((n, n), dtype=complex); E_el[rs.randint(n), rs.randint(n)] = np.exp(1j * rs.uniform(0, 6))
        return X, [rs.randn(n, n) + 1j * rs.randn(n, n), E_row, E_el, X.copy()]
    if routine in ("takagi", "graph_embed", "graph_embed_deprecated", "bipartite_graph_embed"):
        n = max(n, 2)
        B = rs.randn(n, n) + (1j * rs.randn(n, n) if rs.rand() < 0.6 else 0)
        X = B + B.T
        R = rs.randn(n, n)
        E_pair = np.zeros((n, n)); i, j = rs.choice(n, 2, replace=False); E_pair[i, j] = 1.0
        return X, [R - R.T, E_pair]
    if routine == "williamson":
        X = gen_cov(rs, rs.choice(["random", "degenerate", "thermal-diag", "vacuum"]), n)
        R = rs.randn(2 * n, 2 * n)
        E_pair = np.zeros((2 * n, 2 * n)); E_pair[0, -1] = 1.0
        return X, [R - R.T, E_pair]
    if routine == "bloch_messiah":
        # well-separated squeezing values only: perturbing a degenerate / passive matrix gives the recorded near-degenerate defect
        X = gen_symp(rs, rs.choice(["random", "diagonal-squeezer"]), n)
        E_el = np.zeros((2 * n, 2 * n)); E_el[rs.randint(2 * n), rs.randint(2 * n)] = 1.0
        return X, [rs.randn(2 * n, 2 * n), X.copy(), E_el]
    raise KeyError(routine)


def evaluate_guard(case):
    """case: {check:'guard', routine, opts, matrix, expect:'accept'|'reject', slack}.  Returns failure (sig, msg) or None."""
    routine, opts = case["routine"], dict(case.get("opts", {}))
    A = mat_from_json(case["matrix"])
    tag = "default" if not opts else ",".join("%s=%g" % (k, opts[k]) for k in sorted(opts))
    try:
        res = call_routine(routine, A, opts)
    except Exception as e:  # noqa: BLE001
        if case["expect"] == "accept":
            return ("%s:guard:rejects-inside-tol:%s" % (routine, tag),
                    "input whose documented validity measure is %.2g x the tolerance (%s) raised %s: %s" % (case["ratio"], opts or "defaults", type(e).__name__, str(e)[:120]))
        if not isinstance(e, ValueError):
            # the validation did not fire; the routine only crashed later on the invalid input
            return ("%s:guard:outside-tol-not-validated:%s:%s" % (routine, type(e).__name__, tag),
                    "invalid input (validity measure %.3g x the tolerance, %s) passed the validation and failed later with %s instead of the documented ValueError" % (case["ratio"], opts or "defaults", type(e).__name__))
        return None
    if case["expect"] == "reject":
        return ("%s:guard:accepts-outside-tol:%s" % (routine, tag),
                "input whose documented validity measure is %.3g x the tolerance (%s) was accepted instead of raising" % (case["ratio"], opts or "defaults"))
    old = _SLACK[0]
    _SLACK[0] = float(case.get("slack", 0.0))
    try:
        check_valid(routine, A, opts, res)
    except Bad as b:
        return ("%s:guard:inside-tol:%s:%s" % (routine, b.sig, tag), "input inside the tolerance (%s) decomposed wrongly: %s" % (opts or "defaults", b.msg))
    except Exception as e:  # noqa: BLE001
        return ("%s:guard:inside-tol:malformed:%s" % (routine, tag), "input inside the tolerance gave malformed factors (%s)" % type(e).__name__)
    finally:
        _SLACK[0] = old
    return None


def pd_boundary_cases(rs, reps):
    """williamson: exactly symmetric matrices whose smallest eigenvalue is just below / at / just above zero."""
    out = []
    for _ in range(reps):
        for lam, expect in ((-1e-2, "reject"), (-1e-5, "reject"), (-1e-8, "reject"), (0.0, "reject"), (1e-4, "accept"), (1e-2, "accept")):
            n = rs.randint(1, 4)
            ev = np.concatenate([[lam], rs.uniform(0.5, 3.0, 2 * n - 1)])
            if lam == 0.0 or rs.rand() < 0.3:
                X = np.diag(ev[rs.permutation(2 * n)])
            else:
                q, _ = np.linalg.qr(rs.randn(2 * n, 2 * n))
                X = _sym(q @ np.diag(ev) @ q.T)
            out.append({"check": "guard", "routine": "williamson", "opts": {}, "expect": expect, "ratio": lam, "slack": 0.0, "kind": "smallest-eigenvalue", "matrix": mat_to_json(X)})
    return out


def shape_cases(rs):
    """Inputs that are invalid by their shape alone: the documented ValueError must be raised."""
    out = []
    def add(routine, A, kind):
        out.append({"check": "guard", "routine": routine, "opts": {}, "expect": "reject", "ratio": float("inf"), "slack": 0.0, "kind": kind, "matrix": mat_to_json(A)})
    for routine in UNITARY_ROUTINES:
        n = rs.randint(2, 5)
        add(routine, haar(n + 1, rs)[:, :n], "non-square-tall")
        add(routine, haar(n + 1, rs)[:n, :], "non-square-wide")
    for n in (1, 2):
        add("sun_compact", haar(n, rs), "too-small")
        add("sun_compact", np.eye(n), "too-small")
    for routine in ("takagi", "graph_embed", "graph_embed_deprecated", "bipartite_graph_embed"):
        add(routine, rs.randn(3, 2), "non-square-tall")
        add(routine, rs.randn(2, 3), "non-square-wide")
    for routine in ("williamson", "bloch_messiah"):
        add(routine, rs.randn(4, 6), "non-square-wide")
        add(routine, rs.randn(6, 4), "non-square-tall")
        add(routine, np.eye(3) if routine == "bloch_messiah" else 2.0 * np.eye(3), "odd-dimension")
        add(routine, np.eye(1), "odd-dimension")
    return out


def guard_sweep(ctx):
    rs = np.random.RandomState(ctx.rng.getrandbits(32))
    reps = ctx.budget(1, 4)
    for case in shape_cases(rs):
        ctx.case({"check": "guard-shape", "routine": case["routine"], "kind": case["kind"], "shape": case["matrix"]["shape"]}, nontrivial=True, bucket="guard/shape")
        fail = evaluate_guard(case)
        if fail:
            ctx.counterexample(fail[0].replace(":default", ":" + case["kind"]), fail[1], case)
    for case in pd_boundary_cases(rs, reps):
        ctx.case({"check": "guard-pd", "lam": case["ratio"], "h": hash(tuple(str(v) for v in case["matrix"]["re"])) & 0xffffffff}, nontrivial=True, bucket="guard/williamson/pd-" + case["expect"])
        fail = evaluate_guard(case)
        if fail:
            ctx.counterexample(fail[0].replace(":default", ":smallest-eigenvalue"), fail[1], case)
    for routine, optlist in GUARD_OPTS.items():
        for opts in optlist:
            for rep in range(reps):
                n = rs.randint(1, 5) if routine in UNITARY_ROUTINES else rs.randint(1, 4)
                X, Es = guard_base(rs, routine, n)
                for E in Es:
                    for target, expect in ((0.1, "accept"), (10.0, "reject"), (300.0, "reject")):
                        if routine == "bipartite_graph_embed":
                            expect = "accept"
                        if expect == "accept" and routine not in GUARD_INSIDE:
                            continue
                        A = perturb_to_ratio(routine, X, E, opts, target)
                        if A is None:
                            continue
                        delta = float(np.abs(A - X).max())
                        if expect == "accept" and delta > 1e-3:
                            continue
                        case = {"check": "guard", "routine": routine, "opts": opts, "expect": expect, "ratio": target,
                                "slack": 200.0 * (A.shape[0] + 1) * delta, "matrix": mat_to_json(A)}
                        ctx.case({"check": "guard", "routine": routine, "opts": opts, "expect": expect, "ratio": target, "n": int(A.shape[0]),
                                  "h": hash(tuple(str(v) for v in case["matrix"]["re"])) & 0xffffffff}, nontrivial=True, bucket="guard/%s/%s" % (routine, expect))
                        fail = evaluate_guard(case)
                        if fail:
                            ctx.counterexample(fail[0], fail[1], case)


# ------------------------------------------------------------------ element matrices, nulling helpers, private helpers
def _raises(fn, *a, **k):
    try:
        fn(*a, **k)
    except Exception as e:  # noqa: BLE001
        return type(e).__name__
    return None


def evaluate_helper(case):
    """case: {check:'helper', name, ...}.  Returns failure (sig, msg) or None."""
    d = dec()
    name = case["name"]
    if name in ("T", "Ti", "mach_zehnder", "mach_zehnder_inv"):
        m, n, a, b, N = case["m"], case["n"], case["a"], case["b"], case["N"]
        got = getattr(d, name)(m, n, a, b, N)
        want = {"T": lambda: Tm(m, n, a, b, N), "Ti": lambda: Tm(m, n, a, b, N).conj().T,
                "mach_zehnder": lambda: MZm(m, n, a, b, N), "mach_zehnder_inv": lambda: MZm(m, n, a, b, N).conj().T}[name]()
        err = np.abs(np.asarray(got) - want).max()
        if not err <= 1e-12:
            return ("%s:matrix" % name, "%s(%d, %d, %.6g, %.6g, %d) differs from its documented matrix by %.3g" % (name, m, n, a, b, N, err))
        return None
    if name in ("M", "P"):
        if name == "M":
            got, want = d.M(case["n"], case["a"], case["b"], case["N"]), sMZm(case["n"], case["a"], case["b"], case["N"])
        else:
            got, want = d.P(case["n"], case["a"], case["N"]), Pm(case["n"], case["a"], case["N"])
        err = np.abs(np.asarray(got) - want).max()
        if not err <= 1e-12:
            return ("%s:matrix" % name, "%s differs from its documented matrix by %.3g" % (name, err))
        return None
    if name in ("nullTi", "nullT", "nullMZi", "nullMZ"):
        U = mat_from_json(case["matrix"])
        i, j = case["i"], case["j"]
        if U.shape[0] != U.shape[1]:
            if _raises(getattr(d, name), i, j, U) is None:
                return ("%s:non-square-accepted" % name, "%s accepted a non-square matrix" % name)
            return None
        p = getattr(d, name)(i, j, U)
        N = U.shape[0]
        el = Tm if name in ("nullTi", "nullT") else MZm
        if name in ("nullTi", "nullMZi"):          # element (i, j) of U @ X^{-1}, X on modes (j, j+1)
            if [int(p[0]), int(p[1]), p[4]] != [j, j + 1, N]:
                return ("%s:indices" % name, "%s(%d, %d) returned modes %r" % (name, i, j, p[:2]))
            val = (U @ el(j, j + 1, p[2], p[3], N).conj().T)[i, j]
        else:                                      # element (i, j) of X @ U, X on modes (i-1, i)
            if [int(p[0]), int(p[1]), p[4]] != [i - 1, i, N]:
                return ("%s:indices" % name, "%s(%d, %d) returned modes %r" % (name, i, j, p[:2]))
            val = (el(i - 1, i, p[2], p[3], N) @ U)[i, j]
        if not abs(val) <= 1e-12 * max(1.0, np.abs(U).max()):
            return ("%s:not-nulled:%s" % (name, case.get("kind")), "%s(%d, %d, U): the element it should null is %.3g after applying the returned element" % (name, i, j, abs(val)))
        return None
    if name == "_su2_parameters":
        U = mat_from_json(case["matrix"])
        kw = dict(case.get("opts", {}))
        exp = case["expect"]
        try:
            a, b, g = d._su2_parameters(U, **kw)
        except Exception as e:  # noqa: BLE001
            return ("_su2_parameters:rejects-valid:%s" % case.get("kind"), "valid SU(2) input raised %s" % type(e).__name__) if exp == "accept" else None
        if exp == "reject":
            return ("_su2_parameters:accepts-invalid:%s" % case.get("kind"), "invalid input (%s) was accepted" % case.get("kind"))
        err = np.abs(su2m(0, 1, a, b, g, 2) - U).max()
        if not err <= 1e-9 + float(case.get("slack", 0)):
            return ("_su2_parameters:reconstruct:%s" % case.get("kind"), "SU(2) parameters reproduce the matrix only to %.3g" % err)
        return None
    if name == "_su3_parameters":
        U = mat_from_json(case["matrix"])
        exp = case["expect"]
        try:
            ps = d._su3_parameters(U)
        except Exception as e:  # noqa: BLE001
            return ("_su3_parameters:rejects-valid:%s" % case.get("kind"), "valid SU(3) input raised %s" % type(e).__name__) if exp == "accept" else None
        if exp == "reject":
            return ("_su3_parameters:accepts-invalid:%s" % case.get("kind"), "invalid input (%s) was accepted" % case.get("kind"))
        Q = su2m(1, 2, *ps[0], 3) @ su2m(0, 1, *ps[1], 3) @ su2m(1, 2, *ps[2], 3)
        err = np.abs(Q - U).max()
        if not err <= 1e-9:
            return ("_su3_parameters:reconstruct:%s" % case.get("kind"), "SU(3) parameters reproduce the matrix only to %.3g" % err)
        return None
    if name == "_build_staircase":
        U = mat_from_json(case["matrix"])
        N = U.shape[0]
        tr, newU = d._build_staircase(U)
        newU = np.asarray(newU)
        e0 = np.zeros(N); e0[0] = 1
        if len(tr) != N - 1 or np.abs(newU[:, 0] - e0).max() > 1e-9 or np.abs(newU[0, :] - e0).max() > 1e-9:
            return ("_build_staircase:first-column:%s" % case.get("kind"), "staircase does not reduce the first column to e_0 (%d transformations, residual %.3g)" % (len(tr), np.abs(newU[:, 0] - e0).max()))
        # the returned transformations are the inverse rotations: prod SU2(modes N-2..0) applied to newU gives back U
        # tr[k] are the parameters of the rotation on modes (N-2-k, N-1-k):  U = R(tr[0]) ... R(tr[N-2]) newU
        Q = newU.astype(complex)
        for k in range(N - 2, -1, -1):
            Q = su2m(N - 2 - k, N - 1 - k, tr[k][0], tr[k][1], tr[k][2], N) @ Q
        err = np.abs(Q - U).max()
        if not err <= 1e-9:
            return ("_build_staircase:reconstruct:%s" % case.get("kind"), "staircase rotations times the remainder differ from the input by %.3g" % err)
        if not _is_unitary(newU[1:, 1:], 1e-9):
            return ("_build_staircase:remainder-not-unitary:%s" % case.get("kind"), "remaining block is not unitary")
        return None
    if name in ("covmat_to_hamil", "hamil_to_covmat"):
        A = mat_from_json(case["matrix"])
        exp = case["expect"]
        try:
            got = getattr(d, name)(A)
        except Exception as e:  # noqa: BLE001
            return ("%s:rejects-valid" % name, "valid input raised %s" % type(e).__name__) if exp == "accept" else None
        if exp == "reject":
            return ("%s:accepts-invalid:%s" % (name, case.get("kind")), "invalid input (%s) accepted" % case.get("kind"))
        want = mat_from_json(case["want"])
        err = np.abs(np.asarray(got) - want).max()
        if not err <= 1e-7 * max(1.0, np.abs(want).max()) * max(1.0, np.linalg.cond(A)):
            return ("%s:value" % name, "%s differs from S^-T arctanh(1/nu) S^-1 (resp. its inverse) by %.3g" % (name, err))
        return None
    raise KeyError(name)


def helper_cases(rs, reps):
    """Deterministic sweep + random cases for the public element / nulling helpers and the private SU(n) helpers."""
    out = []
    angles = NICE_ANGLES + [2 * math.pi, -2.2, 5.0]
    for name in ("T", "Ti", "mach_zehnder", "mach_zehnder_inv"):
        for _ in range(4 * reps):
            N = rs.randint(2, 7)
            m, n = rs.choice(N, 2, replace=False)
            a = angles[rs.randint(len(angles))] if rs.rand() < 0.5 else rs.uniform(-4, 7)
            b = angles[rs.randint(len(angles))] if rs.rand() < 0.5 else rs.uniform(-4, 7)
            out.append({"check": "helper", "name": name, "m": int(m), "n": int(n), "a": float(a), "b": float(b), "N": int(N)})
    for _ in range(4 * reps):
        N = rs.randint(2, 7)
        out.append({"check": "helper", "name": "M", "n": int(rs.randint(N - 1)), "a": float(rs.uniform(-4, 7)), "b": float(rs.uniform(-4, 7)), "N": int(N)})
        out.append({"check": "helper", "name": "P", "n": int(rs.randint(N)), "a": float(rs.uniform(-4, 7)), "N": int(N)})
    for name in ("nullTi", "nullT", "nullMZi", "nullMZ"):
        for kind in ("dense", "unitary", "target-zero", "neighbour-zero", "both-zero", "real", "non-square"):
            for _ in range(reps):
                N = rs.randint(2, 6)
                U = haar(N, rs) if kind == "unitary" else (rs.randn(N, N) + (0 if kind == "real" else 1j * rs.randn(N, N)))
                if name in ("nullTi", "nullMZi"):
                    j = rs.randint(N - 1); i = rs.randint(N)         # columns (j, j+1), any row
                    if kind in ("target-zero", "both-zero"):
                        U[i, j] = 0
                    if kind in ("neighbour-zero", "both-zero"):
                        U[i, j + 1] = 0
                else:
                    i = rs.randint(1, N); j = rs.randint(N)          # rows (i-1, i), any column
                    if kind in ("target-zero", "both-zero"):
                        U[i, j] = 0
                    if kind in ("neighbour-zero", "both-zero"):
                        U[i - 1, j] = 0
                if kind == "non-square":
                    U = np.hstack([U, U[:, :1]])
                out.append({"check": "helper", "name": name, "kind": kind, "i": int(i), "j": int(j), "matrix": mat_to_json(U)})
    # _su2_parameters
    for kind in ("generic", "diagonal", "antidiagonal", "identity", "tiny-offdiag", "tiny-diag", "phase-off", "wrong-shape", "det-inside-tol", "det-outside-tol"):
        for _ in range(reps):
            a, b, g = rs.uniform(-3, 3), rs.uniform(0, math.pi), rs.uniform(-3, 3)
            if kind == "diagonal":
                b = 0.0
            if kind == "antidiagonal":
                b = math.pi
            if kind == "identity":
                a = b = g = 0.0
            if kind == "tiny-offdiag":
                b = 10.0 ** rs.uniform(-9, -4)
            if kind == "tiny-diag":
                b = math.pi - 10.0 ** rs.uniform(-9, -4)
            U = su2m(0, 1, a, b, g, 2)
            case = {"check": "helper", "name": "_su2_parameters", "kind": kind, "expect": "accept", "opts": {}}
            if kind == "phase-off":
                U = U * np.exp(1j * rs.choice([0.1, -0.7, 1e-4, math.pi / 2])); case["expect"] = "reject"
            if kind == "wrong-shape":
                U = haar(3, rs); U = U / np.linalg.det(U) ** (1 / 3); case["expect"] = "reject"
            if kind == "det-inside-tol":
                tol = float(rs.choice([1e-10, 1e-6])); U = U * np.exp(0.5j * 0.1 * tol); case["opts"] = {} if tol == 1e-10 else {"tol": tol}; case["slack"] = tol
            if kind == "det-outside-tol":
                tol = float(rs.choice([1e-10, 1e-6])); U = U * np.exp(0.5j * 10 * tol); case["opts"] = {} if tol == 1e-10 else {"tol": tol}; case["expect"] = "reject"
            case["matrix"] = mat_to_json(U)
            out.append(case)
    # _su3_parameters / _build_staircase
    for kind in ("generic", "x-one", "x-unit-modulus", "x-zero", "z-zero", "y-zero", "permutation", "real", "det-off", "wrong-shape"):
        for _ in range(reps):
            U = haar(3, rs)
            if kind == "x-one":
                U = bdiag(np.eye(1), haar(2, rs))
            if kind == "x-unit-modulus":
                U = bdiag(haar(1, rs), haar(2, rs))
            if kind == "x-zero":
                V = haar(2, rs); U = np.zeros((3, 3), dtype=complex); U[1:, 0] = V[:, 0]; U[1:, 1] = V[:, 1]; U[0, 2] = 1; 
            if kind == "z-zero":
                U = bdiag(haar(2, rs), np.eye(1)) @ bdiag(np.eye(1), haar(2, rs))
            if kind == "y-zero":
                U = (bdiag(haar(2, rs), np.eye(1)) @ bdiag(np.eye(1), haar(2, rs)))[[0, 2, 1], :]
            if kind == "permutation":
                U = np.eye(3, dtype=complex)[rs.permutation(3)]
            if kind == "real":
                U = np.asarray(gen_unitary(rs, "real-orthogonal", 3), dtype=complex)
            det = np.linalg.det(U)
            U = U / det ** (1.0 / 3)
            case = {"check": "helper", "name": "_su3_parameters", "kind": kind, "expect": "accept"}
            if kind == "det-off":
                U = U * np.exp(0.2j); case["expect"] = "reject"
            if kind == "wrong-shape":
                U = haar(4, rs); U = U / np.linalg.det(U) ** 0.25; case["expect"] = "reject"
            case["matrix"] = mat_to_json(U)
            out.append(case)
    for kind in ("haar", "embedded", "phase-permutation", "sparse", "block", "diagonal", "tiny-rotation"):
        for _ in range(reps):
            N = rs.randint(4, 7)
            U = np.asarray(gen_unitary(rs, kind, N), dtype=complex)
            U = U / np.linalg.det(U) ** (1.0 / N)
            out.append({"check": "helper", "name": "_build_staircase", "kind": kind, "matrix": mat_to_json(U)})
    # covmat <-> hamiltonian
    for _ in range(2 * reps):
        n = rs.randint(1, 4)
        nu = rs.uniform(1.2, 4.0, n)
        S = rand_symplectic(n, rs) if rs.rand() < 0.7 else np.eye(2 * n)
        Si = np.linalg.inv(S)
        V = _sym(S @ np.diag(np.concatenate([nu, nu])) @ S.T)
        H = _sym(Si.T @ np.diag(np.arctanh(1 / np.concatenate([nu, nu]))) @ Si)
        out.append({"check": "helper", "name": "covmat_to_hamil", "expect": "accept", "matrix": mat_to_json(V), "want": mat_to_json(H)})
        out.append({"check": "helper", "name": "hamil_to_covmat", "expect": "accept", "matrix": mat_to_json(H), "want": mat_to_json(V)})
        for nm, X in (("covmat_to_hamil", V), ("hamil_to_covmat", H)):
            Xa = X.copy(); Xa[0, -1] += 1e-3
            out.append({"check": "helper", "name": nm, "kind": "asymmetric", "expect": "reject", "matrix": mat_to_json(Xa)})
            out.append({"check": "helper", "name": nm, "kind": "non-square", "expect": "reject", "matrix": mat_to_json(X[:, :-1])})
            Xn = X - (np.linalg.eigvalsh(X).min() + 0.1) * np.eye(2 * n)
            out.append({"check": "helper", "name": nm, "kind": "indefinite", "expect": "reject", "matrix": mat_to_json(Xn)})
    return out


def helper_checks(ctx):
    rs = np.random.RandomState(ctx.rng.getrandbits(32))
    for case in helper_cases(rs, ctx.budget(2, 8)):
        small = {k: v for k, v in case.items() if k not in ("matrix", "want")}
        if "matrix" in case:
            small["h"] = hash(tuple(str(v) for v in case["matrix"]["re"])) & 0xffffffff
        ctx.case(small, nontrivial=case.get("kind") not in (None, "dense", "generic", "haar"), bucket="helper/" + case["name"])
        try:
            fail = evaluate_helper(case)
        except Exception as e:  # noqa: BLE001
            fail = ("%s:raises:%s:%s" % (case["name"], type(e).__name__, case.get("kind")), "%s raised %r on a valid call" % (case["name"], e))
        if fail:
            ctx.counterexample(fail[0], fail[1], case)


# ------------------------------------------------------------------ failing-input search on the implementation
def _corpus_cases():
    import glob
    import json
    import os
    out = []
    for p in sorted(glob.glob(os.path.join(coq.VERIF, "corpus", "C17-*.json"))):
        try:
            d = json.load(open(p))
            out.append((os.path.basename(p), d["data"]))
        except Exception:  # noqa: BLE001
            continue
    return out


def _report(ctx, case, fail):
    ctx.counterexample(fail[0], "%s on a %s input (n=%d): %s" % (case["routine"], case.get("kind"), case.get("n", -1), fail[1]), case)


def structured_sweep(ctx):
    sizes = ctx.budget([1, 2, 3, 4, 5, 8, 20], [1, 2, 3, 4, 5, 6, 7, 8, 9, 10, 12, 16, 20])
    for n in sizes:
        mats = {"identity": np.eye(n), "anti-identity": np.eye(n)[::-1].copy(), "neg-identity": -np.eye(n, dtype=complex),
                "cyclic-shift": np.roll(np.eye(n), 1, axis=0), "dft": np.fft.fft(np.eye(n)) / np.sqrt(n),
                "i-identity": 1j * np.eye(n, dtype=complex)}
        for kind, A in mats.items():
            for routine in UNITARY_ROUTINES:
                if routine == "sun_compact" and n < 3:
                    continue
                case = {"routine": routine, "kind": kind, "n": n, "opts": {}, "matrix": mat_to_json(A)}
                out, fail = evaluate(case)
                ctx.case({"check": "structured", "routine": routine, "kind": kind, "n": n, "outcome": out}, nontrivial=True, bucket="structured/" + routine)
                if fail:
                    _report(ctx, case, fail)


def search(ctx):
    """The property's own predicate on the implementation, for every anchored routine:
    valid input  -> factors have the promised structure and multiply back to the input;
    invalid input -> an exception, or (if accepted) still a correct decomposition."""
    rng = ctx.rng
    np.seterr(all="ignore")
    # corpus first (minimised past failures / recorded findings)
    for name, case in _corpus_cases():
        if case.get("check") in ("guard", "helper"):
            fail = evaluate_guard(case) if case["check"] == "guard" else evaluate_helper(case)
            ctx.case({"corpus": name, "check": case["check"]}, nontrivial=True, bucket="corpus")
            if fail:
                ctx.counterexample(fail[0], fail[1], case)
            continue
        if "routine" not in case:
            continue
        out, fail = evaluate(case)
        ctx.case({"corpus": name, "routine": case["routine"], "kind": case.get("kind"), "outcome": out}, nontrivial=True, bucket="corpus")
        if fail:
            _report(ctx, case, fail)
    # deterministic families: structured unitaries of every size class through every mesh routine
    structured_sweep(ctx)
    # deterministic families: validation guards just inside / outside every tolerance option; element, nulling and private helpers
    guard_sweep(ctx)
    helper_checks(ctx)
    n_cases = ctx.budget(2600, 40000)
    sun_dense = [0, 0, None]
    for i in range(n_cases):
        routine = ALL_ROUTINES[i % len(ALL_ROUTINES)]
        big = rng.random() < 0.04
        case = gen_case(rng, routine=routine, bad_fraction=0.2, max_n=(20 if big and routine in UNITARY_ROUTINES else (12 if big else 7)))
        out, fail = evaluate(case)
        small = {"routine": routine, "kind": case["kind"], "n": case["n"], "opts": case["opts"], "outcome": out,
                 "h": hash(tuple(str(v) for v in case["matrix"]["re"])) & 0xffffffff}
        ctx.case(small, nontrivial=is_nontrivial(case["kind"]), bucket="%s/%s" % (routine, out.split(":")[0]))
        if routine == "sun_compact" and case["kind"] in ("haar", "special", "dft", "boundary-in") and case["n"] <= 6:
            sun_dense[0] += 1
            if fail:
                sun_dense[1] += 1
                sun_dense[2] = sun_dense[2] or (case, fail)
        if fail:
            _report(ctx, case, fail)
    # guard against a recorded sun_compact finding ever masking a systematic failure on dense matrices
    if sun_dense[0] >= 20 and sun_dense[1] > max(2, 0.03 * sun_dense[0]):
        case, fail = sun_dense[2]
        ctx.counterexample("sun_compact:systematic-failure:dense-small", "sun_compact fails on %d of %d dense unitaries of size <= 6 (%s)" % (sun_dense[1], sun_dense[0], fail[1]), case)
    # metamorphic: a decomposition must not modify its argument
    for routine in ALL_ROUTINES:
        case = gen_case(rng, routine=routine, bad_fraction=0.0, max_n=5)
        A = mat_from_json(case["matrix"])
        B = A.copy()
        try:
            call_routine(routine, A, dict(case["opts"]))
        except Exception:  # noqa: BLE001
            pass
        same = (A.shape == B.shape) and bool(np.all((A == B) | (np.isnan(A) & np.isnan(B))))
        ctx.case({"check": "input-untouched", "routine": routine, "kind": case["kind"]}, nontrivial=False, bucket="input-untouched")
        if not same:
            ctx.counterexample("%s:mutates-input" % routine, "%s modified the matrix passed to it" % routine, dict(case, check="mutates-input"))


def replay(ctx, data):
    case = data["data"]
    np.seterr(all="ignore")
    if case.get("check") == "mutates-input":
        A = mat_from_json(case["matrix"]); B = A.copy()
        try:
            call_routine(case["routine"], A, dict(case.get("opts", {})))
        except Exception:  # noqa: BLE001
            pass
        bad = not bool(np.all((A == B) | (np.isnan(A) & np.isnan(B))))
        print("input modified:", bad)
        return bad
    if case.get("check") in ("guard", "helper"):
        fail = evaluate_guard(case) if case["check"] == "guard" else evaluate_helper(case)
        print({k: v for k, v in case.items() if k not in ("matrix", "want")})
        print("property predicate:", "FAILS - %s: %s" % fail if fail else "holds")
        return fail is not None
    if "routine" not in case or "matrix" not in case:
        print("replay file names a broken obligation / model disagreement, not an input: %s" % data.get("what"))
        return False
    out, fail = evaluate(case)
    A = mat_from_json(case["matrix"])
    print("routine:", case["routine"], "| input class:", case.get("kind"), "| shape:", A.shape, "| opts:", case.get("opts"))
    print("valid input (independent check):", valid_input(case["routine"], A, dict(case.get("opts", {}))))
    print("implementation outcome:", out)
    print("property predicate:", "FAILS - %s: %s" % fail if fail else "holds")
    return fail is not None
