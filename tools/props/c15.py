"""C15 — physical predictions are independent of the hbar convention.

Model: coq/C15/Model.v (every place sf.hbar enters), theorems coq/Properties/C15.v.
Correspondence: (A) the hbar-free arguments the front end hands to the backend API and the values it
returns, observed by wrapping backend methods, against `run` of the model executed at binary64;
(B) the state-object formulas (BaseGaussianState / BaseFockState / utils.states) against the model.
Search: the same experiment written at two values of hbar (dimensionful parameters rescaled by their
documented units) on the gaussian, bosonic and fock backends; every observable of Result / Result.state is
compared after dividing out its documented unit.
"""
import copy
import hashlib
import json
import math
import warnings

warnings.filterwarnings("ignore")
import numpy as np  # noqa: E402

import strawberryfields as sf  # noqa: E402
from strawberryfields import ops  # noqa: E402
from strawberryfields.backends.states import BaseBosonicState, BaseFockState, BaseGaussianState  # noqa: E402

from vlib import coq  # noqa: E402

PROP = "C15"
LEVEL = "proof"
COQ_TARGETS = ["C15/Model.vo", "C15/Proofs.vo", "C15/Main.vo", "C15/Instances.vo", "C15/Exec.vo", "C15/RealInst.vo"]
COQ_DIRS = ["C15"]
PROPERTIES_FILE = "Properties/C15.v"
# Print Assumptions of C15_real_context_good shows the three axioms of the standard library's real numbers; coqchk
# (thorough tier) lists every axiom of the loaded library context, which for Reals also contains Classical_Prop.classic
REAL_AXIOMS = {"ClassicalDedekindReals.sig_forall_dec", "ClassicalDedekindReals.sig_not_dec",
               "FunctionalExtensionality.functional_extensionality_dep", "sig_forall_dec", "sig_not_dec",
               "functional_extensionality_dep", "Coq.Logic.Classical_Prop.classic", "classic"}
ALLOWED_AXIOMS = set(REAL_AXIOMS)
RULE = ("a case is (backend, circuit over hbar-dependent and hbar-free ops, pair of hbar values) with every "
        "dimensionful parameter written in its documented unit at each hbar; non-trivial = both hbar values differ "
        "from 2 and the circuit contains at least one hbar-dependent operation (Xgate, Zgate, Vgate, Gaussian, "
        "MeasureHomodyne with select, MSgate single-shot) or a state-object query history")
TRUSTED_BASE = [
    "Coq 8.16.1 kernel; vm_compute and primitive floats for evaluating the model on cases",
    "hand-written model coq/C15/Model.v of the hbar-dependent code in ops.py, backends/*/backend.py, backends/states.py, "
    "utils/states.py; tied by float correspondence (backend-call arguments observed by wrapping backend methods; "
    "state-object formulas on generated state data)",
    "section hypotheses of the theorems: field laws of the scalar type; sh2*sh2 = hbar/2, sq2h = 2*sh2, sh2 <> 0 "
    "(identities of np.sqrt; instantiated over R with the real sqrt in coq/C15/RealInst.v, over Qc in Instances.v)",
    "the backend is modelled as an arbitrary hbar-free function of its API arguments (that the simulators keep a fixed "
    "internal convention hbar=2 is what the search observes: identical rescaled observables at two hbar values)",
    "real-number axioms of Coq's standard library (only for C15_real_context_good): "
    "ClassicalDedekindReals.sig_forall_dec, sig_not_dec, functional_extensionality_dep (and Classical_Prop.classic in the "
    "library context that coqchk reports when Reals is loaded)",
    "harness: tools/props/c15.py; numpy / thewalrus numerics inside the observables",
]
ASSUMPTIONS = [
    "sf.hbar is constant during the life of a program (construction, compilation, run, state queries)",
    "tensorflow backend absent from this environment; not exercised",
    "measurement randomness is compared with numpy's global generator re-seeded identically at both hbar values",
]
MANIFEST_TEXT = ("program-level theorem for ALL modelled programs (incl. single-shot MSgate): the rescaled program at hbar' "
                 "drives any hbar-free backend into the same internal state, homodyne and ancilla values scale by "
                 "sqrt(hbar'/hbar), state means by sqrt(hbar'/hbar), covariances by hbar'/hbar; state formulas (mean photon, "
                 "fidelity_coherent, displacement, parity on any mode subset) hbar-free.  Full for the modelled sites; the "
                 "pre-fix behaviours (MSgate ancilla / s, parity with the full determinant, in-place is_coherent) are kept as "
                 "*_old definitions and refuted")

HALFPI = float(np.pi / 2)
# documented unit of each dimensionful parameter: value = base * sqrt(hbar/2)**power
POWERS = {"Xgate": [1], "Zgate": [1], "Vgate": [-1]}
FREE_1 = {"Dgate": ["d", "a"], "Sgate": ["r", "a"], "Rgate": ["a"], "Pgate": ["r"], "Fouriergate": []}
FREE_2 = {"BSgate": ["a", "a"], "S2gate": ["r", "a"], "CXgate": ["r"], "CZgate": ["r"], "MZgate": ["a", "a"]}
PREPS = {"Coherent": ["d", "a"], "Squeezed": ["r", "a"], "DisplacedSqueezed": ["d", "a", "r", "a"], "Thermal": ["n"], "Vacuum": []}
CHANNELS = {"LossChannel": ["t"], "ThermalLossChannel": ["t", "n"]}
FOCK_ONLY = {"Kgate": ["r"], "Fock": ["k"]}
HBARS = [0.5, 1.0, 2.0, 0.25, 4.0, 3.0, 1.7, 0.8, 7.3, 2.5, 1, 3]  # (ints on purpose)


# ------------------------------------------------------------------------------------------------
# generators (everything from ctx.rng)

def _r3(x):
    return float(round(x, 3))


def draw(rng, kind):
    if kind == "a":
        return rng.choice([0.0, HALFPI, math.pi, -HALFPI, 0.3, -0.7, 1.1]) if rng.random() < 0.35 else _r3(rng.uniform(-math.pi, math.pi))
    if kind == "d":
        return rng.choice([0.0, 0.5, 1.0]) if rng.random() < 0.25 else _r3(rng.uniform(0, 1.0))
    if kind == "t":
        return rng.choice([1.0, 0.5, 0.0, 0.9]) if rng.random() < 0.4 else _r3(rng.uniform(0.1, 1.0))
    if kind == "n":
        return rng.choice([0.0, 0.5, 1.0]) if rng.random() < 0.4 else _r3(rng.uniform(0, 1.2))
    if kind == "k":
        return rng.randrange(0, 3)
    return rng.choice([0.0, 0.5, -0.5, 0.25]) if rng.random() < 0.25 else _r3(rng.uniform(-0.6, 0.6))


def rand_sympl_cov(rng, n):
    """A physical n-mode covariance matrix / mean vector in hbar=2 units (xxpp order), from a random circuit."""
    old = sf.hbar
    sf.hbar = 2
    try:
        prog = sf.Program(n)
        with prog.context as q:
            for i in range(n):
                if rng.random() < 0.5:
                    ops.Thermal(_r3(rng.uniform(0.05, 0.8))) | q[i]
                ops.Sgate(_r3(rng.uniform(-0.5, 0.5)), _r3(rng.uniform(-3, 3))) | q[i]
                ops.Dgate(_r3(rng.uniform(0, 0.9)), _r3(rng.uniform(-3, 3))) | q[i]
            for i in range(n - 1):
                ops.BSgate(_r3(rng.uniform(0.2, 1.3)), _r3(rng.uniform(-2, 2))) | (q[i], q[i + 1])
        st = sf.Engine("gaussian").run(prog).state
        cov = st.cov()
        cov = (cov + cov.T) / 2
        return [float(x) for x in st.means()], [[float(x) for x in row] for row in cov]
    finally:
        sf.hbar = old


def gauss_prep_case(rng, k):
    """(r, V) in hbar=2 units for a k-mode Gaussian(V, r): every branch of Gaussian._decompose (vacuum, x/p-squeezed
    diagonal, rotated squeezed block-diagonal, thermal diagonal, general pure / mixed) and r = None / zeros / partial."""
    cls = rng.choice(["vacuum", "diag-squeezed", "block-rotated", "thermal", "general", "general"])
    if cls == "general":
        r, V = rand_sympl_cov(rng, k)
    else:
        V = np.zeros((2 * k, 2 * k))
        for i in range(k):
            if cls == "vacuum":
                b = np.eye(2)
            elif cls == "diag-squeezed":
                t = rng.choice([0.0, 0.4, -0.3, 0.7])
                b = np.diag([math.exp(-2 * t), math.exp(2 * t)])
            elif cls == "thermal":
                b = np.eye(2) * (2 * rng.choice([0.0, 0.3, 1.0, 0.05]) + 1)
            else:
                t, ph = rng.choice([0.3, 0.5, 0.0]), rng.choice([0.4, 1.2, -0.8, HALFPI])
                R = np.array([[math.cos(ph / 2), -math.sin(ph / 2)], [math.sin(ph / 2), math.cos(ph / 2)]])
                b = R @ np.diag([math.exp(-2 * t), math.exp(2 * t)]) @ R.T
            V[i, i], V[i, k + i], V[k + i, i], V[k + i, k + i] = b[0, 0], b[0, 1], b[1, 0], b[1, 1]
        V = [[float(x) for x in row] for row in V]
        r = [_r3(rng.uniform(-1, 1)) for _ in range(2 * k)]
    u = rng.random()
    if u < 0.2:
        r = None
    elif u < 0.35:
        r = [0.0] * (2 * k)
    elif u < 0.55:
        r = [0.0 if rng.random() < 0.5 else x for x in r]
    return r, V, cls


def gen_op(rng, n, backend, first=False):
    # preparations mostly at the start of the circuit (a later one wipes out what was built on that mode)
    kinds = ["hbar", "hbar", "free1", "free1", "free2", "chan"] + (["prep", "prep", "prep"] if first else (["prep"] if rng.random() < 0.25 else []))
    if backend == "fock":
        kinds += ["fockonly", "hbar"]
    k = rng.choice(kinds)
    if k == "free2" and n < 2:
        k = "free1"
    dg = rng.random() < 0.2
    if k == "hbar":
        name = rng.choice(["Xgate", "Zgate"] + (["Vgate", "Vgate"] if backend == "fock" else []))
        base = rng.choice([0.0, 1.0, -0.5]) if rng.random() < 0.2 else _r3(rng.uniform(-1.2, 1.2))
        if name == "Vgate":
            base = rng.choice([-1, 1]) * _r3(rng.uniform(0.04, 0.2)) if rng.random() < 0.9 else 0.0
        return {"op": name, "p": [base], "m": [rng.randrange(n)], "dg": dg}
    if k == "free1":
        name = rng.choice(sorted(FREE_1))
        return {"op": name, "p": [draw(rng, x) for x in FREE_1[name]], "m": [rng.randrange(n)], "dg": dg}
    if k == "free2":
        name = rng.choice(sorted(FREE_2))
        if backend == "fock" and name == "MZgate":
            name = "BSgate"
        return {"op": name, "p": [draw(rng, x) for x in FREE_2[name]], "m": rng.sample(range(n), 2), "dg": dg}
    if k == "prep" and backend == "gaussian" and rng.random() < 0.12:
        # barely mixed state: purity is decided with a tolerance
        return {"op": "Thermal", "p": [rng.choice([1e-9, 3e-10, 1e-8])], "m": [rng.randrange(n)], "dg": False}
    if k == "prep":
        name = rng.choice(sorted(PREPS))
        if backend == "bosonic":
            name = rng.choice(["Coherent", "Squeezed", "Vacuum", "Thermal"])
        return {"op": name, "p": [draw(rng, x) for x in PREPS[name]], "m": [rng.randrange(n)], "dg": False}
    if k == "chan":
        name = rng.choice(sorted(CHANNELS)) if backend != "fock" else "LossChannel"
        return {"op": name, "p": [draw(rng, x) for x in CHANNELS[name]], "m": [rng.randrange(n)], "dg": False}
    name = rng.choice(sorted(FOCK_ONLY))
    p = [draw(rng, x) for x in FOCK_ONLY[name]]
    return {"op": name, "p": p, "m": [rng.randrange(n)], "dg": dg and name == "Kgate"}


def gen_spec(rng, backend=None, max_n=3):
    backend = backend or rng.choice(["gaussian", "gaussian", "bosonic", "fock"])
    if backend == "fock":
        n = rng.choice([1, 2, 2])
    elif backend == "bosonic":
        n = rng.choice([1, 2, 2])
    else:
        n = rng.randint(1, max_n)
    opsl = []
    # optional Gaussian(V, r) preparation of a subset of modes first
    if backend == "gaussian" and rng.random() < 0.45:
        k = rng.randint(1, n)
        modes = sorted(rng.sample(range(n), k))
        r, V, cls = gauss_prep_case(rng, k)
        opsl.append({"op": "Gaussian", "V": V, "r": r, "m": modes, "decomp": rng.random() < 0.5, "dg": False, "cls": cls})
    if backend == "bosonic" and rng.random() < 0.6:
        m = rng.randrange(n)
        u = rng.random()
        if u < 0.45:
            # (exact zeros of every preparation parameter: that is where shortcuts live)
            opsl.append({"op": "Catstate", "p": [0.0 if rng.random() < 0.2 else _r3(rng.uniform(0.4, 1.2)), rng.choice([0.0, _r3(rng.uniform(0, 1))]), rng.choice([0, 1])], "m": [m], "dg": False,
                         "rep": rng.choice(["complex", "complex", "real"])})
        elif u < 0.7:
            opsl.append({"op": "GKP", "state": [rng.choice([0.0, HALFPI, 0.6]), rng.choice([0.0, 0.4])], "eps": rng.choice([0.35, 0.5]), "m": [m], "dg": False})
        else:
            opsl.append({"op": "Fock", "p": [1], "m": [m], "dg": False})
    for j in range(rng.randint(1, 6)):
        opsl.append(gen_op(rng, n, backend, first=(j == 0)))
    if backend == "bosonic" and rng.random() < 0.6:
        opsl.append({"op": "MSgate", "p": [rng.choice([1, 1, -1, 0]) * _r3(rng.uniform(0.1, 0.6)), rng.choice([0.0, _r3(rng.uniform(-1, 1))]), _r3(rng.uniform(0.8, 1.5)), rng.choice([1.0, _r3(rng.uniform(0.7, 1.0))])],
                     "avg": rng.random() < 0.35, "m": [rng.randrange(n)], "dg": False})
        if rng.random() < 0.5:
            opsl.append(gen_op(rng, n, backend))
    # measurement at the end of a prefix: homodyne with / without post-selection
    if rng.random() < 0.55 and not (backend == "bosonic" and n == 1):  # bosonic homodyne needs a second mode
        m = rng.randrange(n)
        sel = None if (rng.random() < 0.35) else _r3(rng.uniform(-1.0, 1.0))
        if sel is not None and rng.random() < 0.1:
            sel = 0.0
        if n >= 2 and rng.random() < 0.7:
            # correlate the measured mode with another one so that the conditional state depends on the outcome
            other = rng.choice([x for x in range(n) if x != m])
            opsl.append({"op": "BSgate", "p": [_r3(rng.uniform(0.4, 1.1)), draw(rng, "a")], "m": [m, other], "dg": False})
        opsl.append({"op": "MeasureHomodyne", "phi": draw(rng, "a"), "select": sel, "m": [m], "dg": False})
        if n >= 2 and backend != "bosonic" and rng.random() < 0.35:
            # feed-forward: a position / momentum displacement by (factor x measured value) on another mode
            opsl.append({"op": rng.choice(["Xgate", "Zgate"]), "p": [0.0], "ff": [m, rng.choice([1.0, -0.5, 0.7])], "m": [rng.choice([x for x in range(n) if x != m])], "dg": rng.random() < 0.2})
        if rng.random() < 0.6:
            opsl.append(gen_op(rng, n, backend))
    elif backend in ("gaussian", "bosonic") and n >= 2 and rng.random() < 0.3:
        sel = None if rng.random() < 0.3 else [_r3(rng.uniform(-0.6, 0.6)), _r3(rng.uniform(-0.6, 0.6))]
        opsl.append({"op": "MeasureHeterodyne", "select": sel, "m": [rng.randrange(n)], "dg": False})
        if rng.random() < 0.6:
            opsl.append(gen_op(rng, n, backend))
    if backend == "fock" and rng.random() < 0.2:  # (the gaussian backend's hafnian sampler amplifies rounding noise: same distribution, different draws)
        k = rng.randint(1, n)
        opsl.append({"op": "MeasureFock", "m": sorted(rng.sample(range(n), k)), "dg": False})
    spec = {"backend": backend, "n": n, "ops": opsl}
    if backend == "fock":
        spec["cutoff"] = rng.choice([6, 7, 8])
        spec["run_opts"] = {"num_bins": 4000}  # (only read by the sampling branch of the fock homodyne)
    if rng.random() < 0.25:
        spec["optimize"] = True
    # free (symbolic) program parameters for some of the unit-converting gates
    for j, o in enumerate(opsl):
        if o["op"] in POWERS and "ff" not in o and rng.random() < 0.25 and backend != "bosonic":
            o["sym"] = "a%d" % j
    if backend == "bosonic" and opsl[-1]["op"] == "MeasureHomodyne" and opsl[-1]["select"] is None and rng.random() < 0.5:
        spec["shots"] = rng.choice([2, 3])
    # parameters of the queries
    spec["q"] = {
        "alpha": [[_r3(rng.uniform(-0.8, 0.8)), _r3(rng.uniform(-0.8, 0.8))] for _ in range(n)],
        "phi": draw(rng, "a"),
        "fock": [rng.randrange(0, 2) for _ in range(n)],
        "grid": [_r3(rng.uniform(-1.5, 1.5)) for _ in range(3)],
        "A": _sym([[_r3(rng.uniform(-0.5, 0.5)) if rng.random() < 0.6 else 0.0 for _ in range(2 * n)] for _ in range(2 * n)]),
        "d": [_r3(rng.uniform(-0.5, 0.5)) for _ in range(2 * n)],
        "subset": sorted(rng.sample(range(n), rng.randint(1, n))),
    }
    return spec


def malform(rng, spec):
    """Malformed stream: the same invalid input must be rejected (or accepted) alike in every convention."""
    spec = copy.deepcopy(spec)
    kind = rng.choice(["gauss-r-len", "gauss-V-asym", "gauss-V-unphysical", "param-inf", "mode-range"])
    g = [o for o in spec["ops"] if o["op"] == "Gaussian"]
    if kind.startswith("gauss") and not g:
        r, V = rand_sympl_cov(rng, 1)
        g = [{"op": "Gaussian", "V": V, "r": r, "m": [0], "decomp": rng.random() < 0.5, "dg": False}]
        spec["ops"].insert(0, g[0])
        spec["backend"] = "gaussian"
        spec.pop("cutoff", None)
        spec["ops"] = [o for o in spec["ops"] if o["op"] not in ("Vgate", "Kgate", "Fock", "Catstate", "GKP", "MSgate", "MeasureFock")]
    if kind == "gauss-r-len":
        g[0]["r"] = (g[0]["r"] or [0.0] * len(g[0]["V"])) + [0.5]
    elif kind == "gauss-V-asym":
        g[0]["V"][0][-1] += 0.3
    elif kind == "gauss-V-unphysical":
        g[0]["V"] = [[0.01 * x for x in row] for row in g[0]["V"]]
    elif kind == "param-inf":
        for o in spec["ops"]:
            if o["op"] in POWERS:
                o["p"] = [float("inf")]
                break
    else:
        spec["ops"][-1]["m"] = [spec["n"] + 1] * len(spec["ops"][-1]["m"])
    spec["malformed"] = kind
    return spec


def _sym(a):
    a = np.array(a)
    return [[float(x) for x in row] for row in np.round((a + a.T) / 2, 3)]


def has_hbar_op(spec):
    for o in spec["ops"]:
        if o["op"] in POWERS or o["op"] == "Gaussian":
            return True
        if o["op"] == "MeasureHomodyne" and o["select"] is not None:
            return True
        if o["op"] == "MSgate" and not o["avg"]:
            return True
    return False


def draw_hbar_pair(rng):
    h1 = rng.choice(HBARS) if rng.random() < 0.6 else _r3(rng.uniform(0.3, 5.0))
    h2 = h1
    while h2 == h1:
        h2 = rng.choice(HBARS) if rng.random() < 0.6 else _r3(rng.uniform(0.3, 5.0))
    return h1, h2


# ------------------------------------------------------------------------------------------------
# implementation drivers

class Hbar:
    """Set the global front-end hbar for the duration of a block."""

    def __init__(self, h):
        self.h = h

    def __enter__(self):
        self.old = sf.hbar
        sf.hbar = self.h
        return self

    def __exit__(self, *a):
        sf.hbar = self.old


def make_op(o, h, ctx_build=None):
    s = math.sqrt(h / 2)
    name = o["op"]
    if name == "Gaussian":
        return ops.Gaussian(np.array(o["V"], dtype=float) * (s * s), None if o["r"] is None else np.array(o["r"], dtype=float) * s, decomp=o["decomp"])
    if name == "MeasureHomodyne":
        return ops.MeasureHomodyne(o["phi"], select=None if o["select"] is None else o["select"] * s)
    if name == "MSgate":
        return ops.MSgate(*o["p"], avg=o["avg"])
    if name == "Catstate":
        return ops.Catstate(*o["p"], representation=o.get("rep", "complex"))
    if name == "GKP":
        return ops.GKP(state=list(o["state"]), epsilon=o["eps"])
    if name == "MeasureHeterodyne":
        return ops.MeasureHeterodyne(select=None if o["select"] is None else complex(*o["select"]))
    if name == "MeasureFock":
        return ops.MeasureFock()
    if name in POWERS and ctx_build is not None and "ff" in o:
        op = getattr(ops, name)(o["ff"][1] * ctx_build["q"][o["ff"][0]].par)
    elif name in POWERS and ctx_build is not None and "sym" in o:
        op = getattr(ops, name)(ctx_build["prog"].params(o["sym"]))
        ctx_build["args"][o["sym"]] = o["p"][0] * s ** POWERS[name][0]
    elif name in POWERS:
        op = getattr(ops, name)(*[p * s ** k for p, k in zip(o["p"], POWERS[name])])
    else:
        op = getattr(ops, name)(*o["p"])
    if o.get("dg"):
        op = op.H
    return op


def build(spec, h):
    """With spec["share"], commands that are the same operation with the same parameters re-use ONE operation
    instance (the way `op = MeasureHomodyne(0, select=0.3); op | q[0]; op | q[1]` does)."""
    prog = sf.Program(spec["n"])
    cache = {}
    cb = {"prog": prog, "args": {}}
    with prog.context as q:
        cb["q"] = q
        for o in spec["ops"]:
            if spec.get("share"):
                key = json.dumps({k: v for k, v in o.items() if k != "m"}, sort_keys=True)
                if key not in cache:
                    cache[key] = make_op(o, h, cb)
                op = cache[key]
            else:
                op = make_op(o, h, cb)
            op | tuple(q[m] for m in o["m"])
    prog._c15_args = cb["args"]
    return prog


def run_kwargs(spec, prog):
    kw = dict(spec.get("run_opts", {}))
    if getattr(prog, "_c15_args", None):
        kw["args"] = dict(prog._c15_args)
    if spec.get("optimize"):
        kw["compile_options"] = {"optimize": True}
    if spec.get("shots"):
        kw["shots"] = spec["shots"]
    return kw


def new_engine(spec):
    opts = {"cutoff_dim": spec["cutoff"]} if spec["backend"] == "fock" else {}
    return sf.Engine(spec["backend"], backend_options=opts)


def fingerprint(prog):
    """The user-visible attributes of every operation object of a program (parameters, select, dagger)."""
    out = []
    for cmd in prog.circuit:
        op = cmd.op
        ps = []
        for x in getattr(op, "p", []):
            try:
                ps.append(np.asarray(x, dtype=complex).ravel().tolist())
            except Exception:
                ps.append(repr(x))
        out.append([type(op).__name__, repr(ps), repr(getattr(op, "select", None)), bool(getattr(op, "dagger", False)), [r.ind for r in cmd.reg]])
    return out


def spec_seed(spec):
    return int(hashlib.sha1(json.dumps(spec, sort_keys=True).encode()).hexdigest()[:8], 16)


def run_spec(spec, h, wrap=None, prog=None):
    """Run the experiment at hbar = h.  Caller holds Hbar(h)."""
    prog = build(spec, h) if prog is None else prog
    eng = new_engine(spec)
    if wrap is not None:
        wrap(eng.backend)
    np.random.seed(spec_seed(spec) % (2 ** 31))
    return eng.run(prog, **run_kwargs(spec, prog))


def _c(x):
    """canonical numpy array of (possibly complex) numbers"""
    return np.atleast_1d(np.asarray(x, dtype=complex)).ravel()


def observables(spec, h, which=None):
    """Dict name -> complex vector, every entry divided by its documented unit (so: hbar-free)."""
    with Hbar(h):
        return observables_of(run_spec(spec, h), spec, h, which)


def observables_of(res, spec, h, which=None):
    """Caller holds Hbar(h)."""
    out = {}
    rt = math.sqrt(h)
    q = spec["q"]
    n = spec["n"]
    be = spec["backend"]
    if True:
        st = res.state

        def put(name, fn):
            if which is not None and name not in which:
                return
            try:
                out[name] = _c(fn())
            except Exception as e:  # error kinds must agree too
                out[name] = "raises:" + type(e).__name__

        # measurement results, in program order
        def collect(kind, unit):
            idx, vals = {}, []
            for o in spec["ops"]:
                if o["op"] in ("MeasureHomodyne", "MeasureHeterodyne", "MeasureFock"):
                    for m in o["m"]:
                        i = idx.get(m, 0)
                        idx[m] = i + 1
                        if o["op"] == kind:
                            vals.extend(np.ravel(res.samples_dict[m][i]) / unit)
            return vals
        kinds = {o["op"] for o in spec["ops"]}
        if "MeasureHomodyne" in kinds:
            put("samples", lambda: collect("MeasureHomodyne", rt))
        if "MeasureHeterodyne" in kinds:
            put("samples:heterodyne", lambda: collect("MeasureHeterodyne", 1.0))
        if "MeasureFock" in kinds:
            put("samples:fock", lambda: collect("MeasureFock", 1.0))
        if be == "bosonic":
            put("ancillae_samples", lambda: [v / rt for k in sorted(res.ancillae_samples) for v in res.ancillae_samples[k]])
        alpha = np.array([complex(a, b) for a, b in q["alpha"]])
        xs = np.array(q["grid"]) * rt
        xs5 = np.linspace(-2.0, 2.0, 5) * rt
        k0 = q["subset"][0]
        # marginal densities of one quadrature (BaseState: Simpson integration of the Wigner function): density * sqrt(hbar)
        put("x_quad_values", lambda: st.x_quad_values(k0, xs5, xs5) * rt)
        put("p_quad_values", lambda: st.p_quad_values(k0, xs5, xs5) * rt)
        if be == "gaussian":
            put("means", lambda: st.means() / rt)
            put("cov", lambda: st.cov() / h)
            put("displacement", lambda: st.displacement())
            put("is_pure", lambda: [float(st.is_pure)])
            put("mean_photon", lambda: [st.mean_photon(k) for k in range(n)])
            put("quad_expectation", lambda: [[st.quad_expectation(k, q["phi"])[0] / rt, st.quad_expectation(k, q["phi"])[1] / h] for k in range(n)])
            put("fidelity_vacuum", lambda: st.fidelity_vacuum())
            put("fidelity_coherent", lambda: st.fidelity_coherent(alpha))
            put("fock_prob", lambda: st.fock_prob(q["fock"], cutoff=6))
            if n <= 2:
                put("all_fock_probs", lambda: st.all_fock_probs(cutoff=4))
            put("reduced_dm", lambda: st.reduced_dm([q["subset"][0]], cutoff=4))
            a0 = alpha[k0]
            put("fidelity", lambda: st.fidelity((np.array([a0.real, a0.imag]) * math.sqrt(2 * h), np.identity(2) * h / 2), k0))
            if n <= 2:
                put("dm", lambda: st.dm(cutoff=3))
                put("ket", lambda: (lambda kk: [0.0] if kk is None else kk)(st.ket(cutoff=3)))
            put("parity_expectation:all", lambda: st.parity_expectation(list(range(n))))
            if len(q["subset"]) < n:
                put("parity_expectation:subset", lambda: st.parity_expectation(q["subset"]))
            put("number_expectation", lambda: st.number_expectation(q["subset"]))
            put("poly_quad_expectation", lambda: st.poly_quad_expectation(np.array(q["A"]) / h, np.array(q["d"]) / rt, 0.3, phi=q["phi"]))
            put("poly_quad_expectation:linear", lambda: st.poly_quad_expectation(None, np.array(q["d"]) / rt))
            put("poly_quad_expectation:quadratic", lambda: st.poly_quad_expectation(np.array(q["A"]) / h))
            put("wigner", lambda: st.wigner(q["subset"][0], xs, xs) * h)
            # reduced_gaussian of a subset
            put("reduced_gaussian", lambda: np.concatenate([st.reduced_gaussian(q["subset"])[0] / rt, st.reduced_gaussian(q["subset"])[1].ravel() / h]))
            # query history: dimensionless classification queries, then the covariance again
            # dimensionless classification queries, each on a fresh copy of the state object
            put("is_coherent", lambda: [float(copy.deepcopy(st).is_coherent(k)) for k in range(n)])
            put("is_squeezed", lambda: [float(copy.deepcopy(st).is_squeezed(k)) for k in range(n)])
            # (r, phi) as r e^{i phi}; for an unsqueezed mode arccosh(1 +- ulp) is 0, 1e-8 or nan and phi is 0/0
            put("squeezing", lambda: [x for k in range(n) for x in copy.deepcopy(st).squeezing([k])[0]])
            # query histories on ONE object: a query must not change what later queries return
            for qn in ("is_coherent", "is_squeezed", "squeezing"):
                def hist(qn=qn):
                    s2 = copy.deepcopy(st)
                    for k in range(n):
                        getattr(s2, qn)(k) if qn != "squeezing" else s2.squeezing([k])
                    return np.concatenate([s2.cov().ravel() / h, s2.means() / rt, [s2.mean_photon(k)[0] for k in range(n)]])
                put("history:%s-then-cov" % qn, hist)
        elif be == "fock":
            put("all_fock_probs", lambda: st.all_fock_probs())
            put("trace", lambda: st.trace())
            put("reduced_dm", lambda: st.reduced_dm([k0]))
            put("number_expectation", lambda: st.number_expectation(q["subset"]))
            put("mean_photon", lambda: [st.mean_photon(k) for k in range(n)])
            put("quad_expectation", lambda: [[st.quad_expectation(k, q["phi"])[0] / rt, st.quad_expectation(k, q["phi"])[1] / h] for k in range(n)])
            put("fidelity_vacuum", lambda: st.fidelity_vacuum())
            put("fidelity_coherent", lambda: st.fidelity_coherent(alpha))
            put("fock_prob", lambda: st.fock_prob(q["fock"]))
            put("wigner", lambda: st.wigner(q["subset"][0], xs, xs) * h)
            put("poly_quad_expectation", lambda: st.poly_quad_expectation(np.array(q["A"]) / h, np.array(q["d"]) / rt, 0.3, phi=q["phi"]))
            put("parity_expectation:all", lambda: st.parity_expectation(list(range(n))))
        else:
            put("weights", lambda: st.weights())
            put("means", lambda: st.means() / rt)
            put("cov", lambda: st.covs() / h)
            put("displacement", lambda: st.displacement())
            put("mean_photon", lambda: [st.mean_photon(k) for k in range(n)])
            put("quad_expectation", lambda: [[st.quad_expectation(k, q["phi"])[0] / rt, st.quad_expectation(k, q["phi"])[1] / h] for k in range(n)])
            put("fidelity_vacuum", lambda: st.fidelity_vacuum())
            put("fidelity_coherent", lambda: st.fidelity_coherent(alpha))
            put("fock_prob", lambda: st.fock_prob(q["fock"]))
            put("parity_expectation:all", lambda: st.parity_expectation(list(range(n))))
            if len(q["subset"]) < n:
                put("parity_expectation:subset", lambda: st.parity_expectation(q["subset"]))
            put("wigner", lambda: st.wigner(q["subset"][0], xs, xs) * h)
            put("purity", lambda: st.purity())
            put("reduced_dm", lambda: st.reduced_dm([k0], cutoff=4))
            put("all_fock_probs", lambda: st.all_fock_probs(cutoff=3))
            put("number_expectation", lambda: st.number_expectation(q["subset"]))
            put("marginal", lambda: st.marginal(k0, xs5, phi=q["phi"]) * rt)
        # every query above was made on ONE state object: none of them may have changed what the object holds,
        # and asking again must give the same answers
        def final_state():
            if be == "gaussian":
                return np.concatenate([st.means() / rt, st.cov().ravel() / h])
            if be == "bosonic":
                return np.concatenate([_c(st.weights()), _c(st.means()).ravel() / rt, _c(st.covs()).ravel() / h])
            return _c(st.dm()).ravel() if n == 1 else _c(st.all_fock_probs()).ravel()
        put("history:state-after-all-queries", final_state)
        put("history:requery", lambda: np.concatenate([_c([st.mean_photon(k) for k in range(n)]), _c(st.fidelity_vacuum()),
                                                        _c([st.quad_expectation(k, q["phi"])[0] / rt for k in range(n)]),
                                                        _c(st.fidelity_coherent(alpha)), _c(st.fock_prob(q["fock"]))]))
    return out


PURE_DEPENDENT = {"reduced_dm", "fock_prob", "all_fock_probs"}


def squeezing_differs(a, b):
    """(r, phi) pairs.  Rounding-level artefacts of the formulas are not differences: for an unsqueezed mode
    arccosh(1 +- ulp) is 0, 1e-8 or nan and phi is 0/0; at |phi| = pi/2 arcsin(1 + ulp) is nan."""
    if isinstance(a, str) or isinstance(b, str) or a.shape != b.shape:
        return True
    for i in range(0, len(a), 2):
        r1, p1, r2, p2 = a[i].real, a[i + 1].real, b[i].real, b[i + 1].real
        z1 = (not np.isfinite(r1)) or abs(r1) < 1e-6
        z2 = (not np.isfinite(r2)) or abs(r2) < 1e-6
        if z1 or z2:
            if z1 != z2:
                return True
            continue
        if abs(r1 - r2) > 1e-6:
            return True
        if np.isfinite(p1) and np.isfinite(p2):
            if abs(np.exp(1j * p1) - np.exp(1j * p2)) > 1e-5:
                return True
        else:
            for p_ in (p1, p2):
                if np.isfinite(p_) and abs(abs(p_) - np.pi / 2) > 1e-5:
                    return True
    return False


def differs(a, b, tol=1e-7):
    if isinstance(a, str) or isinstance(b, str):
        return a != b if (isinstance(a, str) and isinstance(b, str)) else True
    if a.shape != b.shape:
        return True
    if not (np.all(np.isfinite(a)) and np.all(np.isfinite(b))):
        return not np.array_equal(np.isfinite(a), np.isfinite(b))
    scale = max(1.0, float(np.max(np.abs(a))) if a.size else 1.0)
    return bool(np.max(np.abs(a - b)) > tol * scale) if a.size else False


def _short(v):
    if isinstance(v, str):
        return v
    return [complex(round(x.real, 9), round(x.imag, 9)).__repr__() for x in v[:8]]


def diff_obs(spec, o1, o2):
    """Names (with both values) of observables whose unit-free values differ."""
    bad = []
    # non-Gaussian bosonic states are sums of Gaussians with large alternating weights: cancellation noise ~1e-6
    tol = 1e-4 if (spec["backend"] == "bosonic" and any(o["op"] in ("Fock", "Catstate", "GKP") for o in spec["ops"])) else 1e-7
    for k in sorted(o1):
        if k == "squeezing" and k in o2:
            if squeezing_differs(o1[k], o2[k]):
                bad.append((k, _short(o1[k]), _short(o2[k])))
            continue
        if k not in o2 or differs(o1[k], o2[k], tol):
            bad.append((k, _short(o1[k]), _short(o2.get(k, "missing"))))
    if spec["backend"] == "gaussian" and any(k == "is_pure" for k, _, _ in bad):
        # is_pure selects the code path of these queries; same root cause
        bad = [(("is_pure" if k in PURE_DEPENDENT else k), a, b) for k, a, b in bad]
    return bad


def compare_pair(spec, h1, h2, which=None):
    """Names of observables whose unit-free value differs between the two conventions."""
    o1 = observables(spec, h1, which)
    o2 = observables(spec, h2, which)
    return diff_obs(spec, o1, o2), len(o1)


# ---- object re-use histories: the same Program / operation objects applied several times ----------------------

UNIT_OPS = ("Xgate", "Zgate", "Vgate", "MeasureHomodyne", "MSgate", "Gaussian")


def gen_reuse_spec(rng, backend):
    """A circuit in which operation instances that convert units at apply time are re-used on several modes."""
    spec = gen_spec(rng, backend)
    spec["share"] = True
    n = spec["n"]
    opsl = spec["ops"]
    if not any(o["op"] == "MeasureHomodyne" and o["select"] for o in opsl) and not (backend == "bosonic" and n == 1) and rng.random() < 0.7:
        opsl.append({"op": "MeasureHomodyne", "phi": draw(rng, "a"), "select": rng.choice([-1, 1]) * _r3(rng.uniform(0.2, 1.0)), "m": [rng.randrange(n)], "dg": False})
    if not has_hbar_op(spec):
        opsl.append({"op": rng.choice(["Xgate", "Zgate"]), "p": [_r3(rng.uniform(0.3, 1.2))], "m": [rng.randrange(n)], "dg": False})
    # the same instance applied again (other mode when there is one)
    cand = [i for i, o in enumerate(opsl) if o["op"] in UNIT_OPS and not (o["op"] == "MSgate" and o["avg"])]
    for i in rng.sample(cand, min(len(cand), rng.randint(1, 2))):
        o = copy.deepcopy(opsl[i])
        k = len(o["m"])
        if n > k or k == 1:
            others = [m for m in range(n) if m not in o["m"]] or list(range(n))
            o["m"] = sorted(rng.sample(others, k)) if len(others) >= k else o["m"]
        if o["op"] == "MeasureHomodyne" and backend == "bosonic" and len({x["m"][0] for x in opsl if x["op"] == "MeasureHomodyne"} | {o["m"][0]}) >= n:
            continue  # keep one unmeasured mode on the bosonic backend
        opsl.insert(i + 1, o)
    return spec


def reuse_history(spec, h, runs, style, which=None):
    """Observables of every one of `runs` executions of ONE Program object (style 'reset': one engine, reset
    between runs; 'fresh': a new engine per run), plus whether the operations' own attributes changed."""
    outs = []
    with Hbar(h):
        prog = build(spec, h)
        fp0 = fingerprint(prog)
        eng = None
        for r in range(runs):
            if style == "fresh" or eng is None:
                eng = new_engine(spec)
            elif style == "reset":
                eng.reset()
            # style "continue": the program is applied again to the state the previous run left behind
            np.random.seed(spec_seed(spec) % (2 ** 31))
            res = eng.run(prog, **run_kwargs(spec, prog))
            o = observables_of(res, spec, h, which)
            fp = fingerprint(prog)
            if which is None or "op-attributes" in which:
                ch = [a for a, b in zip(fp0, fp) if a != b]
                o["op-attributes"] = "unchanged" if fp == fp0 else "changed: %s" % (ch[0][0] if ch else "length")
            outs.append(o)
    return outs


def reuse_eval(spec, h, runs, style, which=None):
    """Every run at hbar = h against the corresponding run of the same history at hbar = 2 (where every unit
    conversion is the identity), so that only the dependence on hbar is judged, not what re-running does."""
    ref = reuse_history(spec, 2.0, runs, style, which)
    hist = reuse_history(spec, h, runs, style, which)
    bad = []
    for r, (o, o2) in enumerate(zip(hist, ref)):
        for name, v1, v2 in diff_obs(spec, o, o2):
            bad.append((r + 1, name, v1, v2))
    return bad, sum(len(o) for o in hist)


def _search_reuse(ctx, rng):
    for i in range(ctx.budget(60, 700)):
        be = ["gaussian", "bosonic", "fock"][i % 3]
        spec = gen_reuse_spec(rng, be)
        h = rng.choice([x for x in HBARS if x != 2.0]) if rng.random() < 0.7 else _r3(rng.uniform(0.3, 5.0))
        runs = rng.choice([2, 2, 3])
        style = rng.choice(["reset", "fresh", "continue"] if be != "bosonic" else ["reset", "fresh"])
        try:
            bad, nobs = reuse_eval(spec, h, runs, style)
        except Exception as e:
            ctx.case({"reuse": spec_seed(spec), "h": h, "error": type(e).__name__}, nontrivial=False, bucket="reuse-error:%s:%s" % (be, type(e).__name__))
            continue
        ctx.case({"reuse": True, "backend": be, "n": spec["n"], "ops": [[o["op"], o["m"]] for o in spec["ops"]], "h": h, "runs": runs, "style": style},
                 nontrivial=True, bucket="reuse:%s:%s" % (be, style))
        ctx.extra["observables_compared"] = ctx.extra.get("observables_compared", 0) + nobs
        seen = set()
        for r, name, v1, v2 in bad:
            sig = "%s:%s%s" % (be, name, "" if r == 1 else ":rerun")
            if sig in seen:
                continue
            seen.add(sig)
            ctx.counterexample(sig, "run %d of %d (%s) of one Program object at hbar=%s: %s (unit divided out) is %s, the hbar=2 reference gives %s"
                               % (r, runs, style, h, name, v1, v2),
                               {"check": "reuse", "spec": spec, "h": h, "runs": runs, "style": style, "obs": name, "run": r})


# signature of an observable-level failure (no finding is recorded for C15 any more: every one is a VIOLATION)
def signature(spec, name):
    return "%s:%s" % (spec["backend"], name)


# ------------------------------------------------------------------------------------------------
# the search: the property's own predicate on the implementation

def search(ctx):
    rng = ctx.rng
    try:
        _search(ctx, rng)
    finally:
        sf.hbar = 2


def _search(ctx, rng):
    # (corpus/C15-*.json is replayed by the runner before this phase)
    n_cases = ctx.budget(300, 3200)
    for i in range(n_cases):
        be = ["gaussian", "bosonic", "fock", "gaussian"][i % 4]
        spec = gen_spec(rng, be)
        if rng.random() < 0.08:
            spec = malform(rng, spec)
            be = spec["backend"]
        h1, h2 = draw_hbar_pair(rng)
        if spec.get("malformed") in ("gauss-V-unphysical", "param-inf"):
            # accepted garbage (an unphysical covariance matrix, infinite parameters) has no stable observables:
            # only acceptance / the kind of rejection must be the same in both conventions
            k1, k2 = _runs(spec, h1), _runs(spec, h2)
            if k1 != k2:
                ctx.counterexample("%s:run-raises" % be, "the experiment runs at hbar=%s (%s) but not at hbar=%s (%s)" % (h1, k1, h2, k2),
                                   {"check": "pair", "spec": spec, "h1": h1, "h2": h2, "obs": "run"})
            ctx.case({"spec_hash": spec_seed(spec), "malformed": spec["malformed"], "h": [h1, h2], "both": [k1, k2]}, nontrivial=False,
                     bucket="malformed:%s:%s" % (spec["malformed"], k1))
            continue
        try:
            bad, nobs = compare_pair(spec, h1, h2)
        except Exception as e:
            # the experiment itself must be runnable (or fail alike) in both conventions
            k1 = _runs(spec, h1)
            k2 = _runs(spec, h2)
            if k1 != k2:
                ctx.counterexample("%s:run-raises" % be, "the experiment runs at hbar=%s (%s) but not at hbar=%s (%s)" % (h1, k1, h2, k2),
                                   {"check": "pair", "spec": spec, "h1": h1, "h2": h2, "obs": "run"})
            ctx.case({"spec_hash": spec_seed(spec), "malformed": spec.get("malformed"), "h": [h1, h2], "error": type(e).__name__, "both": [k1, k2]},
                     nontrivial=False, bucket="error:%s:%s" % (spec.get("malformed", "valid"), type(e).__name__))
            continue
        nt = has_hbar_op(spec) and h1 != 2 and h2 != 2
        ctx.case({"backend": be, "n": spec["n"], "ops": [o["op"] for o in spec["ops"]], "h": [h1, h2], "spec_hash": spec_seed(spec)},
                 nontrivial=nt, bucket=be if "malformed" not in spec else "malformed-accepted:" + spec["malformed"])
        for o in spec["ops"]:
            ctx.hist["op:" + o["op"]] = ctx.hist.get("op:" + o["op"], 0) + 1
        ctx.extra["observables_compared"] = ctx.extra.get("observables_compared", 0) + nobs
        for name, v1, v2 in bad:
            ctx.counterexample(signature(spec, name),
                               "%s on the %s backend is not hbar-independent after dividing out its unit: hbar=%s gives %s, hbar=%s gives %s"
                               % (name, be, h1, v1, h2, v2),
                               {"check": "pair", "spec": spec, "h1": h1, "h2": h2, "obs": name})
    _search_reuse(ctx, rng)
    _search_units(ctx, rng)
    _search_utils(ctx, rng)


def _runs(spec, h):
    try:
        with Hbar(h):
            run_spec(spec, h)
        return "ok"
    except Exception as e:
        return type(e).__name__


def units_case(rng):
    n = rng.randint(1, 3)
    r, V = rand_sympl_cov(rng, n)
    return {"n": n, "r": r, "V": V, "decomp": rng.random() < 0.5, "k": rng.randrange(n), "x": _r3(rng.uniform(-1.5, 1.5)),
            "p": _r3(rng.uniform(-1.5, 1.5)), "sel": _r3(rng.uniform(-1, 1)), "phi": draw(rng, "a"), "dg": rng.random() < 0.3}


def units_eval(case, h):
    """Documented units in ONE convention: Gaussian(V, r) is read back as (V, r); Xgate(x)/Zgate(p) shift the
    means by exactly x / p; MeasureHomodyne(select=v) reports v.  V, r, x, p, select are plain numbers in the
    units of that hbar."""
    n, k = case["n"], case["k"]
    s = math.sqrt(h / 2)
    V = np.array(case["V"]) * s * s
    r = np.array(case["r"]) * s
    bad = []

    def readback(hh):
        ss = math.sqrt(hh / 2)
        with Hbar(hh):
            pg = sf.Program(n)
            with pg.context as q:
                ops.Gaussian(np.array(case["V"]) * ss * ss, np.array(case["r"]) * ss, decomp=case["decomp"]) | tuple(q[i] for i in range(n))
            st_ = sf.Engine("gaussian").run(pg).state
            return st_.cov() / (ss * ss), st_.means() / ss

    cov_h, mu_h = readback(h)
    if case["decomp"]:
        # the decomposition is C02's business; here only: same state (in units of hbar) as at hbar = 2
        cov_2, mu_2 = readback(2)
    else:
        cov_2, mu_2 = np.array(case["V"]), np.array(case["r"])
    if differs(_c(cov_h), _c(cov_2), 1e-7):
        bad.append(("gaussian-prep:cov-readback", _short(_c(cov_h)), _short(_c(cov_2))))
    if differs(_c(mu_h), _c(mu_2), 1e-7):
        bad.append(("gaussian-prep:means-readback", _short(_c(mu_h)), _short(_c(mu_2))))
    with Hbar(h):
        prog = sf.Program(n)
        with prog.context as q:
            ops.Gaussian(V, r, decomp=case["decomp"]) | tuple(q[i] for i in range(n))
            (ops.Xgate(case["x"]).H if case["dg"] else ops.Xgate(case["x"])) | q[k]
            ops.Zgate(case["p"]) | q[k]
            ops.MeasureHomodyne(case["phi"], select=case["sel"]) | q[(k + 1) % n]
        # a post-selected homodyne draws its unreported conjugate quadrature from numpy's global generator (finite-squeezing
        # projector, eps = 2e-4): the two runs compared below must see the same draw, or their means differ by ~1e-6 * sqrt(hbar)
        # (false alarm of the thorough tier, seed 5, hbar = 7.3)
        np.random.seed(97531)
        res = sf.Engine("gaussian").run(prog)
        exp = r.copy()
        if (k + 1) % n != k:
            m = res.state.means()
            sx = -case["x"] if case["dg"] else case["x"]
            # the measured mode is reset; with n > 1 the conditioning moves every mean, so compare against the
            # same circuit without the gates instead
            prog0 = sf.Program(n)
            with prog0.context as q:
                ops.Gaussian(V, r, decomp=case["decomp"]) | tuple(q[i] for i in range(n))
                ops.MeasureHomodyne(case["phi"], select=case["sel"]) | q[(k + 1) % n]
            np.random.seed(97531)
            m0 = sf.Engine("gaussian").run(prog0).state.means()
            d = m - m0
            want = np.zeros(2 * n)
            want[k] = sx
            want[n + k] = case["p"]
            if differs(_c(d), _c(want), 1e-6):
                bad.append(("xz-gate:shift", _short(_c(d)), _short(_c(want))))
        got = res.samples_dict[(k + 1) % n][-1]
        if differs(_c(got), _c(case["sel"]), 1e-9):
            bad.append(("homodyne:select-readback", _short(_c(got)), _short(_c(case["sel"]))))
    return bad


def _search_units(ctx, rng):
    for _ in range(ctx.budget(50, 1000)):
        case = units_case(rng)
        h = rng.choice(HBARS) if rng.random() < 0.7 else _r3(rng.uniform(0.3, 5))
        # the same numbers x, p, select again in another convention (anything remembered from the first must not leak)
        h_other = rng.choice([x for x in HBARS if x != h])
        bad = units_eval(case, h)
        bad_other = units_eval(case, h_other)
        ctx.case({"units": case, "h": [h, h_other]}, nontrivial=h != 2, bucket="units")
        for name, got, want in bad_other:
            ctx.counterexample("units:" + name, "at hbar=%s (after the same call at hbar=%s) %s: got %s, documented %s" % (h_other, h, name, got, want),
                               {"check": "units2", "case": case, "h": h, "h2": h_other, "obs": name})
        for name, got, want in bad:
            ctx.counterexample("units:" + name, "at hbar=%s %s: got %s, documented %s" % (h, name, got, want),
                               {"check": "units", "case": case, "h": h, "obs": name})


# ---- utils/states.py: every function, both bases, zero / non-zero value of every parameter ---------------------

# name -> (parameter names, has hbar/basis arguments, op that prepares the same state)
UTIL_FUNCS = {
    "vacuum": ([], True),
    "coherent": (["r", "phi"], True),
    "squeezed": (["rs", "phis"], True),
    "displaced_squeezed": (["r", "phi", "rs", "phis"], True),
    "fock": (["n"], False),
    "cat": (["a", "phi", "p"], False),
}
UTIL_NONZERO = {"r": [0.6, 1.0, 0.25], "phi": [0.7, HALFPI, -2.2, math.pi], "rs": [0.4, -0.5, 0.15], "phis": [1.1, HALFPI, -0.6, math.pi],
                "n": [1, 2, 3], "a": [0.7, 1.1], "p": [1, 0.5]}


def util_call(kind, pr, basis, dim, h):
    from strawberryfields.utils import states as us
    kw = {"basis": basis, "fock_dim": dim, "hbar": h}
    if kind == "vacuum":
        return us.vacuum_state(**kw)
    if kind == "coherent":
        return us.coherent_state(pr["r"], pr["phi"], **kw)
    if kind == "squeezed":
        return us.squeezed_state(pr["rs"], pr["phis"], **kw)
    if kind == "displaced_squeezed":
        return us.displaced_squeezed_state(pr["r"], pr["phi"], pr["rs"], pr["phis"], **kw)
    if kind == "fock":
        return us.fock_state(pr["n"], fock_dim=dim)
    return us.cat_state(pr["a"], pr["phi"], pr["p"], fock_dim=dim)


def util_op(kind, pr):
    if kind == "vacuum":
        return ops.Vacuum()
    if kind == "coherent":
        return ops.Coherent(pr["r"], pr["phi"])
    if kind == "squeezed":
        return ops.Squeezed(pr["rs"], pr["phis"])
    if kind == "displaced_squeezed":
        return ops.DisplacedSqueezed(pr["r"], pr["phi"], pr["rs"], pr["phis"])
    if kind == "fock":
        return ops.Fock(pr["n"])
    return ops.Catstate(pr["a"], pr["phi"], pr["p"])


def utils_cases_sweep():
    """Deterministic: every function x every zero / non-zero pattern of its parameters x both bases."""
    out = []
    for kind, (names, has_h) in UTIL_FUNCS.items():
        for mask in range(2 ** len(names)):
            pr = {}
            for i, nm in enumerate(names):
                zero = not (mask >> i) & 1
                pr[nm] = (0 if nm in ("n", "p") else 0.0) if zero else UTIL_NONZERO[nm][(mask + i) % len(UTIL_NONZERO[nm])]
            for basis in (("gaussian", "fock") if has_h else ("fock",)):
                out.append({"kind": kind, "p": pr, "basis": basis, "dim": 6})
    return out


def utils_case(rng):
    kind = rng.choice(sorted(UTIL_FUNCS))
    names, has_h = UTIL_FUNCS[kind]
    pr = {}
    for nm in names:
        if rng.random() < 0.3:
            pr[nm] = 0 if nm in ("n", "p") else 0.0
        elif nm in ("n", "p"):
            pr[nm] = rng.choice(UTIL_NONZERO[nm])
        elif nm in ("phi", "phis"):
            pr[nm] = draw(rng, "a")
        else:
            pr[nm] = _r3(rng.uniform(-0.7, 0.7)) if nm == "rs" else _r3(rng.uniform(0.05, 1.0))
    return {"kind": kind, "p": pr, "basis": rng.choice(["gaussian", "fock"]) if has_h else "fock", "dim": rng.choice([5, 6, 8])}


def utils_eval(case, h):
    """utils.states.<kind>_state(..., hbar=h): means ~ sqrt(hbar), cov ~ hbar; equal to the state the corresponding
    preparation produces on a backend at sf.hbar = h; dimensionless predictions of the loaded state hbar-free;
    Fock-basis kets independent of hbar and equal to the Fock backend's preparation."""
    kind, pr, basis, dim = case["kind"], case["p"], case["basis"], case["dim"]
    bad = []

    def chk(name, got, want, tol=1e-8):
        if differs(_c(got), _c(want), tol):
            bad.append((name, _short(_c(got)), _short(_c(want))))

    if basis == "gaussian":
        ref = util_call(kind, pr, "gaussian", dim, h)
        ref2 = util_call(kind, pr, "gaussian", dim, 2.0)
        chk("means-scale", np.asarray(ref[0]) / math.sqrt(h), np.asarray(ref2[0]) / math.sqrt(2))
        chk("cov-scale", np.asarray(ref[1]) / h, np.asarray(ref2[1]) / 2)

        def load(state, hh):
            with Hbar(hh):
                pg = sf.Program(1)
                with pg.context as q:
                    ops.Gaussian(np.array(state[1], dtype=float), np.array(state[0], dtype=float), decomp=False) | q[0]
                st_ = sf.Engine("gaussian").run(pg).state
                return st_, np.concatenate([_c(st_.mean_photon(0)), _c(st_.all_fock_probs(cutoff=dim)), _c(st_.fidelity_vacuum()), _c(st_.displacement())])
        with Hbar(h):
            prog = sf.Program(1)
            with prog.context as q:
                util_op(kind, pr) | q[0]
            st = sf.Engine("gaussian").run(prog).state
            chk("means-vs-engine", ref[0], st.means())
            chk("cov-vs-engine", ref[1], st.cov())
        st_h, dl_h = load(ref, h)
        with Hbar(h):
            chk("gaussian-roundtrip", np.concatenate([st_h.means(), st_h.cov().ravel()]), np.concatenate([np.asarray(ref[0]), np.asarray(ref[1]).ravel()]), 1e-7)
        _, dl_2 = load(ref2, 2.0)
        chk("loaded-dimensionless", dl_h, dl_2, 1e-7)
        # the two bases describe the same state: photon statistics of the loaded Gaussian state = |ket|^2
        ket = np.asarray(util_call(kind, pr, "fock", dim, h))
        chk("gaussian-vs-fock-basis-probs", dl_h[2:2 + dim], np.abs(ket) ** 2, 1e-6)
    else:
        ket = np.asarray(util_call(kind, pr, "fock", dim, h))
        ket2 = np.asarray(util_call(kind, pr, "fock", dim, 2.0))
        chk("ket-hbar-free", ket, ket2)
        with Hbar(h):
            prog = sf.Program(1)
            with prog.context as q:
                util_op(kind, pr) | q[0]
            st = sf.Engine("fock", backend_options={"cutoff_dim": dim}).run(prog).state
            bk = st.ket() if st.is_pure else None
            if bk is not None:
                # (neither side renormalises the truncated ket)
                chk("ket-vs-fock-backend", np.abs(bk) ** 2, np.abs(ket) ** 2, 1e-6)
                chk("quad-vs-fock-backend", [st.quad_expectation(0, 0.3)[0] / math.sqrt(h)], [_ket_quad(ket, 0.3)], 1e-6)
    return bad


def _ket_quad(ket, phi):
    """<x_phi>/sqrt(hbar) of a ket in the truncated space: sqrt(2) Re(e^{-i phi} <a>)"""
    a = sum(np.conj(ket[n]) * np.sqrt(n + 1) * ket[n + 1] for n in range(len(ket) - 1))
    return float(np.sqrt(2) * np.real(np.exp(-1j * phi) * a))


def _search_utils(ctx, rng):
    hs = [0.5, 3.0, rng.choice([1.0, 0.25, 4.0, 1.7, 7.3])]
    todo = [(c, h) for c in utils_cases_sweep() for h in hs]
    for _ in range(ctx.budget(60, 1500)):
        todo.append((utils_case(rng), rng.choice(HBARS) if rng.random() < 0.7 else _r3(rng.uniform(0.3, 5))))
    for case, h in todo:
        try:
            bad = utils_eval(case, h)
        except Exception as e:
            k2 = "ok"
            try:
                utils_eval(case, 2.0)
            except Exception as e2:
                k2 = type(e2).__name__
            if k2 != type(e).__name__:
                ctx.counterexample("utils.states:%s:%s:raises" % (case["kind"], case["basis"]), "raises %s at hbar=%s but %s at hbar=2" % (type(e).__name__, h, k2),
                                   {"check": "utils", "case": case, "h": h, "obs": "raises"})
            ctx.case({"utils": case, "h": h, "error": type(e).__name__}, nontrivial=False, bucket="utils-error:%s:%s" % (case["kind"], type(e).__name__))
            continue
        zeros = sum(1 for v in case["p"].values() if v == 0)
        ctx.case({"utils": case, "h": h}, nontrivial=h != 2, bucket="utils:%s:%s:zeros%d" % (case["kind"], case["basis"], zeros))
        for name, got, want in bad:
            ctx.counterexample("utils.states:%s:%s:%s" % (case["kind"], case["basis"], name),
                               "utils.states %s (basis=%s, parameters %s, hbar=%s): %s: got %s, expected %s" % (case["kind"], case["basis"], case["p"], h, name, got, want),
                               {"check": "utils", "case": case, "h": h, "obs": name})


# ------------------------------------------------------------------------------------------------
# correspondence (A): what the front end hands to the backend API, observed by wrapping backend methods

def wrap_backend(log):
    def wrap(backend):
        def w(name, fn):
            orig = getattr(backend, name, None)
            if orig is None:
                return
            setattr(backend, name, fn(orig))

        w("displacement", lambda orig: (lambda r, phi, mode: (log.append(["disp", float(r), float(phi), int(mode)]), orig(r, phi, mode))[1]))
        w("cubic_phase", lambda orig: (lambda gamma, mode: (log.append(["cubic", float(gamma), int(mode)]), orig(gamma, mode))[1]))

        def prep(orig):
            def f(r, V, modes):
                log.append(["prep", [float(x) for x in r], [[float(x) for x in row] for row in np.asarray(V)], [int(m) for m in (modes if not isinstance(modes, int) else [modes])]])
                return orig(r, V, modes)
            return f
        w("prepare_gaussian_state", prep)

        def homo(orig):
            def f(phi, mode, shots=1, select=None, **kw):
                val = orig(phi, mode, shots=shots, select=select, **kw)
                log.append(["homo", float(phi), int(mode), None if select is None else float(select), float(np.ravel(val)[0])])
                return val
            return f
        w("measure_homodyne", homo)

        def ms(orig):
            def f(mode, r, phi, r_anc, eta_anc):
                val = orig(mode, r, phi, r_anc, eta_anc)
                log.append(["ms", [float(r), float(phi), float(r_anc), float(eta_anc)], int(mode), float(val)])
                return val
            return f
        w("mb_squeeze_single_shot", ms)
    return wrap


def gen_corr_spec(rng):
    spec = gen_spec(rng)
    spec.pop("optimize", None)  # (merging changes the call sequence; the search covers it)
    spec.pop("shots", None)
    for o in spec["ops"]:
        if "ff" in o:  # parameter known only at run time
            o.pop("ff")
            o["op"], o["p"] = "Rgate", [0.3]
        if "sym" in o and o["p"][0] == 0:  # a symbolic zero is not skipped by Gate.apply
            o.pop("sym")
        if o["op"] == "Dgate":  # its displacement call would be indistinguishable from Xgate's in the log
            o["op"], o["p"] = "Rgate", [o["p"][1]]
        if o["op"] in ("Coherent", "DisplacedSqueezed") and spec["backend"] == "bosonic":
            o["op"], o["p"] = "Squeezed", [0.2, 0.1]
    return spec


def F(x):
    return coq.coq_float(x)


def coq_ctx(h):
    return "(mkH %s %s %s)" % (F(h), F(np.sqrt(h / 2)), F(np.sqrt(2 * h)))


def coq_ops(spec, h):
    """The program as model ops, parameters exactly the numbers make_op passes to the op constructors."""
    s = math.sqrt(h / 2)
    out = []
    for o in spec["ops"]:
        name = o["op"]
        k = o["m"][0]
        dg = coq.coq_bool(bool(o.get("dg")))
        if name in ("Xgate", "Zgate", "Vgate"):
            val = o["p"][0] * s ** POWERS[name][0]
            out.append("@%s float %s %d %s" % ({"Xgate": "Xg", "Zgate": "Zg", "Vgate": "Vg"}[name], F(val), k, dg))
        elif name == "Gaussian":
            V = np.array(o["V"], dtype=float) * (s * s)
            r = np.zeros(len(o["V"])) if o["r"] is None else np.array(o["r"], dtype=float) * s
            out.append("@%s float %s %s %s" % ("GaussDecomp" if o["decomp"] else "GaussDirect",
                                              coq.coq_list([coq.coq_list(row, F) for row in V]), coq.coq_list(r, F), coq.coq_list(o["m"], str)))
        elif name == "MeasureHomodyne":
            sel = "None" if o["select"] is None else "(Some %s)" % F(o["select"] * s)
            out.append("@Homo float %s %d %s" % (F(o["phi"]), k, sel))
        elif name == "MSgate" and not o["avg"]:
            out.append("@MSsingle float %s %d" % (coq.coq_list(o["p"], F), k))
        else:
            out.append("@Free float 0 (@nil float) %s" % coq.coq_list(o["m"], str))
    return coq.coq_list(out)


def close(a, b, tol=1e-12):
    return abs(a - b) <= tol * max(1.0, abs(a), abs(b))


def same_log(impl, model):
    """impl: python log entries; model: parsed list of call constructors (CFree dropped).  Returns None or a message."""
    if len(impl) != len(model):
        return "different number of backend calls: impl %d, model %d" % (len(impl), len(model))
    for a, b in zip(impl, model):
        kind = {"disp": "CDisp", "cubic": "CCubic", "prep": "CPrep", "homo": "CHomo", "ms": "CMS"}[a[0]]
        if not isinstance(b, tuple) or b[0] != kind:
            return "call kinds differ: impl %s, model %s" % (a[0], b)
        if kind == "CDisp":
            ok = close(a[1], b[1]) and close(a[2], b[2]) and a[3] == b[3]
        elif kind == "CCubic":
            ok = close(a[1], b[1]) and a[2] == b[2]
        elif kind == "CPrep":
            ok = len(a[1]) == len(b[1]) and all(close(x, y) for x, y in zip(a[1], b[1])) and \
                len(a[2]) == len(b[2]) and all(close(x, y) for ra, rb in zip(a[2], b[2]) for x, y in zip(ra, rb)) and a[3] == list(b[3])
        elif kind == "CHomo":
            sb = b[3]
            sb = None if sb is None else sb[1]
            ok = close(a[1], b[1]) and a[2] == b[2] and ((a[3] is None and sb is None) or (a[3] is not None and sb is not None and close(a[3], sb)))
        else:
            ok = all(close(x, y) for x, y in zip(a[1], b[1])) and a[2] == b[2]
        if not ok:
            return "arguments differ: impl %s, model %s" % (a, b)
    return None


def corr_frontend(ctx):
    rng = ctx.rng
    n_cases = ctx.budget(400, 4000)
    cases = []
    for _ in range(n_cases):
        spec = gen_corr_spec(rng)
        h = rng.choice(HBARS) if rng.random() < 0.6 else _r3(rng.uniform(0.3, 5.0))
        log = []
        log2 = None
        try:
            with Hbar(h):
                prog = build(spec, h)
                res = run_spec(spec, h, wrap=wrap_backend(log), prog=prog)
                if rng.random() < 0.4:
                    # the same Program object on a second engine: the backend must be handed the same numbers again
                    log2 = []
                    run_spec(spec, h, wrap=wrap_backend(log2), prog=prog)
                gaussV = []
                for o in spec["ops"]:
                    if o["op"] == "Gaussian" and o["decomp"]:
                        gaussV.append([float(x) for x in np.asarray(make_op(o, h).p[0]).ravel()])
                outs = []
                homo_modes = [o["m"][0] for o in spec["ops"] if o["op"] == "MeasureHomodyne"]
                samples = {m: list(res.samples_dict.get(m, [])) for m in set(homo_modes)}
                anc = res.ancillae_samples or {}
        except Exception as e:
            ctx.case({"corr": "frontend", "error": type(e).__name__}, bucket="corrA-error:" + type(e).__name__)
            continue
        # outcomes in program order
        idx = {m: 0 for m in samples}
        aidx = {}
        for o in spec["ops"]:
            if o["op"] == "MeasureHomodyne":
                m = o["m"][0]
                outs.append(["OHomodyne", float(np.ravel(samples[m][idx[m]])[0])])
                idx[m] += 1
            elif o["op"] == "MSgate" and not o["avg"]:
                m = o["m"][0]
                outs.append(["OAncilla", float(anc[m][aidx.get(m, 0)])])
                aidx[m] = aidx.get(m, 0) + 1
        draws = [e[-1] for e in log if e[0] in ("homo", "ms")]
        cases.append((spec, h, log, gaussV, outs, draws, log2))
        ctx.case({"corr": "frontend", "backend": spec["backend"], "ops": [o["op"] for o in spec["ops"]], "h": h},
                 nontrivial=has_hbar_op(spec) and h != 2, bucket="corrA:" + spec["backend"])
    sf.hbar = 2
    for si in range(0, len(cases), 300):
        sh = cases[si:si + 300]
        lines = ["From Coq Require Import List PrimFloat.", "Import ListNotations.", "From SFV Require Import C15.Model C15.Exec.",
                 "Eval vm_compute in ["]
        items = []
        for spec, h, log, gaussV, outs, draws, log2 in sh:
            items.append("run_rec %s %s %s %s" % (coq_ctx(h), F(HALFPI), coq_ops(spec, h), coq.coq_list(draws, F)))
        lines.append(";\n".join(items) + "].")
        ok, vals, raw = ctx.coq_eval("cases_frontend_%d" % (si // 300), "\n".join(lines))
        if not ok:
            ctx.obligation("correspondence:frontend:shard%d" % (si // 300), False, raw)
            return
        for (spec, h, log, gaussV, outs, draws, log2), mv in zip(sh, vals[0]):
            mlog, mouts = mv
            mfree = [c for c in mlog if isinstance(c, tuple) and c[0] == "CFree" and c[1] == 99]
            mcalls = [c for c in mlog if not (isinstance(c, tuple) and c[0] == "CFree")]
            msg = same_log(log, mcalls)
            if msg is None and log2 is not None:
                # (returned sample values of the second run are not compared: only what the backend is asked to do)
                msg2 = same_log([e[:-1] + [None] if e[0] in ("homo", "ms") else e for e in log2], mcalls)
                if msg2 is not None:
                    msg = "second run of the same Program object: " + msg2
            if msg is None:
                if len(mfree) != len(gaussV) or any(len(a[2]) != len(b) or not all(close(x, y) for x, y in zip(a[2], b)) for a, b in zip(mfree, gaussV)):
                    msg = "Gaussian.p[0] (V / (hbar/2)) differs: impl %s, model %s" % (gaussV, [a[2] for a in mfree])
            if msg is None:
                mo = [[o[0], o[1]] for o in mouts]
                if len(mo) != len(outs) or any(a[0] != b[0] or not close(a[1], b[1], 1e-10) for a, b in zip(outs, mo)):
                    msg = "measurement values differ: impl %s, model %s" % (outs, mo)
            ctx.traces += 1
            if msg is not None:
                tie_broken(ctx, "corr:frontend", msg, spec, h)


def tie_broken(ctx, sig, msg, spec, h):
    """Model and implementation differ: evaluate the property's own predicate there first."""
    h2 = 2.0 if h != 2 else 0.5
    cnt = ctx.extra.setdefault("_tie_evals", {})
    cnt[sig] = cnt.get(sig, 0) + 1
    bad = []
    if cnt[sig] <= 8:  # the predicate is evaluated on the first few disagreeing inputs of each kind
        try:
            bad, _ = compare_pair(spec, h, h2)
        except Exception:
            bad = []
    for name, v1, v2 in bad:
        ctx.counterexample(signature(spec, name), "%s on the %s backend is not hbar-independent: hbar=%s gives %s, hbar=%s gives %s" % (name, spec["backend"], h, v1, h2, v2),
                           {"check": "pair", "spec": spec, "h1": h, "h2": h2, "obs": name})
    ctx.disagreement(sig, msg, {"check": "pair", "spec": spec, "h1": h, "h2": h2, "obs": "corr"})
    sf.hbar = 2


# correspondence (B): state-object formulas on generated backend data

def corr_states(ctx):
    rng = ctx.rng
    n_cases = ctx.budget(500, 5000)
    cases = []
    for _ in range(n_cases):
        n = rng.randint(1, 3)
        mu2, cov2 = rand_sympl_cov(rng, n)
        h = rng.choice(HBARS) if rng.random() < 0.6 else _r3(rng.uniform(0.3, 5.0))
        k = rng.randrange(n)
        phi = draw(rng, "a")
        al = [complex(_r3(rng.uniform(-0.8, 0.8)), _r3(rng.uniform(-0.8, 0.8))) for _ in range(n)]
        with Hbar(h):
            st = BaseGaussianState((np.array(mu2), np.array(cov2)), n)
            mu, cov = st.means().copy(), st.cov().copy()
            impl = list(mu) + list(cov.ravel())
            d = st.displacement([k])[0]
            impl += [d.real, d.imag]
            impl += list(st.mean_photon(k))
            impl += list(st.quad_expectation(k, phi))
            x, p = mu[k], mu[n + k]
            vxx, vxp, vpp = cov[k, k], cov[k, n + k], cov[n + k, n + k]
            # parity on a random subset of the modes (the reduced state's mu / cov are what the model is given)
            sub = sorted(rng.sample(range(n), rng.randint(1, n)))
            par = float(st.parity_expectation(list(sub)))
            mur, covr = st.reduced_gaussian(list(sub))
            numsq = float(np.exp(-(mur @ np.linalg.inv(covr) @ mur)))
            det = float(np.linalg.det(covr))
            impl += [par * par]
            extra = None
            if n == 1:
                fid = float(st.fidelity_coherent(np.array(al)))
                for qn in ("is_coherent", "is_squeezed"):
                    getattr(st, qn)(0)
                st.squeezing([0])
                store = list(st.cov().ravel())
                extra = (fid, store)
        c = coq_ctx(h)
        terms = ["st_mu FF %s %s" % (c, F(v)) for v in mu2]
        terms += ["st_cov FF %s %s" % (c, F(v)) for row in cov2 for v in row]
        terms += ["st_alpha FF %s %s" % (c, F(x)), "st_alpha FF %s %s" % (c, F(p))]
        terms += ["mean_photon_mean FF %s %s %s %s %s" % (c, F(x), F(p), F(vxx), F(vpp)),
                  "mean_photon_var FF %s %s %s %s %s %s" % (c, F(x), F(p), F(vxx), F(vxp), F(vpp))]
        terms += ["quad_mean FF %s %s %s %s" % (F(np.cos(phi)), F(np.sin(phi)), F(x), F(p)),
                  "quad_var FF %s %s %s %s %s" % (F(np.cos(phi)), F(np.sin(phi)), F(vxx), F(vxp), F(vpp))]
        terms += ["parity_sq FF %s %d %s %s" % (c, len(sub), F(numsq), F(det))]
        if extra is not None:
            fid, store = extra
            terms += ["fid_prefsq FF %s %s %s %s" % (c, F(vxx), F(vxp), F(vpp)),
                      "fid_expo FF %s %s %s %s %s %s %s %s" % (c, F(al[0].real), F(al[0].imag), F(x), F(p), F(vxx), F(vxp), F(vpp))]
            terms += ["nth %d (concat (is_coherent_1mode_store %s %s)) 0%%float" % (i, c, coq.coq_list([coq.coq_list(row, F) for row in cov])) for i in range(4)]
        cases.append((n, h, impl, extra, "[" + "; ".join(terms) + "]", {"n": n, "h": h, "mu2": mu2, "cov2": cov2, "k": k, "phi": phi}))
        ctx.case({"corr": "state", "n": n, "h": h, "k": k}, nontrivial=h != 2, bucket="corrB:gauss%d" % n)
    sf.hbar = 2
    for si in range(0, len(cases), 300):
        sh = cases[si:si + 300]
        text = "\n".join(["From Coq Require Import List PrimFloat.", "Import ListNotations.", "From SFV Require Import C15.Model C15.Exec.",
                          "Eval vm_compute in [", ";\n".join(x[4] for x in sh) + "]."])
        ok, vals, raw = ctx.coq_eval("cases_state_%d" % (si // 300), text)
        if not ok:
            ctx.obligation("correspondence:state:shard%d" % (si // 300), False, raw)
            return
        for (n, h, impl, extra, _, info), mv in zip(sh, vals[0]):
            mv = [float(v) for v in mv]
            base = mv[:len(impl)]
            msg = None
            names = ["means[%d]" % i for i in range(2 * n)] + ["cov[%d]" % i for i in range(4 * n * n)] + \
                ["displacement.re", "displacement.im", "mean_photon.mean", "mean_photon.var", "quad_expectation.mean", "quad_expectation.var",
                 "parity_expectation(subset)^2"]
            for nm, a, b in zip(names, impl, base):
                if not close(a, b, 1e-8 if nm.startswith("parity") else 1e-9):
                    msg = "%s: impl %r, model %r" % (nm, a, b)
                    break
            if msg is None and extra is not None:
                fid, store = extra
                prefsq, expo = mv[len(impl):len(impl) + 2]
                mstore = mv[len(impl) + 2:]
                mf = math.sqrt(prefsq) * math.exp(expo)
                if not close(fid, mf, 1e-8):
                    msg = "fidelity_coherent: impl %r, model %r" % (fid, mf)
                elif not all(close(a, b, 1e-9) for a, b in zip(store, mstore)):
                    msg = "stored covariance after is_coherent/is_squeezed/squeezing: impl %r, model %r" % (store, mstore)
            ctx.traces += 1
            if msg is not None:
                spec = {"backend": "gaussian", "n": n, "ops": [{"op": "Gaussian", "V": info["cov2"], "r": info["mu2"], "m": list(range(n)), "decomp": False, "dg": False}],
                        "q": default_q(n, [info["k"]], info["phi"])}
                tie_broken(ctx, "corr:state-formulas", "hbar=%s, %d modes: %s" % (h, n, msg), spec, h)
    corr_fock_utils(ctx)


def default_q(n, subset, phi=0.3):
    return {"alpha": [[0.2, -0.1]] * n, "phi": phi, "fock": [1] + [0] * (n - 1), "grid": [0.0, 0.5, -0.7],
            "A": [[0.0] * (2 * n) for _ in range(2 * n)], "d": [0.1] * (2 * n), "subset": subset}


def corr_fock_utils(ctx):
    """BaseFockState.quad_expectation and utils.states (basis='gaussian') against the model."""
    from strawberryfields.utils import states as us
    rng = ctx.rng
    cases = []
    for _ in range(ctx.budget(150, 3000)):
        cutoff = rng.randint(2, 6)
        a = np.array([[complex(rng.uniform(-1, 1), rng.uniform(-1, 1)) for _ in range(cutoff)] for _ in range(cutoff)])
        rho = a @ a.conj().T
        rho = rho / np.trace(rho)
        h = rng.choice(HBARS) if rng.random() < 0.6 else _r3(rng.uniform(0.3, 5.0))
        phi = draw(rng, "a")
        with Hbar(h):
            st = BaseFockState(rho, 1, False, cutoff)
            mean, var = st.quad_expectation(0, phi)
        aa = np.diag(np.sqrt(np.arange(1, cutoff + 5)), 1)
        xq = np.cos(phi) * (aa + aa.T) + np.sin(phi) * (-1j) * (aa - aa.T)
        Q = float(np.trace((xq @ xq)[:cutoff, :cutoff] @ rho).real)
        l = coq.coq_list(["(%s, %s, %s)" % (F(np.sqrt(i + 1)), F(rho[i, i + 1].real), F(rho[i, i + 1].imag)) for i in range(cutoff - 1)])
        c = coq_ctx(h)
        r, ph, rs = _r3(rng.uniform(0, 1)), draw(rng, "a"), _r3(rng.uniform(-0.7, 0.7))
        al = r * np.exp(1j * ph)
        coh = us.coherent_state(r, ph, basis="gaussian", hbar=h)
        sq = us.squeezed_cov(rs, 0.0, hbar=h)
        # a one-mode linear combination of Gaussians (internal hbar=2 data: means, covs, weights)
        nw = rng.randint(1, 4)
        wts = np.array([rng.uniform(0.1, 1.0) for _ in range(nw)])
        wts = wts / wts.sum()
        bm = np.array([[rng.uniform(-1, 1), rng.uniform(-1, 1)] for _ in range(nw)])
        bc = []
        for _ in range(nw):
            g = np.array([[rng.uniform(-1, 1) for _ in range(2)] for _ in range(2)])
            bc.append(g @ g.T + np.eye(2))
        bc = np.array(bc)
        with Hbar(h):
            bst = BaseBosonicState((bm.copy(), bc.copy(), wts.copy()), 1, nw)
            bmean = float(np.real(bst.mean_photon(0)[0]))
            bl = coq.coq_list(["(%s, %s, %s)" % (F(w), F(np.trace(cv)), F(float(m @ m))) for w, m, cv in zip(bst.weights(), bst.means(), bst.covs())])
        impl = [float(mean), float(var), float(coh[0][0]), float(coh[0][1]), float(coh[1][0, 0]), float(sq[0, 0]), float(sq[1, 1]), bmean]
        term = "[fock_quad_mean FF %s %s %s %s; fock_quad_var FF %s %s %s %s %s; util_mean FF %s %s; util_mean FF %s %s; util_cov FF %s 1%%float; util_cov FF %s %s; util_cov FF %s %s; bos_mean_photon FF %s %s]" % (
            c, F(np.cos(phi)), F(np.sin(phi)), l, c, F(np.cos(phi)), F(np.sin(phi)), l, F(Q),
            c, F(al.real), c, F(al.imag), c, c, F(np.exp(-2 * rs)), c, F(np.exp(2 * rs)), c, bl)
        cases.append((impl, term, h, cutoff))
        ctx.case({"corr": "fock-utils", "cutoff": cutoff, "h": h, "phi": phi, "r": r, "rs": rs}, nontrivial=h != 2, bucket="corrB:fock-utils")
    sf.hbar = 2
    text = "\n".join(["From Coq Require Import List PrimFloat.", "Import ListNotations.", "From SFV Require Import C15.Model C15.Exec.",
                      "Eval vm_compute in [", ";\n".join(x[1] for x in cases) + "]."])
    ok, vals, raw = ctx.coq_eval("cases_fock_utils", text)
    if not ok:
        ctx.obligation("correspondence:fock-utils", False, raw)
        return
    names = ["fock quad_expectation mean", "fock quad_expectation var", "coherent_state mean x", "coherent_state mean p", "coherent_state cov", "squeezed_cov xx", "squeezed_cov pp", "bosonic mean_photon"]
    for (impl, _, h, cutoff), mv in zip(cases, vals[0]):
        ctx.traces += 1
        for nm, a, b in zip(names, impl, mv):
            if not close(a, float(b), 1e-9):
                ctx.disagreement("corr:" + nm.replace(" ", "-"), "hbar=%s cutoff=%d: %s: impl %r, model %r" % (h, cutoff, nm, a, float(b)),
                                 {"check": "none", "h": h})
                break


def correspondence(ctx):
    try:
        corr_frontend(ctx)
        corr_states(ctx)
    finally:
        sf.hbar = 2


def replay(ctx, data):
    d = data["data"]
    try:
        if d.get("check") == "pair":
            if d["obs"] == "run":
                k1, k2 = _runs(d["spec"], d["h1"]), _runs(d["spec"], d["h2"])
                print("run at hbar=%s: %s; at hbar=%s: %s" % (d["h1"], k1, d["h2"], k2))
                return k1 != k2
            bad, _ = compare_pair(d["spec"], d["h1"], d["h2"], which={d["obs"]} | ({"is_pure"} | PURE_DEPENDENT if d["obs"] == "is_pure" else set()))
            for name, v1, v2 in bad:
                print("%s: hbar=%s -> %s ; hbar=%s -> %s (unit divided out)" % (name, d["h1"], v1, d["h2"], v2))
            return any(name == d["obs"] for name, _, _ in bad)
        if d.get("check") == "reuse":
            bad, _ = reuse_eval(d["spec"], d["h"], d["runs"], d["style"])
            for r, name, v1, v2 in bad:
                print("run %d: %s: hbar=%s -> %s ; hbar=2 reference -> %s (unit divided out)" % (r, name, d["h"], v1, v2))
            return any(name == d["obs"] for _, name, _, _ in bad)
        if d.get("check") == "units2":
            units_eval(d["case"], d["h"])
            bad = units_eval(d["case"], d["h2"])
            for b in bad:
                print(b)
            return any(name == d["obs"] for name, _, _ in bad)
        if d.get("check") == "units":
            bad = units_eval(d["case"], d["h"])
            for b in bad:
                print(b)
            return any(name == d["obs"] for name, _, _ in bad)
        if d.get("check") == "utils":
            bad = utils_eval(d["case"], d["h"])
            for b in bad:
                print(b)
            return any(name == d["obs"] for name, _, _ in bad)
    finally:
        sf.hbar = 2
    print("unknown replay kind")
    return False
