"""C02 — decomposed operations implement exactly the documented transformation."""
import copy
import math

import numpy as np

from vlib import coq, sfgen

import strawberryfields as sf
from strawberryfields import ops
from strawberryfields import decompositions as dec
from strawberryfields.program_utils import Command, CircuitError
from strawberryfields.compilers import compiler_db

PROP = "C02"
LEVEL = "proof"
COQ_TARGETS = ["C02/Alg.vo", "C02/Model.vo", "C02/Float.vo", "C02/Proofs.vo", "C02/ProofsDrv.vo", "C02/Mesh.vo"]
COQ_DIRS = ["C02"]
PROPERTIES_FILE = "Properties/C02.v"
ALLOWED_AXIOMS = set()
RULE = ("cases = (decomposable op, parameters drawn from {0, negative, large, multiples of pi/2, random}, ordered "
        "target modes incl. descending / non-contiguous / >= 9, dagger flag, compile target in {gaussian, bosonic, fock}, "
        "mesh in all 7 meshes, matrix class in {Haar, identity, permutation, exact zeros, block, diagonal}, Gaussian "
        "state class in {diag pure +-r, rotated squeezed in all four quadrants, thermal, mixed, random}); a case is "
        "non-trivial when the decomposition has >= 2 commands and (the op is daggered, or a matrix/state is degenerate, "
        "or the mesh is not the default, or targets are not (0,1) ascending)")
TRUSTED_BASE = [
    "Coq 8.16.1 kernel; vm_compute + PrimFloat for evaluating the model on cases (coq/C02/Float.v, imported by no theorem)",
    "hand-written model coq/C02/Model.v of ops.py _decompose / Gate.decompose / Gate.apply and compilers/compiler.py "
    "Compiler.decompose; coq/C02/Mesh.v of the command assembly of Interferometer._decompose at group level; tied to /repo by "
    "exact comparison of emitted command lists (names, wires, dagger flags, parameter values) and by comparing the model's "
    "matrices with the Gaussian simulator's action on coherent probes",
    "Section hypotheses visible in every theorem: commutative-ring laws of the scalars, cos^2+sin^2=1, cosh^2-sinh^2=1, "
    "2 cos(pi/4)^2 = 1, sqrt(2 hbar)/sqrt(2 hbar) = 1, and for Pgate/CXgate/CZgate the relations the code's acosh/atan/asinh/atan2 "
    "outputs satisfy (evaluated numerically on every run on the values the implementation computes)",
    "harness: tools/props/c02.py, tools/vlib; numpy elementary functions; the gaussian backend as the reference simulator for "
    "primitive gates D/S/R/BS and Coherent/Vacuum/Thermal/Squeezed preparations; thewalrus.quantum.Amat",
    "matrix numerics (Clements/Reck nulling, Takagi, Williamson, Bloch-Messiah, compact meshes) are exercised by the search only",
]
ASSUMPTIONS = ["hbar = 2 (sf.hbar default) in all runs", "Fock-backend comparisons use small amplitudes/squeezing so that truncation error < 1e-4"]
MANIFEST_TEXT = "see report"

TOL = 1e-8       # closed-form gate identities through the gaussian simulator
TOL_MAT = 1e-6   # numerical matrix decompositions
TOL_FOCK = 2e-4  # truncated Fock simulator

KIND_ID = {"Dgate": 0, "Xgate": 1, "Zgate": 2, "Sgate": 3, "Rgate": 4, "Pgate": 5, "BSgate": 6, "MZgate": 7,
           "sMZgate": 8, "S2gate": 9, "CXgate": 10, "CZgate": 11, "Fouriergate": 12,
           "Kgate": 100, "Vgate": 101, "CKgate": 102, "Ggate": 103}
ID_KIND = {v: k for k, v in KIND_ID.items()}
NMODES = {"Dgate": 1, "Xgate": 1, "Zgate": 1, "Sgate": 1, "Rgate": 1, "Pgate": 1, "BSgate": 2, "MZgate": 2, "sMZgate": 2,
          "S2gate": 2, "CXgate": 2, "CZgate": 2, "Fouriergate": 1, "Kgate": 1, "Vgate": 1, "CKgate": 2}
PKINDS = {"Dgate": "ra", "Xgate": "r", "Zgate": "r", "Sgate": "ha", "Rgate": "a", "Pgate": "r", "BSgate": "aa",
          "MZgate": "aa", "sMZgate": "aa", "S2gate": "ha", "CXgate": "r", "CZgate": "r", "Fouriergate": "",
          "Kgate": "r", "Vgate": "r", "CKgate": "r"}
DECOMPOSABLE = ["Xgate", "Zgate", "Pgate", "MZgate", "sMZgate", "S2gate", "CXgate", "CZgate", "Fouriergate"]
PRIMS = ["Dgate", "Sgate", "Rgate", "BSgate"]
PI = math.pi
ANGLE_POOL = [0.0, PI / 2, PI, -PI / 2, PI / 4, -PI / 4, 2 * PI, -PI, 3 * PI / 2, 0.3, -0.7, 1.1, 2.5, -2.9, 7.0, 1e-9]
REAL_POOL = [0.0, 0.5, -0.5, 1.0, -1.0, 2.0, -3.0, 0.25, 1e-9, -1e-7, 6.0]
HYP_POOL = [0.0, 0.3, -0.3, 0.7, -0.7, 1.2, -1.5, 1e-9]

FL = coq.coq_float


# ----------------------------------------------------------------------------------------
# encoding of gates as Coq terms
def c_ang(t):
    return "(mkAng F %s %s %s)" % (FL(np.cos(t)), FL(np.sin(t)), coq.coq_bool(t == 0))


def c_hyp(r):
    return "(mkHyp F %s %s %s)" % (FL(np.cosh(r)), FL(np.sinh(r)), coq.coq_bool(r == 0))


def c_rp(x):
    return "(mkRp F %s %s)" % (FL(x), coq.coq_bool(x == 0))


def witnesses(name, params):
    """Derived parameter values the implementation's _decompose computes (for Pgate/CXgate/CZgate)."""
    reg = [0, 1]
    if name == "Pgate":
        seq = ops.Pgate(params[0])._decompose([0])
        r, phi = [float(x) for x in seq[0].op.p]
        th = float(seq[1].op.p[0])
        return [r, th, phi]
    if name in ("CXgate", "CZgate"):
        seq = ops.CXgate(params[0])._decompose(reg)
        th = float(seq[0].op.p[0])
        r = float(seq[1].op.p[0])
        return [r, th]
    return []


def c_gate(name, params):
    if name == "Fouriergate":
        return "(Fouriergate F)"
    if name in ("Kgate", "Vgate", "CKgate", "Ggate"):
        return "(Opaque F %d)" % (KIND_ID[name] - 100)
    out = []
    for k, p in zip(PKINDS[name], params):
        out.append({"r": c_rp, "a": c_ang, "h": c_hyp}[k](p))
    w = witnesses(name, params)
    if name == "Pgate":
        out += [c_hyp(w[0]), c_ang(w[1]), c_ang(w[2])]
    elif name in ("CXgate", "CZgate"):
        out += [c_hyp(w[0]), c_ang(w[1])]
    return "(%s F %s)" % (name, " ".join(out))


def c_cmd(name, params, wires, dag):
    return "(mkCmd F %s %s %s)" % (c_gate(name, params), coq.coq_list(wires, str), coq.coq_bool(dag))


HEADER = ("From Coq Require Import List Bool Arith PrimFloat.\nImport ListNotations.\n"
          "From SFV Require Import C02.Alg C02.Model C02.Float.\nOpen Scope nat_scope.\n"
          "Definition S2H := %s. Definition IS2H := %s. Definition RT := %s.\n"
          % (FL(np.sqrt(2 * sf.hbar)), FL(1 / np.sqrt(2 * sf.hbar)), FL(np.cos(np.pi / 4))))


def trig_params(name, params):
    """Values of the parameters of an *implementation* op in the form the model's gparams prints."""
    out = []
    for k, p in zip(PKINDS[name], params):
        p = float(p)
        if k == "r":
            out.append(p)
        elif k == "a":
            out += [math.cos(p), math.sin(p)]
        else:
            out += [math.cosh(p), math.sinh(p)]
    return out


def impl_sig(cmds, frame):
    """Signature of an implementation command list: (kind id, wires as positions in `frame`, dagger, parameter values)."""
    sig = []
    for c in cmds:
        nm = c.op.__class__.__name__
        regs = c.reg if isinstance(c.reg, (list, tuple)) else [c.reg]
        wires = [frame.index(r.ind if hasattr(r, "ind") else r) for r in regs]
        ps = [float(x) for x in c.op.p] if nm in PKINDS else []
        sig.append((KIND_ID.get(nm, 109), wires, bool(getattr(c.op, "dagger", False)), trig_params(nm, ps) if nm in PKINDS else []))
    return sig


def sig_equal(a, b, tol=1e-12):
    """Exact on names / wires / flags, tolerance on parameter values.  Returns None or a description."""
    if len(a) != len(b):
        return "length %d vs %d" % (len(a), len(b))
    for i, (x, y) in enumerate(zip(a, b)):
        if x[0] != y[0]:
            return "command %d: kind %s vs %s" % (i, ID_KIND.get(x[0], x[0]), ID_KIND.get(y[0], y[0]))
        if list(x[1]) != list(y[1]):
            return "command %d (%s): wires %s vs %s" % (i, ID_KIND.get(x[0]), list(x[1]), list(y[1]))
        if bool(x[2]) != bool(y[2]):
            return "command %d (%s): dagger %s vs %s" % (i, ID_KIND.get(x[0]), x[2], y[2])
        if len(x[3]) != len(y[3]) or any(abs(p - q) > tol * max(1, abs(p), abs(q)) for p, q in zip(x[3], y[3])):
            return "command %d (%s): parameters %s vs %s" % (i, ID_KIND.get(x[0]), list(x[3]), list(y[3]))
    return None


# ----------------------------------------------------------------------------------------
# running the implementation
def make_op(name, params, dag=False):
    op = getattr(ops, name)(*params)
    if dag:
        op = op.H
    return op


def affine_of(n, build, backend="gaussian", amp=0.5, **bo):
    """(S, d): the affine action on the vector of means (xxpp, hbar units as sf.hbar) of the circuit `build(q)`,
    measured with 2n+1 coherent probes."""
    outs = []
    ins = [np.zeros(2 * n)] + [np.eye(2 * n)[i] * amp for i in range(2 * n)]
    s = np.sqrt(2 * sf.hbar)
    for r in ins:
        prog = sf.Program(n)
        with prog.context as q:
            for i in range(n):
                a = (r[i] + 1j * r[n + i]) / s
                if a != 0:
                    ops.Coherent(abs(a), float(np.angle(a))) | q[i]
            build(q)
        eng = sf.Engine(backend, backend_options=bo)
        st = eng.run(prog).state
        if backend == "fock":
            mu = np.array([st.quad_expectation(i, 0)[0] for i in range(n)] + [st.quad_expectation(i, np.pi / 2)[0] for i in range(n)])
        else:
            mu = np.array(st.means())
        outs.append(mu)
    d = outs[0]
    S = np.array([(o - d) / amp for o in outs[1:]]).T
    return S, d


def embed(n, targets, A, dvec):
    """Embed a local 4x4 / 4-vector (x0,x1,p0,p1 of local modes 0,1) at global `targets` of an n-mode register.
    For a one-mode target only local mode 0 is used."""
    S = np.eye(2 * n)
    d = np.zeros(2 * n)
    A = np.array(A).reshape(4, 4)
    loc = list(range(len(targets)))
    idx_l = loc + [2 + i for i in loc]
    idx_g = list(targets) + [n + t for t in targets]
    for a, ga in zip(idx_l, idx_g):
        d[ga] = dvec[a]
        for b, gb in zip(idx_l, idx_g):
            S[ga, gb] = A[a, b]
    return S, d


def split20(v):
    v = [float(x) for x in v]
    return np.array(v[:16]).reshape(4, 4), np.array(v[16:])


def run_cmds_gaussian(n, speclist):
    """affine map of a list of [name, params, modes, dag] applied as written (engine compiles for 'gaussian')."""
    def build(q):
        for name, params, modes, dag in speclist:
            make_op(name, params, dag) | tuple(q[m] for m in modes)
    return affine_of(n, build)


# ----------------------------------------------------------------------------------------
def draw_params(rng, name):
    out = []
    for k in PKINDS[name]:
        u = rng.random()
        if k == "a":
            out.append(rng.choice(ANGLE_POOL) if u < 0.45 else round(rng.uniform(-2 * PI, 2 * PI), 4))
        elif k == "h":
            out.append(rng.choice(HYP_POOL) if u < 0.45 else round(rng.uniform(-1.2, 1.2), 4))
        else:
            out.append(rng.choice(REAL_POOL) if u < 0.45 else round(rng.uniform(-3, 3), 4))
    return out


def draw_targets(rng, n, k):
    return rng.sample(range(n), k)
