"""C02 — decomposed operations implement exactly the documented transformation."""
import copy
import math

import numpy as np

from vlib import coq, sfgen

import strawberryfields as sf
from strawberryfields import ops
from strawberryfields import decompositions as dec
from strawberryfields.program_utils import Command, CircuitError
from strawberryfields.compilers import compiler_db

PROP = "C02"
LEVEL = "proof"
COQ_TARGETS = ["C02/Alg.vo", "C02/Model.vo", "C02/Float.vo", "C02/Proofs.vo", "C02/ProofsSeq.vo", "C02/ProofsGate.vo",
               "C02/ProofsDrv.vo", "C02/ProofsRefute.vo", "C02/Mesh.vo", "C02/Embed.vo", "C02/Inst.vo"]
COQ_DIRS = ["C02"]
PROPERTIES_FILE = "Properties/C02.v"
ALLOWED_AXIOMS = set()
RULE = ("cases = (decomposable op, parameters drawn from {0, negative, large, multiples of pi/2, random}, ordered "
        "target modes incl. descending / non-contiguous / >= 9, dagger flag, compile target in {gaussian, bosonic, fock}, "
        "mesh in all 7 meshes, matrix class in {Haar, identity, permutation, exact zeros, block, diagonal}, Gaussian "
        "state class in {diag pure +-r, rotated squeezed in all four quadrants, thermal, mixed, random}); a case is "
        "non-trivial when the decomposition has >= 2 commands and (the op is daggered, or a matrix/state is degenerate, "
        "or the mesh is not the default, or targets are not (0,1) ascending)")
TRUSTED_BASE = [
    "Coq 8.16.1 kernel; vm_compute + PrimFloat for evaluating the model on cases (coq/C02/Float.v, imported by no theorem)",
    "hand-written model coq/C02/Model.v of ops.py _decompose / Gate.decompose / Gate.apply and compilers/compiler.py "
    "Compiler.decompose; coq/C02/Mesh.v of the command assembly of Interferometer._decompose at group level; tied to /repo by "
    "exact comparison of emitted command lists (names, wires, dagger flags, parameter values) and by comparing the model's "
    "matrices with the Gaussian simulator's action on coherent probes",
    "Section hypotheses visible in every theorem: commutative-ring laws of the scalars, cos^2+sin^2=1, cosh^2-sinh^2=1, "
    "2 cos(pi/4)^2 = 1, sqrt(2 hbar)/sqrt(2 hbar) = 1, and for Pgate/CXgate/CZgate the relations the code's acosh/atan/asinh/atan2 "
    "outputs satisfy (evaluated numerically on every run on the values the implementation computes)",
    "harness: tools/props/c02.py, tools/vlib; numpy elementary functions; the gaussian backend as the reference simulator for "
    "primitive gates D/S/R/BS and Coherent/Vacuum/Thermal/Squeezed preparations; thewalrus.quantum.Amat",
    "matrix numerics (Clements/Reck nulling, Takagi, Williamson, Bloch-Messiah, compact meshes) are exercised by the search only",
]
ASSUMPTIONS = ["hbar = 2 (sf.hbar default) in all runs", "Fock-backend comparisons use small amplitudes/squeezing so that truncation error < 1e-4"]
MANIFEST_TEXT = (
    "proof (partial). FULL, for every parameter value, over any commutative ring with the trig/hyperbolic identities as hypotheses: "
    "C02_decomp_sound (all nine Gate._decompose methods implement the documented symplectic+displacement), C02_dagger / "
    "C02_doc_symplectic (reverse-and-flip implements the inverse), C02_decompose_cmd (either order / position of target wires), "
    "C02_apply_conventions (p0==0 skip and dagger=>negate p0 are right for D/S/R/BS/S2), C02_compile_decompose + "
    "C02_compile_terminates (Compiler.decompose preserves the documented action for any table, fuel 4 suffices), "
    "C02_gaussian_target / C02_bosonic_target (end-to-end for those tables), C02_sMZ_is_M, and at group level "
    "C02_mesh_rectangular and C02_mesh_triangular (any nulling schedule), C02_mesh_sun_reversal, C02_mesh_compact_right, "
    "C02_mesh_compact_two_sided, C02_sMZ_absorbs_common_phase; n-mode registers: C02_embedded_decomposition, C02_embedded_compile, "
    "C02_embedded_order_and_locality (any n, any two distinct wire positions, either order). "
    "REFUTED on the faithful model (known findings): C02_mz_zero_skipped_refuted, C02_mz_dagger_refuted, C02_fock_target_refuted; "
    "C02_mesh_triangular_old_refuted is about the pre-8725dba assembly only. PARTIAL / search-only: numerical nulling, the routing of "
    "zetas in _absorb_zeta and the layer-wise emission order of _rectangular_compact_cmds, "
    "Takagi/Williamson/Bloch-Messiah inside GraphEmbed/BipartiteGraphEmbed/GaussianTransform/Gaussian, Ggate, Fock matrix elements.")

TOL = 2e-7       # closed-form gate identities through the gaussian simulator (Pgate's acosh(sqrt(1+t^2)) loses ~1e-8 for tiny t)
TOL_MAT = 1e-6   # numerical matrix decompositions
TOL_FOCK = 2e-4  # truncated Fock simulator

KIND_ID = {"Dgate": 0, "Xgate": 1, "Zgate": 2, "Sgate": 3, "Rgate": 4, "Pgate": 5, "BSgate": 6, "MZgate": 7,
           "sMZgate": 8, "S2gate": 9, "CXgate": 10, "CZgate": 11, "Fouriergate": 12,
           "Kgate": 100, "Vgate": 101, "CKgate": 102, "Ggate": 103}
ID_KIND = {v: k for k, v in KIND_ID.items()}
NMODES = {"Dgate": 1, "Xgate": 1, "Zgate": 1, "Sgate": 1, "Rgate": 1, "Pgate": 1, "BSgate": 2, "MZgate": 2, "sMZgate": 2,
          "S2gate": 2, "CXgate": 2, "CZgate": 2, "Fouriergate": 1, "Kgate": 1, "Vgate": 1, "CKgate": 2}
PKINDS = {"Dgate": "ra", "Xgate": "r", "Zgate": "r", "Sgate": "ha", "Rgate": "a", "Pgate": "r", "BSgate": "aa",
          "MZgate": "aa", "sMZgate": "aa", "S2gate": "ha", "CXgate": "r", "CZgate": "r", "Fouriergate": "",
          "Kgate": "r", "Vgate": "r", "CKgate": "r"}
DECOMPOSABLE = ["Xgate", "Zgate", "Pgate", "MZgate", "sMZgate", "S2gate", "CXgate", "CZgate", "Fouriergate"]
PRIMS = ["Dgate", "Sgate", "Rgate", "BSgate"]
PI = math.pi
ANGLE_POOL = [0.0, PI / 2, PI, -PI / 2, PI / 4, -PI / 4, 2 * PI, -PI, 3 * PI / 2, 0.3, -0.7, 1.1, 2.5, -2.9, 7.0, 1e-9, 4e-4, -3e-3]
REAL_POOL = [0.0, 0.5, -0.5, 1.0, -1.0, 2.0, -3.0, 0.25, 1e-9, -1e-7, 6.0, 5e-4, -2e-3]
HYP_POOL = [0.0, 0.3, -0.3, 0.7, -0.7, 1.2, -1.5, 1e-9, 6e-4, -4e-3]

FL = coq.coq_float


# ----------------------------------------------------------------------------------------
# encoding of gates as Coq terms
def c_ang(t):
    return "(mkAng F %s %s %s)" % (FL(np.cos(t)), FL(np.sin(t)), coq.coq_bool(t == 0))


def c_hyp(r):
    return "(mkHyp F %s %s %s)" % (FL(np.cosh(r)), FL(np.sinh(r)), coq.coq_bool(r == 0))


def c_rp(x):
    return "(mkRp F %s %s)" % (FL(x), coq.coq_bool(x == 0))


def witnesses(name, params):
    """Derived parameter values the implementation's _decompose computes (for Pgate/CXgate/CZgate)."""
    reg = [0, 1]
    if name == "Pgate":
        seq = ops.Pgate(params[0])._decompose([0])
        r, phi = [float(x) for x in seq[0].op.p]
        th = float(seq[1].op.p[0])
        return [r, th, phi]
    if name in ("CXgate", "CZgate"):
        seq = ops.CXgate(params[0])._decompose(reg)
        th = float(seq[0].op.p[0])
        r = float(seq[1].op.p[0])
        return [r, th]
    return []


def c_gate(name, params):
    if name == "Fouriergate":
        return "(Fouriergate F)"
    if name in ("Kgate", "Vgate", "CKgate", "Ggate"):
        return "(Opaque F %d)" % (KIND_ID[name] - 100)
    out = []
    for k, p in zip(PKINDS[name], params):
        out.append({"r": c_rp, "a": c_ang, "h": c_hyp}[k](p))
    w = witnesses(name, params)
    if name == "Pgate":
        out += [c_hyp(w[0]), c_ang(w[1]), c_ang(w[2])]
    elif name in ("CXgate", "CZgate"):
        out += [c_hyp(w[0]), c_ang(w[1])]
    return "(%s F %s)" % (name, " ".join(out))


def c_cmd(name, params, wires, dag):
    return "(mkCmd F %s %s %s)" % (c_gate(name, params), coq.coq_list(wires, str), coq.coq_bool(dag))


def header():
    """Coq prelude; the model's constants sqrt(2 hbar), 1/sqrt(2 hbar) follow the CURRENT sf.hbar"""
    return ("From Coq Require Import List Bool Arith PrimFloat.\nImport ListNotations.\n"
            "From SFV Require Import C02.Alg C02.Model C02.Float.\nOpen Scope nat_scope.\n"
            "Definition S2H := %s. Definition IS2H := %s. Definition RT := %s.\n"
            % (FL(np.sqrt(2 * sf.hbar)), FL(1 / np.sqrt(2 * sf.hbar)), FL(np.cos(np.pi / 4))))


HBARS = [0.5, 1.0, 1.7]
DEFAULT_HBAR = sf.hbar


class _hbar:
    """run a block with another value of sf.hbar (the frontend reads it at call time), always restored"""

    def __init__(self, h):
        self.h = h

    def __enter__(self):
        self.old = sf.hbar
        if self.h is not None:
            sf.hbar = self.h

    def __exit__(self, *a):
        sf.hbar = self.old


def with_hbar(fn):
    """check functions take the value of hbar from their (replayable) data"""
    def wrapped(data, *a, **k):
        with _hbar(data.get("hbar")):
            return fn(data, *a, **k)
    wrapped.__name__ = fn.__name__
    wrapped.__doc__ = fn.__doc__
    return wrapped


def draw_hbar(rng, p=0.25):
    return rng.choice(HBARS) if rng.random() < p else None


def trig_params(name, params):
    """Values of the parameters of an *implementation* op in the form the model's gparams prints."""
    out = []
    for k, p in zip(PKINDS[name], params):
        p = float(p)
        if k == "r":
            out.append(p)
        elif k == "a":
            out += [math.cos(p), math.sin(p)]
        else:
            out += [math.cosh(p), math.sinh(p)]
    return out


def impl_sig(cmds, frame):
    """Signature of an implementation command list: (kind id, wires as positions in `frame`, dagger, parameter values)."""
    sig = []
    for c in cmds:
        nm = c.op.__class__.__name__
        regs = c.reg if isinstance(c.reg, (list, tuple)) else [c.reg]
        wires = [frame.index(r.ind if hasattr(r, "ind") else r) for r in regs]
        modelled = nm in PKINDS and KIND_ID.get(nm, 109) < 100
        ps = [float(x) for x in c.op.p] if modelled else []
        sig.append((KIND_ID.get(nm, 109), wires, bool(getattr(c.op, "dagger", False)), trig_params(nm, ps) if modelled else []))
    return sig


def sig_equal(a, b, tol=1e-12):
    """Exact on names / wires / flags, tolerance on parameter values.  Returns None or a description."""
    if len(a) != len(b):
        return "length %d vs %d" % (len(a), len(b))
    for i, (x, y) in enumerate(zip(a, b)):
        if x[0] != y[0]:
            return "command %d: kind %s vs %s" % (i, ID_KIND.get(x[0], x[0]), ID_KIND.get(y[0], y[0]))
        if list(x[1]) != list(y[1]):
            return "command %d (%s): wires %s vs %s" % (i, ID_KIND.get(x[0]), list(x[1]), list(y[1]))
        if bool(x[2]) != bool(y[2]):
            return "command %d (%s): dagger %s vs %s" % (i, ID_KIND.get(x[0]), x[2], y[2])
        if len(x[3]) != len(y[3]) or any(abs(p - q) > tol * max(1, abs(p), abs(q)) for p, q in zip(x[3], y[3])):
            return "command %d (%s): parameters %s vs %s" % (i, ID_KIND.get(x[0]), list(x[3]), list(y[3]))
    return None


# ----------------------------------------------------------------------------------------
# running the implementation
def make_op(name, params, dag=False, hh=0):
    """hh: number of extra `.H.H` pairs (an even number of daggers is no dagger)"""
    op = getattr(ops, name)(*params)
    for _ in range(hh):
        op = op.H.H
    if dag:
        op = op.H
    return op


def affine_of(n, build, backend="gaussian", amp=0.5, **bo):
    """(S, d): the affine action on the vector of means (xxpp, hbar units as sf.hbar) of the circuit `build(q)`,
    measured with 2n+1 coherent probes."""
    outs = []
    ins = [np.zeros(2 * n)] + [np.eye(2 * n)[i] * amp for i in range(2 * n)]
    s = np.sqrt(2 * sf.hbar)
    for r in ins:
        prog = sf.Program(n)
        with prog.context as q:
            for i in range(n):
                a = (r[i] + 1j * r[n + i]) / s
                if a != 0:
                    ops.Coherent(abs(a), float(np.angle(a))) | q[i]
            build(q)
        eng = sf.Engine(backend, backend_options=bo)
        st = eng.run(prog).state
        if backend == "fock":
            mu = np.array([st.quad_expectation(i, 0)[0] for i in range(n)] + [st.quad_expectation(i, np.pi / 2)[0] for i in range(n)])
        else:
            mu = np.array(st.means())
        outs.append(mu)
    d = outs[0]
    S = np.array([(o - d) / amp for o in outs[1:]]).T
    return S, d


def embed(n, targets, A, dvec):
    """Embed a local 4x4 / 4-vector (x0,x1,p0,p1 of local modes 0,1) at global `targets` of an n-mode register.
    For a one-mode target only local mode 0 is used."""
    S = np.eye(2 * n)
    d = np.zeros(2 * n)
    A = np.array(A).reshape(4, 4)
    loc = list(range(len(targets)))
    idx_l = loc + [2 + i for i in loc]
    idx_g = list(targets) + [n + t for t in targets]
    for a, ga in zip(idx_l, idx_g):
        d[ga] = dvec[a]
        for b, gb in zip(idx_l, idx_g):
            S[ga, gb] = A[a, b]
    return S, d


def split20(v):
    v = [float(x) for x in v]
    return np.array(v[:16]).reshape(4, 4), np.array(v[16:])


def run_cmds_gaussian(n, speclist):
    """affine map of a list of [name, params, modes, dag] applied as written (engine compiles for 'gaussian')."""
    def build(q):
        for item in speclist:
            name, params, modes, dag = item[:4]
            make_op(name, params, dag, item[4] if len(item) > 4 else 0) | tuple(q[m] for m in modes)
    return affine_of(n, build)


# ----------------------------------------------------------------------------------------
def draw_params(rng, name):
    out = []
    for k in PKINDS[name]:
        u = rng.random()
        if k == "a":
            out.append(rng.choice(ANGLE_POOL) if u < 0.45 else round(rng.uniform(-2 * PI, 2 * PI), 4))
        elif k == "h":
            out.append(rng.choice(HYP_POOL) if u < 0.45 else round(rng.uniform(-1.2, 1.2), 4))
        else:
            out.append(rng.choice(REAL_POOL) if u < 0.45 else round(rng.uniform(-3, 3), 4))
    return out


def draw_targets(rng, n, k):
    return rng.sample(range(n), k)


def coq_eval(ctx, name, text):
    """ctx.coq_eval under a per-process file name (quick and thorough may run at the same time), scratch removed."""
    import os
    uniq = "%s_%s_%d" % (name, ctx.tier, os.getpid())
    try:
        return ctx.coq_eval(uniq, text)
    finally:
        try:
            os.remove(os.path.join(ctx.work, uniq + ".v"))
        except OSError:
            pass


def _degenerate_symplectic(S):
    """True iff the symplectic matrix has a repeated singular value among its n largest ones (Bloch-Messiah degenerate case)."""
    sv = np.sort(np.linalg.svd(np.array(S), compute_uv=False))[::-1][: len(S) // 2]
    return bool(np.any(np.abs(np.diff(sv)) < 1e-6))


# ========================================================================================
# correspondence A: every _decompose / Gate.decompose against the model
def _gate_case(rng):
    name = rng.choice(DECOMPOSABLE + DECOMPOSABLE + PRIMS)
    params = draw_params(rng, name)
    dag = rng.random() < 0.45
    k = NMODES[name]
    u = rng.random()
    if u < 0.15:
        n, targets = 11, rng.sample([9, 10, 3, 0], k)          # indices >= 9
    elif u < 0.3:
        n, targets = k, list(range(k))                          # plain (0[,1])
    else:
        n = rng.randint(max(k, 2), 4)
        targets = draw_targets(rng, n, k)
    return {"gate": name, "params": params, "dag": dag, "n": n, "targets": targets,
            "hh": 1 if rng.random() < 0.2 else 0, "hbar": draw_hbar(rng)}


def _impl_decompose(case):
    prog = sf.Program(case["n"])
    op = make_op(case["gate"], case["params"], case["dag"], case.get("hh", 0))
    regs = [prog.register[t] for t in case["targets"]]
    try:
        seq = op.decompose(regs)
    except NotImplementedError:
        return (1, [])
    return (0, impl_sig(seq, case["targets"]))


def _gate_predicate(case, doc20):
    """Property predicate on the implementation: executing the (decomposed) op on the Gaussian simulator acts as the
    documented transformation on the targets and as the identity elsewhere.  Returns max abs deviation."""
    A, dv = split20(doc20)
    n, targets = case["n"], case["targets"]
    S, d = run_cmds_gaussian(n, [[case["gate"], case["params"], targets, case["dag"], case.get("hh", 0)]])
    Se, de = embed(n, targets, A, dv)
    return float(max(np.abs(S - Se).max(), np.abs(d - de).max()))


def _nontrivial_gate(case, ncmds):
    return ncmds >= 2 and (case["dag"] or case["targets"] != list(range(len(case["targets"]))))


def corr_gates(ctx, cases, tag=""):
    lines = [header(), "Definition cases : list fcmd := ["]
    items = []
    usable = []
    for c in cases:
        k = NMODES[c["gate"]]
        try:
            items.append(c_cmd(c["gate"], c["params"], list(range(k)), c["dag"]))
            usable.append(c)
        except Exception as e:      # the implementation's own _decompose (read for the derived parameters) raised
            ctx.counterexample("decomp:%s:raises:%s" % (c["gate"], type(e).__name__),
                               "%s(%s)._decompose raised %r" % (c["gate"], c["params"], e), {"check": "gate", "case": c})
    cases = usable
    lines.append(";\n".join(items) + "].")
    lines.append("Eval vm_compute in map (fun c => (opt_sig (decompose_cmd F (Kops:=FO S2H IS2H RT) c), run_doc S2H IS2H RT c, "
                 "match decompose_cmd F (Kops:=FO S2H IS2H RT) c with Some l => run_docs S2H IS2H RT l | None => [] end, "
                 "residuals S2H IS2H RT (cg F c))) cases.")
    ok, vals, raw = coq_eval(ctx, "cases_gates", "\n".join(lines))
    if not ok:
        ctx.obligation("correspondence:gates:coq" + tag, False, raw)
        return
    ctx.obligation("correspondence:gates:coq" + tag, True)
    # Coq prints left-nested pairs flat: ((k, l), doc, dec, res) arrives as (k, l, doc, dec, res)
    for c, (mk, ml, doc20, dec20, res) in zip(cases, vals[0]):
        isig = _impl_decompose(c)
        msig = (mk, ml)
        ms = [_flatten_sig(s) for s in ml]
        ctx.traces += 1
        ncmds = len(isig[1])
        ctx.case({"check": "gate", **c}, nontrivial=_nontrivial_gate(c, ncmds),
                 bucket="gate:%s%s" % (c["gate"], ".H" if c["dag"] else ""))
        data = {"check": "gate", "case": c}
        problems = []
        if isig[0] != msig[0]:
            problems.append("decomposable: impl %s model %s" % (isig[0] == 0, msig[0] == 0))
        else:
            diff = sig_equal(isig[1], ms)
            if diff:
                problems.append("emitted command list differs: " + diff)
        worst = max([abs(float(x)) for x in res] + [0.0])
        if worst > TOL:
            problems.append("derived parameters violate the hypothesis relations (residual %.2e)" % worst)
        if dec20:
            A1, d1 = split20(doc20)
            A2, d2 = split20(dec20)
            dev = max(np.abs(A1 - A2).max(), np.abs(d1 - d2).max())
            if dev > TOL:
                problems.append("model: decomposition differs from documented transformation by %.2e at this input" % dev)
        tag = c["gate"] + ("-dagger" if c["dag"] else "")
        try:
            dev_impl = _gate_predicate(c, doc20)
        except Exception as e:
            ctx.counterexample("decomp:%s:raises:%s" % (tag, type(e).__name__),
                               "%s%s on modes %s cannot be executed on the Gaussian simulator: %r" % (c["gate"], ".H" if c["dag"] else "", c["targets"], e), data)
            continue
        if dev_impl > TOL:
            ctx.counterexample("decomp:" + tag, "%s%s on modes %s: the executed decomposition deviates from the documented "
                               "transformation by %.2e" % (c["gate"], ".H" if c["dag"] else "", c["targets"], dev_impl), data)
        elif problems:
            ctx.disagreement("corr:decomp:" + tag, "; ".join(problems), data)


def _flatten_sig(s):
    """((((kind, wires), dag), params)) as parsed from Coq's left-nested tuple printing -> (kind, wires, dag, params)."""
    if isinstance(s, tuple) and len(s) == 4:
        return (s[0], list(s[1]), s[2], [float(x) for x in s[3]])
    raise ValueError("unexpected signature shape %r" % (s,))


# ========================================================================================
# correspondence B: Compiler.decompose against the model's compile
COMPILERS = ["gaussian", "bosonic", "fock"]
OPAQUE = ["Kgate", "Vgate", "CKgate"]


def _prog_case(rng):
    ncmd = rng.randint(1, 5)
    u = rng.random()
    if u < 0.2:
        n, pair = 11, rng.sample([9, 10, 2, 0], 2)
    elif u < 0.4:
        n, pair = 2, [0, 1]
    else:
        n = rng.randint(2, 4)
        pair = rng.sample(range(n), 2)
    cmds = []
    for _ in range(ncmd):
        pool = DECOMPOSABLE + PRIMS + (OPAQUE if rng.random() < 0.15 else [])
        name = rng.choice(pool)
        k = NMODES[name]
        w = rng.sample([0, 1], k)
        cmds.append([name, draw_params(rng, name), w, bool(rng.random() < 0.35)])
    return {"n": n, "pair": pair, "cmds": cmds, "compiler": rng.choice(COMPILERS), "hbar": draw_hbar(rng, 0.15),
            "entry": rng.choice(["decompose", "compile"])}


def _build(case):
    prog = sf.Program(case["n"])
    with prog.context as q:
        for name, params, w, dag in case["cmds"]:
            make_op(name, params, dag) | tuple(q[case["pair"][i]] for i in w)
    return prog


def _impl_compile(case):
    prog = _build(case)
    comp = compiler_db[case["compiler"]]()
    try:
        if case.get("entry") == "compile":
            out = prog.compile(compiler=case["compiler"]).circuit      # the public entry point
        else:
            out = comp.decompose(prog.circuit)
    except CircuitError:
        return (1, [])
    except NotImplementedError:
        return (2, [])
    return (0, impl_sig(out, case["pair"]))


def check_tables(ctx):
    names = [k for k, v in sorted(KIND_ID.items(), key=lambda kv: kv[1])]
    text = header() + ("Definition kinds := [kD; kX; kZ; kS; kR; kP; kBS; kMZ; ksMZ; kS2; kCX; kCZ; kF; kO 0; kO 1; kO 2; kO 3].\n"
                     "Eval vm_compute in map (fun tb => map (fun k => (t_prim tb k, t_dec tb k)) kinds) [tb_gaussian; tb_bosonic; tb_fock].\n")
    ok, vals, raw = coq_eval(ctx, "tables", text)
    if not ok:
        ctx.obligation("correspondence:tables", False, raw)
        return
    bad = []
    for cname, row in zip(COMPILERS, vals[0]):
        cls = compiler_db[cname]
        for nm, (mp, md) in zip(names, row):
            ip, idc = nm in cls.primitives, nm in cls.decompositions
            if (bool(mp), bool(md)) != (ip, idc):
                bad.append("%s.%s: model (prim %s, dec %s) vs class (prim %s, dec %s)" % (cname, nm, mp, md, ip, idc))
    ctx.obligation("correspondence:tables", not bad, "\n".join(bad))


def corr_compile(ctx, cases, tag=""):
    lines = [header(), "Definition TB (i : nat) := match i with 0 => tb_gaussian | 1 => tb_bosonic | _ => tb_fock end.",
             "Definition cases : list (nat * list fcmd) := ["]
    items = []
    usable = []
    for c in cases:
        try:
            items.append("(%d, %s)" % (COMPILERS.index(c["compiler"]),
                                       coq.coq_list([c_cmd(*x) for x in c["cmds"]])))
            usable.append(c)
        except Exception as e:
            ctx.counterexample("compile:raises:%s" % type(e).__name__, "a _decompose of program %s raised %r" % (c["cmds"], e),
                               {"check": "compile", "case": c})
    cases = usable
    lines.append(";\n".join(items) + "].")
    lines.append("Eval vm_compute in map (fun c => let r := compile F (Kops:=FO S2H IS2H RT) 4 (TB (fst c)) (snd c) in "
                 "(res_sig r, run_docs S2H IS2H RT (snd c), match r with Ok _ l => run_apply S2H IS2H RT l | _ => [] end)) cases.")
    ok, vals, raw = coq_eval(ctx, "cases_compile", "\n".join(lines))
    if not ok:
        ctx.obligation("correspondence:compile:coq" + tag, False, raw)
        return
    ctx.obligation("correspondence:compile:coq" + tag, True)
    for c, (mk, ml, docs20, app20) in zip(cases, vals[0]):
        isig = _impl_compile(c)
        msig = (mk, ml)
        ms = [_flatten_sig(s) for s in ml]
        ctx.traces += 1
        has_dag = any(x[3] for x in c["cmds"])
        ctx.case({"check": "compile", **c}, nontrivial=(len(isig[1]) >= 2 and (has_dag or c["pair"] != [0, 1])),
                 bucket="compile:%s:%s" % (c["compiler"], ["ok", "CircuitError", "NotImplementedError", "fuel"][isig[0]]))
        data = {"check": "compile", "case": c}
        problems = []
        if isig[0] != msig[0]:
            problems.append("result kind: impl %s vs model %s" % (isig[0], msig[0]))
        elif isig[0] == 0:
            diff = sig_equal(isig[1], ms)
            if diff:
                problems.append("compiled command list differs: " + diff)
        gaussian_only = all(x[0] not in OPAQUE for x in c["cmds"])
        dev_doc = None
        if gaussian_only and isig[0] == 0:
            # the implementation's behaviour on a simulator that decomposes everything down to D/S/R/BS
            try:
                S, d = run_cmds_gaussian(c["n"], [[nm, ps, [c["pair"][i] for i in w], dg] for nm, ps, w, dg in c["cmds"]])
            except Exception as e:
                ctx.counterexample("compile:gaussian:raises:%s" % type(e).__name__,
                                   "program %s on modes %s cannot be executed on the Gaussian simulator: %r" % (c["cmds"], c["pair"], e), data)
                continue
            A, dv = split20(docs20)
            Se, de = embed(c["n"], c["pair"], A, dv)
            dev_doc = float(max(np.abs(S - Se).max(), np.abs(d - de).max()))
            scale = max(1.0, float(np.abs(Se).max()))
            if dev_doc > TOL * scale:
                ctx.counterexample("compile:gaussian-vs-documented",
                                   "program %s on modes %s: Gaussian-simulator result deviates from the documented transformation by %.2e"
                                   % (c["cmds"], c["pair"], dev_doc), data)
                continue
            if c["compiler"] != "fock" and app20:
                A2, d2 = split20(app20)
                dev = max(np.abs(A - A2).max(), np.abs(dv - d2).max())
                if dev > TOL * scale:
                    problems.append("model: Gate.apply semantics of the compiled list deviates from documented by %.2e" % dev)
        if problems:
            ctx.disagreement("corr:compile:" + c["compiler"], "; ".join(problems), data)


def _by_hbar(cases):
    groups = {}
    for c in cases:
        groups.setdefault(c.get("hbar"), []).append(c)
    return sorted(groups.items(), key=lambda kv: (kv[0] is not None, kv[0] or 0))


def correspondence(ctx):
    rng = ctx.rng
    check_tables(ctx)
    alt = rng.choice(HBARS)      # one non-default hbar per run keeps the number of Coq batches at two per phase

    def one_alt(cases):
        for c in cases:
            if c.get("hbar") is not None:
                c["hbar"] = alt
        return cases
    n1 = ctx.budget(250, 2500)
    for h, group in _by_hbar(one_alt([_gate_case(rng) for _ in range(n1)])):
        with _hbar(h):
            corr_gates(ctx, group, tag="" if h is None else ":hbar=%s" % h)
    n2 = ctx.budget(200, 2000)
    for h, group in _by_hbar(one_alt([_prog_case(rng) for _ in range(n2)])):
        with _hbar(h):
            corr_compile(ctx, group, tag="" if h is None else ":hbar=%s" % h)


# ========================================================================================
# search: the property's own predicate on the implementation
def _haar(rng, n):
    z = np.array([[complex(rng.gauss(0, 1), rng.gauss(0, 1)) for _ in range(n)] for _ in range(n)])
    q, r = np.linalg.qr(z)
    dgl = np.diag(r) / np.abs(np.diag(r))
    return q * dgl


def unitary_of_class(rng, cls, n):
    if cls == "haar":
        return _haar(rng, n)
    if cls == "identity":
        return np.identity(n, dtype=complex)
    if cls == "permutation":
        p = list(range(n))
        rng.shuffle(p)
        return np.identity(n, dtype=complex)[p]
    if cls == "signed-permutation":
        p = list(range(n))
        rng.shuffle(p)
        ph = [rng.choice([1, -1, 1j, -1j]) for _ in range(n)]
        return np.diag(ph) @ np.identity(n, dtype=complex)[p]
    if cls == "diagonal":
        return np.diag([np.exp(1j * rng.choice(ANGLE_POOL)) for _ in range(n)])
    if cls == "block":
        k = rng.randint(1, n - 1) if n > 1 else 1
        U = np.identity(n, dtype=complex)
        U[:k, :k] = _haar(rng, k)
        if n - k > 0:
            U[k:, k:] = _haar(rng, n - k)
        return U
    if cls == "zeros":
        # exact zeros: a Haar block embedded among swapped identity rows
        U = unitary_of_class(rng, "block", n)
        p = list(range(n))
        rng.shuffle(p)
        return U[p]
    if cls == "small-angle":
        # close to the identity but not trivially so: every mixing angle / phase is ~1e-3..1e-2
        H = np.array([[complex(rng.gauss(0, 1), rng.gauss(0, 1)) for _ in range(n)] for _ in range(n)])
        H = (H + H.conj().T) / 2
        from scipy.linalg import expm
        return expm(1j * rng.choice([2e-3, 5e-3, 1e-2]) * H)
    if cls == "real-orthogonal":
        q, _ = np.linalg.qr(np.array([[rng.gauss(0, 1) for _ in range(n)] for _ in range(n)]))
        return q.astype(complex)
    raise ValueError(cls)


MESHES = ["rectangular", "rectangular_phase_end", "rectangular_symmetric", "triangular", "rectangular_compact",
          "triangular_compact", "sun_compact"]
UCLASSES = ["haar", "identity", "permutation", "signed-permutation", "diagonal", "block", "zeros", "real-orthogonal", "small-angle"]


def mat_json(M):
    M = np.array(M)
    return {"re": np.real(M).tolist(), "im": np.imag(M).tolist()}


def mat_of(j):
    return np.array(j["re"]) + 1j * np.array(j["im"])


def passive_action(n, build):
    """complex n x n matrix W with alpha_out = W alpha_in (+ c) for a passive circuit, from the affine map"""
    S, d = affine_of(n, build)
    X, Y = S[:n, :n], S[n:, :n]
    return X + 1j * Y, S, d


@with_hbar
def check_interferometer(data):
    U = mat_of(data["U"])
    n, targets, mesh = data["n"], data["targets"], data["mesh"]
    kw = {}
    if "drop_identity" in data:
        kw["drop_identity"] = data["drop_identity"]
    if data.get("tol") is not None:
        kw["tol"] = data["tol"]

    def build(q):
        regs = [q[t] for t in targets]
        if data.get("via") == "kwargs":
            # the options arrive through _decompose's keyword arguments (a compiler's `decompositions` table) and must
            # override what the constructor was given
            other = "rectangular" if mesh != "rectangular" else "triangular_compact"
            for c in ops.Interferometer(U, mesh=other)._decompose(regs, mesh=mesh, **kw):
                c.op | (tuple(c.reg) if isinstance(c.reg, (list, tuple)) else c.reg)
        else:
            ops.Interferometer(U, mesh=mesh, **kw) | tuple(regs)
    # documented structure of the chosen option: the gate set of the mesh, and nothing dropped with drop_identity=False
    m = len(U)
    prog0 = sf.Program(m)
    if data.get("via") == "kwargs":
        other = "rectangular" if mesh != "rectangular" else "triangular_compact"
        seq = ops.Interferometer(U, mesh=other)._decompose(list(prog0.register), mesh=mesh, **kw)
    else:
        seq = ops.Interferometer(U, mesh=mesh, **kw)._decompose(list(prog0.register))
    names = [c.op.__class__.__name__ for c in seq]
    two = {"rectangular_symmetric": "MZgate", "rectangular_compact": "sMZgate", "triangular_compact": "sMZgate"}.get(mesh, "BSgate")
    if any(nm not in (two, "Rgate") for nm in names):
        return 1.0
    if data.get("drop_identity") is False and mesh in MESHES[:4]:
        if names.count(two) != m * (m - 1) // 2:
            return 1.0
        if mesh != "rectangular_symmetric" and names.count("Rgate") != m * (m - 1) // 2 + m:
            return 1.0
    W, S, d = passive_action(n, build)
    We = np.identity(n, dtype=complex)
    for i, a in enumerate(targets):
        for j, b in enumerate(targets):
            We[a, b] = U[i, j]
    Se = np.block([[We.real, -We.imag], [We.imag, We.real]])
    return float(max(np.abs(S - Se).max(), np.abs(d).max()))


def search_interferometers(ctx, count):
    rng = ctx.rng
    for _ in range(count):
        mesh = rng.choice(MESHES)
        cls = rng.choice(UCLASSES)
        m = rng.randint(3 if mesh == "sun_compact" else 2, 5)
        if rng.random() < 0.08:
            m = 1 if mesh != "sun_compact" else 6
        elif rng.random() < 0.05:
            m = 7
        u = rng.random()
        if u < 0.4:
            n, targets = m, list(range(m))
        elif u < 0.5 and m <= 3:
            n, targets = 11, rng.sample([10, 9, 1, 4], m)       # indices >= 9 in a wide register
        else:
            n = m + rng.randint(0, 2)
            targets = rng.sample(range(n), m)
        U = unitary_of_class(rng, cls, m)
        data = {"check": "interferometer", "mesh": mesh, "class": cls, "n": n, "targets": targets, "U": mat_json(U)}
        if mesh in MESHES[:4] and rng.random() < 0.4:
            data["drop_identity"] = bool(rng.random() < 0.3)
        if rng.random() < 0.3:
            data["tol"] = rng.choice([1e-3, 1e-9, 1e-6])
        if rng.random() < 0.25:
            data["via"] = "kwargs"
        if rng.random() < 0.1:
            data["hbar"] = rng.choice(HBARS)
        ctx.case({k: v for k, v in data.items() if k != "U"},
                 nontrivial=(cls != "haar" or mesh != "rectangular" or targets != list(range(m))),
                 bucket="interferometer:%s:%s" % (mesh, cls))
        try:
            dev = check_interferometer(data)
        except Exception as e:  # a decomposition that raises on a valid unitary
            sig = "mesh:%s:raises:%s" % (mesh, type(e).__name__)
            if mesh == "sun_compact" and "determinant 1" in str(e):
                sig = "mesh:sun_compact:raises-determinant-on-block-unitary"
                offdiag = np.abs(U - np.diag(np.diag(U)))
                if (data.get("tol") or 0) >= 1e-4 and 0 < offdiag.max() <= 20 * data["tol"]:
                    # a loose user tolerance of the order of the matrix's small entries
                    sig = "mesh:sun_compact:loose-tol-near-identity-raises"
            ctx.counterexample(sig, "Interferometer(mesh=%s) on a %s unitary raised %r" % (mesh, cls, e), data)
            continue
        if dev > TOL_MAT:
            sig = "mesh:triangular-factor-order" if mesh == "triangular" else "mesh:%s:%s" % (mesh, cls)
            ctx.counterexample(sig, "Interferometer(mesh=%s) on a %s %dx%d unitary, modes %s: applied transformation deviates from U by %.2e"
                               % (mesh, cls, m, m, targets, dev), data)


# ---- natively applied gates vs their decomposition (Fock applies MZgate / S2gate natively) ----
@with_hbar
def check_native(data):
    name, params, targets, dag, n = data["gate"], data["params"], data["targets"], data["dag"], data["n"]

    def build(q):
        make_op(name, params, dag) | tuple(q[t] for t in targets)
    Sg, dg = affine_of(n, build, amp=0.3)
    Sf, df = affine_of(n, build, backend="fock", amp=0.3, cutoff_dim=data.get("cutoff", 14))
    data["_fock"] = (Sf, df)
    return float(max(np.abs(Sg - Sf).max(), np.abs(dg - df).max()))


def _known_mz_explains(data):
    """The recorded MZgate defects predict exactly what the Fock backend does: nothing for phi_in == 0, MZgate(-phi_in, phi_ex)
    for the dagger form.  A deviation is attributed to them only if the Fock result matches that prediction."""
    name, params, targets, dag, n = data["gate"], data["params"], data["targets"], data["dag"], data["n"]
    if name != "MZgate" or "_fock" not in data:
        return None
    Sf, df = data["_fock"]
    if params[0] == 0:
        pred, sig = (np.identity(2 * n), np.zeros(2 * n)), "apply:MZgate-p0-zero-skipped"
    elif dag:
        def build(q):
            ops.MZgate(-params[0], params[1]) | tuple(q[t] for t in targets)
        pred, sig = affine_of(n, build, amp=0.3), "apply:MZgate-dagger-negates-phi_in"
    else:
        return None
    ok = max(np.abs(pred[0] - Sf).max(), np.abs(pred[1] - df).max()) <= TOL_FOCK
    return sig if ok else None


def search_native(ctx, count):
    rng = ctx.rng
    for i in range(count):
        name = "MZgate" if rng.random() < 0.6 else "S2gate"
        if name == "MZgate":
            p0 = rng.choice([0.0, 0.0, PI, 0.4, -1.1, 2.0, PI / 2])
            params = [p0, rng.choice([0.0, 0.7, -2.0, PI / 2, 1.3])]
        else:
            params = [rng.choice([0.0, 0.15, -0.2, 0.1]), rng.choice(ANGLE_POOL)]
        dag = rng.random() < 0.5
        n = rng.choice([2, 2, 3])
        targets = draw_targets(rng, n, 2)
        data = {"check": "native", "gate": name, "params": params, "dag": dag, "n": n, "targets": targets, "cutoff": 14 if n == 2 else 9}
        ctx.case(data, nontrivial=(dag or params[0] == 0 or targets != [0, 1]), bucket="native:%s%s" % (name, ".H" if dag else ""))
        dev = check_native(data)
        known_sig = _known_mz_explains(data)
        data.pop("_fock", None)
        if dev > TOL_FOCK:
            sig = known_sig or "native-vs-decomposed:%s%s" % (name, "-dagger" if dag else "")
            ctx.counterexample(sig, "%s(%s)%s on modes %s: Fock backend (applies natively) and Gaussian backend (decomposes) differ by %.2e"
                               % (name, params, ".H" if dag else "", targets, dev), data)


class _Recorder:
    """Stands in for a backend: records what Gate.apply hands to gaussian_gate."""

    def __init__(self):
        self.calls = []

    def gaussian_gate(self, S, d, *modes):
        self.calls.append((np.array(S, dtype=float), np.array(d, dtype=float), modes))


def _random_symplectic(rng, n, passive=False):
    U = _haar(rng, n)
    O1 = np.block([[U.real, -U.imag], [U.imag, U.real]])
    if passive:
        return O1
    V = _haar(rng, n)
    O2 = np.block([[V.real, -V.imag], [V.imag, V.real]])
    r = np.array([rng.choice([0.0, 0.3, -0.4, 0.6]) if rng.random() < 0.5 else rng.uniform(-0.6, 0.6) for _ in range(n)])
    Z = np.diag(np.concatenate([np.exp(-r), np.exp(r)]))
    return O1 @ Z @ O2


def check_ggate(data):
    S = np.array(data["S"])
    d = np.array(data["d"])
    n = len(d) // 2
    prog = sf.Program(n)
    rec = _Recorder()
    op = ops.Ggate(S, d)
    if data["dag"]:
        op = op.H
    op.apply(list(prog.register), rec)
    if not rec.calls:
        return 1.0 if not np.allclose(S, np.identity(2 * n)) else 0.0
    S1, d1, _ = rec.calls[0]
    if data["dag"]:
        # the inverse of r -> S r + d is r -> S^-1 r - S^-1 d
        return float(max(np.abs(S1 @ S - np.identity(2 * n)).max(), np.abs(S1 @ d + d1).max()))
    return float(max(np.abs(S1 - S).max(), np.abs(d1 - d).max()))


def search_ggate(ctx, count):
    rng = ctx.rng
    for _ in range(count):
        n = rng.randint(1, 3)
        S = _random_symplectic(rng, n, passive=rng.random() < 0.3)
        d = np.array([rng.choice([0.0, 0.5, -0.3]) for _ in range(2 * n)])
        data = {"check": "ggate", "S": S.tolist(), "d": d.tolist(), "dag": bool(rng.random() < 0.6)}
        ctx.case({"check": "ggate", "n": n, "dag": data["dag"]}, nontrivial=data["dag"], bucket="ggate" + (".H" if data["dag"] else ""))
        dev = check_ggate(data)
        if dev > TOL:
            sig = "apply:Ggate-dagger-negates-S" if data["dag"] else "apply:Ggate"
            ctx.counterexample(sig, "Ggate(S, d)%s: Gate.apply hands the backend a transformation that deviates from the %s by %.2e"
                               % (".H" if data["dag"] else "", "inverse" if data["dag"] else "gate", dev), data)


# ---- Gaussian transforms and Gaussian state preparations ----
@with_hbar
def check_gtransform(data):
    S = np.array(data["S"])
    n = len(S) // 2
    targets = data["targets"]
    N = data["n"]

    topt = {} if data.get("tol") is None else {"tol": data["tol"]}
    if data.get("vacuum"):
        prog = sf.Program(N)
        with prog.context as q:
            ops.GaussianTransform(S, vacuum=True, **topt) | tuple(q[t] for t in targets)
        st = sf.Engine("gaussian").run(prog).state
        idx = list(targets) + [N + t for t in targets]
        cov = st.cov()[np.ix_(idx, idx)]
        return float(np.abs(cov - (sf.hbar / 2) * S @ S.T).max())

    def build(q):
        if data.get("mesh"):
            for c in ops.GaussianTransform(S, **topt)._decompose([q[t] for t in targets], mesh=data["mesh"]):
                c.op | (tuple(c.reg) if isinstance(c.reg, (list, tuple)) else c.reg)
        else:
            ops.GaussianTransform(S, **topt) | tuple(q[t] for t in targets)
    Sg, dg = affine_of(N, build)
    Se = np.identity(2 * N)
    idx = list(targets) + [N + t for t in targets]
    for a, ga in enumerate(idx):
        for b, gb in enumerate(idx):
            Se[ga, gb] = S[a, b]
    return float(max(np.abs(Sg - Se).max(), np.abs(dg).max()))


def search_gtransform(ctx, count):
    rng = ctx.rng
    for _ in range(count):
        n = rng.randint(1, 3)
        cls = rng.choice(["active", "passive", "identity", "squeeze-only", "active", "weak"])
        if cls == "weak":
            # weakly squeezing, weakly mixing: every parameter ~1e-3..1e-2
            from scipy.linalg import expm
            G = np.array([[rng.gauss(0, 1) for _ in range(2 * n)] for _ in range(2 * n)])
            G = (G + G.T) / 2
            Om = np.block([[np.zeros((n, n)), np.identity(n)], [-np.identity(n), np.zeros((n, n))]])
            S = expm(rng.choice([3e-3, 1e-2]) * Om @ G)
        elif cls == "identity":
            S = np.identity(2 * n)
        elif cls == "squeeze-only":
            r = np.array([rng.choice([0.0, 0.4, -0.5]) for _ in range(n)])
            S = np.diag(np.concatenate([np.exp(-r), np.exp(r)]))
        else:
            S = _random_symplectic(rng, n, passive=(cls == "passive"))
        N = n + rng.randint(0, 2)
        targets = rng.sample(range(N), n)
        data = {"check": "gtransform", "class": cls, "S": S.tolist(), "n": N, "targets": targets, "vacuum": bool(rng.random() < 0.3)}
        if rng.random() < 0.2:
            data["hbar"] = rng.choice(HBARS)
        if rng.random() < 0.3:
            data["tol"] = rng.choice([1e-6, 1e-12])
        if not data["vacuum"] and rng.random() < 0.3:
            data["mesh"] = rng.choice(["rectangular_phase_end", "rectangular_symmetric", "triangular", "rectangular_compact", "triangular_compact"])
        ctx.case({k: v for k, v in data.items() if k != "S"}, nontrivial=(cls != "active" or targets != list(range(n)) or data["vacuum"]),
                 bucket="gtransform:" + cls)
        try:
            dev = check_gtransform(data)
        except Exception as e:
            sig = "gaussian-transform:raises:%s" % type(e).__name__
            if "not unitary" in str(e) and _degenerate_symplectic(S):
                sig = "bloch-messiah:degenerate-singular-values-not-unitary"
            ctx.counterexample(sig, "GaussianTransform on a %s symplectic raised %r" % (cls, e), data)
            continue
        if dev > TOL_MAT * max(1.0, float(np.abs(S).max()) ** 2):
            ctx.counterexample("gaussian-transform:" + cls + (":vacuum" if data["vacuum"] else ""),
                               "GaussianTransform(%s S%s) on modes %s deviates from S by %.2e" % (cls, ", vacuum=True" if data["vacuum"] else "", targets, dev), data)


def _sq_block(r, phi):
    R = np.array([[np.cos(phi / 2), -np.sin(phi / 2)], [np.sin(phi / 2), np.cos(phi / 2)]])
    return R @ np.diag([np.exp(-2 * r), np.exp(2 * r)]) @ R.T


def _xpxp_to_xxpp(V):
    n = len(V) // 2
    idx = list(range(0, 2 * n, 2)) + list(range(1, 2 * n, 2))
    return V[np.ix_(idx, idx)]


def gaussian_state_of_class(rng, cls, n):
    """covariance (hbar = 2 units, xxpp) of a state of the given class"""
    from scipy.linalg import block_diag
    if cls == "diag-pure":
        r = [rng.choice([0.0, 0.4, -0.4, 0.7, -0.2]) for _ in range(n)]
        return np.diag(np.concatenate([np.exp(-2 * np.array(r)), np.exp(2 * np.array(r))]))
    if cls == "blockdiag-pure":
        blocks = [_sq_block(rng.choice([0.0, 0.3, 0.6]), rng.choice([0.3, 1.2, 2.0, 3.0, -2.0, PI / 2, -PI / 2, PI, -0.4, 4.0]))
                  for _ in range(n)]
        return _xpxp_to_xxpp(block_diag(*blocks))
    if cls == "thermal":
        nb = [rng.choice([0.0, 0.5, 1.0, 0.25, 0.01, 0.04]) for _ in range(n)]
        return np.diag(np.concatenate([2 * np.array(nb) + 1, 2 * np.array(nb) + 1]))
    if cls == "mixed-diag":
        a = [rng.choice([1.5, 2.0, 3.0]) for _ in range(n)]
        b = [rng.choice([1.5, 2.5, 1.0]) for _ in range(n)]
        return np.diag(np.array(a + b, dtype=float))
    S = _random_symplectic(rng, n)
    if cls == "random-pure":
        return S @ S.T
    nb = np.array([rng.choice([0.0, 0.3, 1.0, 0.02]) for _ in range(n)])
    D = np.diag(np.concatenate([2 * nb + 1, 2 * nb + 1]))
    return S @ D @ S.T


@with_hbar
def check_gaussian_prep(data):
    V = np.array(data["V"]) * (sf.hbar / 2)
    r = np.array(data["r"])
    n = len(r) // 2
    N, targets = data["n"], data["targets"]
    out = []
    for dec_flag in (True, False):
        prog = sf.Program(N)
        with prog.context as q:
            for i in range(N):     # something to be demolished by the preparation
                ops.Sgate(0.3, 0.1 * i) | q[i]
            opts = {} if data.get("tol") is None else {"tol": data["tol"]}
            ops.Gaussian(V, None if data.get("r_none") else r, decomp=dec_flag, **opts) | tuple(q[t] for t in targets)
        st = sf.Engine("gaussian").run(prog).state
        idx = list(targets) + [N + t for t in targets]
        out.append((np.array(st.means())[idx], np.array(st.cov())[np.ix_(idx, idx)]))
    (m1, c1), (m2, c2) = out
    dev_native = float(max(np.abs(m1 - m2).max(), np.abs(c1 - c2).max()))
    dev_doc = float(max(np.abs(m1 - r).max(), np.abs(c1 - V).max()))
    return max(dev_native, dev_doc)


def _prep_signature(cls, V):
    """Name the branch of Gaussian._decompose the state falls into (decided on V itself, not on how it was generated)."""
    V = np.array(V)
    n = len(V) // 2
    pure = abs(np.linalg.det(V) - 1.0) < 1e-6
    is_diag = bool(np.all(V == np.diag(np.diag(V))))
    xx, pp = np.diag(V)[:n], np.diag(V)[n:]
    xp = np.array([V[i, n + i] for i in range(n)])
    W = V.copy()
    for i in range(n):
        W[i, i] = W[n + i, n + i] = W[i, n + i] = W[n + i, i] = 0
    is_block = (not is_diag) and bool(np.all(W == 0))
    if pure and is_diag and np.any(xx > 1 + 1e-12):
        return "gaussian-prep:diag-pure-antisqueezed-x"
    if pure and is_block:
        # rotated squeezed blocks whose squeezing angle has cos(phi) <= 0  <=>  V_xx >= V_pp (or V_xx == V_pp with V_xp < 0)
        if np.any((xx > pp + 1e-12) | ((np.abs(xx - pp) <= 1e-12) & (xp < 0))):
            return "gaussian-prep:blockdiag-pure-angle-branch"
    return "gaussian-prep:" + cls


def search_gaussian_prep(ctx, count):
    rng = ctx.rng
    classes = ["diag-pure", "blockdiag-pure", "thermal", "mixed-diag", "random-pure", "random-mixed"]
    for _ in range(count):
        cls = rng.choice(classes)
        n = rng.randint(1, 3)
        V = gaussian_state_of_class(rng, cls, n)
        r = np.array([rng.choice([0.0, 0.0, 0.5, -0.3, 1.0]) for _ in range(2 * n)])
        N = n + rng.randint(0, 1)
        targets = rng.sample(range(N), n)
        data = {"check": "gaussian-prep", "class": cls, "V": V.tolist(), "r": r.tolist(), "n": N, "targets": targets}
        if rng.random() < 0.2:
            data["r_none"], data["r"] = True, [0.0] * (2 * n)
            r = np.zeros(2 * n)
        if rng.random() < 0.3:
            data["tol"] = rng.choice([1e-4, 1e-8])
        if rng.random() < 0.3:
            data["hbar"] = rng.choice(HBARS)
        ctx.case({k: v for k, v in data.items() if k != "V"}, nontrivial=(cls not in ("random-pure", "random-mixed") or targets != list(range(n))),
                 bucket="gaussian-prep:" + cls)
        try:
            dev = check_gaussian_prep(data)
        except Exception as e:
            sig = "gaussian-prep:raises:%s:%s" % (cls, type(e).__name__)
            try:
                if "not unitary" in str(e) and _degenerate_symplectic(dec.williamson(V)[1]):
                    sig = "bloch-messiah:degenerate-singular-values-not-unitary"
            except Exception:
                pass
            ctx.counterexample(sig, "Gaussian(V, r) for a %s state raised %r" % (cls, e), data)
            continue
        if dev > TOL_MAT * max(1.0, float(np.abs(V).max())):
            ctx.counterexample(_prep_signature(cls, V),
                               "Gaussian(V, r) for a %s state on modes %s: decomposed preparation deviates from the native one / from (V, r) by %.2e"
                               % (cls, targets, dev), data)


# ---- graph embeddings: every option of GraphEmbed / BipartiteGraphEmbed / the decompositions.* embedders ----
def _prop_dev(Am, full):
    """deviation of Am from a positive multiple of `full` (or of its conjugate: thewalrus' convention makes the state's
    A the complex conjugate of the embedded matrix; |Haf|^2 is the same)"""
    best = None
    for target in (full, np.conj(full)):
        k = np.vdot(target, Am) / np.vdot(target, target)
        dev_a = float(np.abs(Am - k * target).max())
        bad_scale = 0.0 if (abs(k.imag) < 1e-7 and k.real > 0) else 1.0
        cand = max(dev_a, bad_scale)
        best = cand if best is None else min(best, cand)
    return best


def _run_with_kwargs(n, op, targets, kw):
    """state after `op | targets`; with kw, the commands of op._decompose(reg, **kw) are appended instead (the route a
    compiler's `decompositions` table takes: Xcov/Xunitary pass mesh / drop_identity this way)"""
    prog = sf.Program(n)
    with prog.context as q:
        regs = [q[t] for t in targets]
        if kw is None:
            op | tuple(regs)
        else:
            for c in op._decompose(regs, **kw):
                c.op | (tuple(c.reg) if isinstance(c.reg, (list, tuple)) else c.reg)
    return sf.Engine("gaussian").run(prog).state


@with_hbar
def check_graph(data):
    """Documented outcome: the prepared pure Gaussian state has zero means, A-matrix proportional (positive factor) to the
    documented matrix (A, or A - tr(A) I/n with make_traceless; [[0,B],[B^T,0]] for the bipartite embedding) and
    (1/N) sum_i <n_i> equal to the requested mean_photon_per_mode."""
    from thewalrus.quantum import Amat
    A = mat_of(data["A"])
    nbar = data["nbar"]
    kw = data.get("kwargs")
    if data["kind"] == "graph":
        n = len(A)
        opts = {}
        if data.get("make_traceless") is not None:
            opts["make_traceless"] = data["make_traceless"]
        if data.get("tol") is not None:
            opts["tol"] = data["tol"]
        op = ops.GraphEmbed(A, mean_photon_per_mode=nbar, **opts)
        full = A - np.trace(A) * np.identity(n) / n if data.get("make_traceless") else A
    else:
        B = A
        n = 2 * len(B)
        z = np.zeros_like(B)
        full = np.block([[z, B], [B.T, z]])
        opts = {}
        if data.get("drop_identity") is not None:
            opts["drop_identity"] = data["drop_identity"]
        if data.get("tol") is not None:
            opts["tol"] = data["tol"]
        if data.get("edges", True):
            op = ops.BipartiteGraphEmbed(B, mean_photon_per_mode=nbar, edges=True, **opts)
        else:
            op = ops.BipartiteGraphEmbed(full, mean_photon_per_mode=nbar, edges=False, **opts)
    targets = data.get("targets") or list(range(n))
    N = data.get("n", n)
    st = _run_with_kwargs(N, op, targets, kw)
    idx = list(targets) + [N + t for t in targets]
    cov = np.array(st.cov())[np.ix_(idx, idx)]
    Am = Amat(cov, hbar=sf.hbar)[:n, :n]
    mean_n = float((np.trace(cov) / sf.hbar - n) / 2 / n)
    return max(_prop_dev(Am, full), abs(mean_n - nbar), float(np.abs(np.array(st.means())[idx]).max()))


@with_hbar
def check_embed_fn(data):
    """The functions of decompositions.py themselves: U diag(tanh(-sq)) U^T must be a positive multiple of the documented
    matrix, and the squeezing must give the documented photon number (mean per mode, or the maximum for the deprecated one)."""
    A = mat_of(data["A"])
    n = len(A)
    fn = data["fn"]
    mt = bool(data.get("make_traceless"))
    target = A - np.trace(A) * np.identity(n) / n if mt else A
    if fn == "graph_embed":
        sq, U = dec.graph_embed(A, mean_photon_per_mode=data["nbar"], make_traceless=mt)
        photon = float(np.mean(np.sinh(sq) ** 2))
    elif fn == "graph_embed_deprecated":
        sq, U = dec.graph_embed_deprecated(A, max_mean_photon=data["nbar"], make_traceless=mt)
        photon = float(np.max(np.sinh(sq) ** 2))
    else:
        sq, U, V = dec.bipartite_graph_embed(A, mean_photon_per_mode=data["nbar"])
        rec = U @ np.diag(np.tanh(-sq)) @ V.T
        photon = float(np.mean(np.sinh(sq) ** 2))
        k = np.vdot(A, rec) / np.vdot(A, A)
        bad = 0.0 if (abs(k.imag) < 1e-7 and k.real > 0) else 1.0
        return max(float(np.abs(rec - k * A).max()), bad, abs(photon - data["nbar"]),
                   float(np.abs(U @ U.conj().T - np.identity(n)).max()), float(np.abs(V @ V.conj().T - np.identity(n)).max()))
    rec = U @ np.diag(np.tanh(-sq)) @ U.T
    k = np.vdot(target, rec) / np.vdot(target, target)
    bad = 0.0 if (abs(k.imag) < 1e-7 and k.real > 0) else 1.0
    return max(float(np.abs(rec - k * target).max()), bad, abs(photon - data["nbar"]),
               float(np.abs(U @ U.conj().T - np.identity(n)).max()))


def _graph_matrix(rng, cls, n, symmetric):
    if cls == "identity":
        return np.identity(n, dtype=complex)
    if cls == "permutation":
        p = list(range(n))
        rng.shuffle(p)
        P = np.identity(n, dtype=complex)[p]
        return ((P + P.T) > 0).astype(complex) if symmetric else P
    if cls == "diagonal":
        return np.diag([rng.choice([0.5, 1.0, 2.0, -1.0, 1.0]) for _ in range(n)]).astype(complex)
    if cls == "rank1":
        v = np.array([rng.uniform(-1, 1) for _ in range(n)], dtype=complex)
        w = v if symmetric else np.array([rng.uniform(-1, 1) for _ in range(n)], dtype=complex)
        return np.outer(v, w)
    M = np.array([[rng.uniform(-1, 1) for _ in range(n)] for _ in range(n)], dtype=complex)
    if cls in ("complex", "complex-selfloops"):
        M = M + 1j * np.array([[rng.uniform(-1, 1) for _ in range(n)] for _ in range(n)])
    if cls in ("01", "01-selfloops"):
        M = np.array([[float(rng.random() < 0.6) for _ in range(n)] for _ in range(n)], dtype=complex)
    if cls == "sparse":
        M = M * np.array([[float(rng.random() < 0.5) for _ in range(n)] for _ in range(n)])
    if symmetric:
        M = M + M.T
        if cls in ("01", "01-selfloops"):
            M = (np.abs(M) > 0).astype(complex)
        if cls == "01":
            np.fill_diagonal(M, 0)                      # simple graph
        if cls == "01-selfloops":
            np.fill_diagonal(M, [float(rng.random() < 0.7) for _ in range(n)])
        if cls == "weighted-diagonal":
            np.fill_diagonal(M, [rng.choice([0.5, 1.0, 2.0, -1.0, 3.0]) for _ in range(n)])
        if cls == "traceless":
            M = M - np.trace(M) * np.identity(n) / n
    return M


GRAPH_CLASSES = ["real", "complex", "01", "sparse", "01-selfloops", "weighted-diagonal", "complex-selfloops", "traceless",
                 "identity", "permutation", "diagonal", "rank1"]
NBARS = [1e-3, 0.05, 0.2, 0.5, 1.0, 2.5]


def _structured_graph_matrices():
    """small structured family swept deterministically on every run: every sign / phase pattern of 2x2 and 3x3 diagonal
    matrices in both orders of magnitude, the 2x2 swap with every phase, a Hadamard-like matrix, a path graph"""
    out = []
    ph = [1, -1, 1j, -1j]
    for a in ph:
        for b in ph:
            out.append(("structured-diagonal", np.diag([2 * a, 1 * b]).astype(complex)))
            out.append(("structured-diagonal", np.diag([1 * a, 2 * b]).astype(complex)))
    for a in ph:
        out.append(("structured-swap", np.array([[0, a], [a, 0]], dtype=complex)))
        out.append(("structured-diagonal", np.diag([3 * a, 2, -1]).astype(complex)))
    for a in ph:
        for b in ph:
            if (a, b) != (1, 1):
                out.append(("structured-unit-diagonal", np.diag([a, b]).astype(complex)))
    out.append(("structured-hadamard", np.array([[1, 1], [1, -1]], dtype=complex)))
    out.append(("structured-path", np.array([[0, 1, 0], [1, 0, 1], [0, 1, 0]], dtype=complex)))
    out.append(("structured-single-mode", np.array([[0.7]], dtype=complex)))
    out.append(("structured-single-mode", np.array([[-0.7j]], dtype=complex)))
    return out


def search_graph(ctx, count):
    rng = ctx.rng
    queue = []
    for cls0, M0 in _structured_graph_matrices():
        for kind0 in ("graph", "bipartite", "fn"):
            queue.append((kind0, cls0, M0))
    for it in range(count + len(queue)):
        if it < len(queue):
            kind, cls, M = queue[it]
            n = len(M)
        else:
            kind = rng.choice(["graph", "graph", "bipartite", "fn"])
            n = rng.randint(2, 4)
            cls = rng.choice(GRAPH_CLASSES)
            M = _graph_matrix(rng, cls, n, kind != "bipartite" or rng.random() < 0.3)
        nbar = rng.choice(NBARS) if rng.random() < 0.7 else round(rng.uniform(0.05, 2.0), 3)
        if kind == "fn":
            fn = rng.choice(["graph_embed", "graph_embed_deprecated", "bipartite_graph_embed"])
            if fn == "bipartite_graph_embed" and rng.random() < 0.6 and cls in GRAPH_CLASSES:
                M = _graph_matrix(rng, cls, n, False)
            data = {"check": "embed-fn", "fn": fn, "class": cls, "A": mat_json(M), "nbar": nbar,
                    "make_traceless": bool(rng.random() < 0.5) if fn != "bipartite_graph_embed" else None}
        elif kind == "graph":
            data = {"check": "graph", "kind": kind, "class": cls, "A": mat_json(M), "nbar": nbar,
                    "make_traceless": rng.choice([None, False, True, True]), "tol": rng.choice([None, None, 1e-8, 1e-3])}
            if rng.random() < 0.3:
                data["kwargs"] = {"mesh": rng.choice(MESHES[:3] + ["rectangular_compact", "triangular_compact"])}
        else:
            data = {"check": "graph", "kind": kind, "class": cls, "A": mat_json(M), "nbar": nbar,
                    "edges": bool(rng.random() < 0.6), "drop_identity": rng.choice([None, True, False]),
                    "tol": rng.choice([None, None, 1e-8, 1e-3])}
            if rng.random() < 0.35:
                data["kwargs"] = {k: v for k, v in (("mesh", rng.choice(MESHES[:3] + ["rectangular_compact", "triangular"])),
                                                    ("drop_identity", rng.choice([True, False])),
                                                    ("mean_photon_per_mode", nbar)) if rng.random() < 0.7}
        nm = len(M) if kind != "bipartite" else 2 * len(M)
        if kind != "fn" and rng.random() < 0.3:
            N = nm + rng.randint(0, 2)
            data["n"], data["targets"] = N, rng.sample(range(N), nm)
        A_eff = M - np.trace(M) * np.identity(n) / n if data.get("make_traceless") else M
        if np.abs(A_eff).max() < 1e-9 or np.linalg.matrix_rank(M) == 0:
            continue
        if kind != "bipartite" and np.allclose(M, np.identity(n)):
            continue     # GraphEmbed(identity) is defined (and unit-tested) to do nothing
        if rng.random() < 0.2:
            data["hbar"] = rng.choice(HBARS)
        opts = {k: v for k, v in data.items() if k not in ("A",)}
        ctx.case(opts, nontrivial=(cls != "real" or bool(data.get("make_traceless")) or "kwargs" in data or data.get("edges") is False),
                 bucket="graph:%s:%s%s" % (data.get("fn", kind), cls, ":traceless" if data.get("make_traceless") else ""))
        try:
            dev = check_embed_fn(data) if kind == "fn" else check_graph(data)
        except Exception as e:
            ctx.counterexample("graph-embed:%s:raises:%s" % (data.get("fn", kind), type(e).__name__),
                               "%s embedding of a %s matrix (options %s) raised %r" % (data.get("fn", kind), cls, {k: v for k, v in opts.items() if k not in ("check", "class")}, e), data)
            continue
        if not (dev <= 1e-5):
            what = data.get("fn", kind)
            opt_tag = ":make_traceless" if data.get("make_traceless") else (":edges=False" if data.get("edges") is False else "")
            sig = "graph-embed:%s:%s%s" % (what, cls, opt_tag)
            ctor_di = True if data.get("drop_identity") is None else data["drop_identity"]
            eff_di = (data.get("kwargs") or {}).get("drop_identity", ctor_di)    # _decompose's kwargs override the constructor
            if what == "bipartite" and data.get("edges", True) and np.allclose(M, np.identity(n)) and eff_di:
                sig = "graph-embed:bipartite:edge-matrix-identity-skipped"
            ctx.counterexample(sig,
                               "%s embedding of a %s %dx%d matrix with options %s: the state's A matrix / mean photon number / means deviate from the documented ones by %.2e"
                               % (what, cls, n, n, {k: v for k, v in opts.items() if k not in ("check", "class", "kind")}, dev), data)


# ---- DisplacedSqueezed._decompose against the native preparation ----
@with_hbar
def check_dsq(data):
    p = data["params"]
    res = []
    for native in (True, False):
        prog = sf.Program(2)
        with prog.context as q:
            ops.Sgate(0.4) | q[0]
            ops.BSgate(0.5, 0.2) | (q[0], q[1])
            if native:
                ops.DisplacedSqueezed(*p) | q[data["mode"]]
            else:
                for c in ops.DisplacedSqueezed(*p)._decompose([q[data["mode"]]]):
                    c.op | tuple(c.reg) if isinstance(c.reg, (list, tuple)) else c.op | c.reg
        st = sf.Engine("gaussian").run(prog).state
        res.append((np.array(st.means()), np.array(st.cov())))
    return float(max(np.abs(res[0][0] - res[1][0]).max(), np.abs(res[0][1] - res[1][1]).max()))


def search_dsq(ctx, count):
    rng = ctx.rng
    for _ in range(count):
        p = [rng.choice([0.0, 0.5, 1.0]), rng.choice(ANGLE_POOL), rng.choice(HYP_POOL), rng.choice(ANGLE_POOL)]
        data = {"check": "dsq", "params": p, "mode": rng.randint(0, 1), "hbar": draw_hbar(rng, 0.2)}
        ctx.case(data, nontrivial=(data["mode"] == 1 or p[2] < 0), bucket="displaced-squeezed")
        dev = check_dsq(data)
        if dev > TOL:
            ctx.counterexample("decomp:DisplacedSqueezed", "DisplacedSqueezed%s: decomposition differs from the native preparation by %.2e" % (p, dev), data)


# ---- whole programs on different compile targets / backends ----
def _moments(spec, backend, pair, **bo):
    prog = sf.Program(spec["n"])
    with prog.context as q:
        for i in range(spec["n"]):
            ops.Coherent(0.2 + 0.1 * i, 0.3 * i) | q[i]
        for name, params, w, dag in spec["cmds"]:
            make_op(name, params, dag) | tuple(q[pair[i]] for i in w)
    st = sf.Engine(backend, backend_options=bo).run(prog).state
    n = spec["n"]
    if backend == "gaussian":
        return np.array(st.means()), np.array(st.cov())
    if backend == "bosonic":
        idx = list(range(0, 2 * n, 2)) + list(range(1, 2 * n, 2))
        return np.real(np.array(st.means()[0]))[idx], np.real(np.array(st.covs()[0]))[np.ix_(idx, idx)]
    mu = np.array([st.quad_expectation(i, 0)[0] for i in range(n)] + [st.quad_expectation(i, np.pi / 2)[0] for i in range(n)])
    var = np.array([st.quad_expectation(i, 0)[1] for i in range(n)] + [st.quad_expectation(i, np.pi / 2)[1] for i in range(n)])
    return mu, var


@with_hbar
def check_targets(data):
    spec, pair = data["spec"], data["pair"]
    g = _moments(spec, "gaussian", pair)
    if data["other"] == "bosonic":
        b = _moments(spec, "bosonic", pair)
        return float(max(np.abs(g[0] - b[0]).max(), np.abs(g[1] - b[1]).max()))
    f = _moments(spec, "fock", pair, cutoff_dim=data.get("cutoff", 12))
    return float(max(np.abs(g[0] - f[0]).max(), np.abs(np.diag(g[1]) - f[1]).max()))


def search_targets(ctx, count_b, count_f):
    rng = ctx.rng
    for i in range(count_b + count_f):
        other = "bosonic" if i < count_b else "fock"
        ncmd = rng.randint(1, 4)
        n = 2 if other == "fock" else rng.randint(2, 3)
        pair = rng.sample(range(n), 2)
        cmds = []
        for _ in range(ncmd):
            pool = [g for g in DECOMPOSABLE + PRIMS if not (other == "bosonic" and g == "sMZgate")]
            name = rng.choice(pool)
            params = draw_params(rng, name)
            if other == "fock":   # keep the truncated simulation accurate
                params = [max(-0.25, min(0.25, p)) if k in "rh" else p for k, p in zip(PKINDS[name], params)]
            cmds.append([name, params, rng.sample([0, 1], NMODES[name]), bool(rng.random() < 0.35)])
        data = {"check": "targets", "other": other, "spec": {"n": n, "cmds": cmds}, "pair": pair, "cutoff": 14}
        mz = [c for c in cmds if c[0] == "MZgate"]
        ctx.case(data, nontrivial=(any(c[3] for c in cmds) or pair != [0, 1]), bucket="targets:gaussian-vs-" + other)
        try:
            dev = check_targets(data)
        except Exception as e:
            ctx.counterexample("targets:%s:raises:%s" % (other, type(e).__name__), "program %s raised %r on the %s backend" % (cmds, e, other), data)
            continue
        tol = TOL if other == "bosonic" else 2e-3
        if dev > tol:
            sig = "targets:gaussian-vs-" + other
            if other == "fock" and mz:
                # attribute to the MZgate conventions when removing the offending MZgates restores agreement
                if any(c[1][0] == 0 for c in mz):
                    sig = "apply:MZgate-p0-zero-skipped"
                elif any(c[3] for c in mz):
                    sig = "apply:MZgate-dagger-negates-phi_in"
                d2 = copy.deepcopy(data)
                d2["spec"]["cmds"] = [c for c in cmds if not (c[0] == "MZgate" and (c[1][0] == 0 or c[3]))]
                if check_targets(d2) > tol:
                    sig = "targets:gaussian-vs-fock"
            ctx.counterexample(sig, "program %s on modes %s: gaussian and %s backends differ by %.2e" % (cmds, pair, other, dev), data)



# ---- state kept between calls: shared op objects, repeated runs, symbolic parameters ----
def _state_of(prog, eng=None, args=None):
    eng = eng or sf.Engine("gaussian")
    st = eng.run(prog, args=args or {}).state
    return np.array(st.means()), np.array(st.cov())


def _dev_states(a, b):
    return float(max(np.abs(a[0] - b[0]).max(), np.abs(a[1] - b[1]).max()))


@with_hbar
def check_reuse(data):
    """One op object used by several commands, the same Program executed repeatedly (fresh engine, same engine after
    reset), the same program with free parameters bound at run time: all must give the state of the program built from
    fresh numeric op objects and executed once."""
    n, cmds = data["n"], data["cmds"]       # cmds: [name, params, modes, dag, hh, object-id]

    def prep(q):
        for i in range(n):
            ops.Coherent(0.2 + 0.1 * i, 0.3 * i) | q[i]
            ops.Sgate(0.1 * (i + 1), 0.2) | q[i]

    ref = sf.Program(n)
    with ref.context as q:
        prep(q)
        for name, params, modes, dag, hh, _ in cmds:
            make_op(name, params, dag, hh) | tuple(q[m] for m in modes)
    ref_state = _state_of(ref)

    shared = sf.Program(n)
    objs = {}
    with shared.context as q:
        prep(q)
        for name, params, modes, dag, hh, oid in cmds:
            if oid not in objs:
                objs[oid] = make_op(name, params, dag, hh)
            objs[oid] | tuple(q[m] for m in modes)
    devs = []
    eng = sf.Engine("gaussian")
    devs.append(_dev_states(_state_of(shared, eng), ref_state))        # shared objects
    eng.reset()
    devs.append(_dev_states(_state_of(shared, eng), ref_state))        # same program, same engine, second run
    devs.append(_dev_states(_state_of(shared), ref_state))             # same program, fresh engine, third run
    devs.append(_dev_states(_state_of(shared.compile(compiler="gaussian")), ref_state))   # compiled copy afterwards
    devs.append(_dev_states(_state_of(ref), ref_state))                # the reference program itself, second run

    sym = sf.Program(n)
    args = {}
    with sym.context as q:
        prep(q)
        for ci, (name, params, modes, dag, hh, _) in enumerate(cmds):
            sp = []
            for pi, v in enumerate(params):
                nm = "p%d_%d" % (ci, pi)
                sp.append(sym.params(nm))
                args[nm] = v
            make_op(name, sp, dag, hh) | tuple(q[m] for m in modes)
    devs.append(_dev_states(_state_of(sym, args=args), ref_state))     # free parameters bound at run time
    return max(devs)


def search_reuse(ctx, count):
    rng = ctx.rng
    for _ in range(count):
        n = rng.randint(2, 3)
        nobj = rng.randint(1, 2)
        protos = []
        for oid in range(nobj):
            name = rng.choice(DECOMPOSABLE + PRIMS)
            protos.append((name, draw_params(rng, name), bool(rng.random() < 0.5), 1 if rng.random() < 0.2 else 0, oid))
        cmds = []
        for _ in range(rng.randint(2, 4)):
            name, params, dag, hh, oid = rng.choice(protos)
            cmds.append([name, params, rng.sample(range(n), NMODES[name]), dag, hh, oid])
        data = {"check": "reuse", "n": n, "cmds": cmds, "hbar": draw_hbar(rng, 0.15)}
        ctx.case(data, nontrivial=any(c[3] for c in cmds), bucket="reuse")
        try:
            dev = check_reuse(data)
        except Exception as e:
            ctx.counterexample("reuse:raises:%s" % type(e).__name__, "program %s with shared op objects / repeated runs / free parameters raised %r" % (cmds, e), data)
            continue
        if not dev <= TOL:
            ctx.counterexample("reuse:state-differs", "program %s: shared op objects / a repeated run / run-time bound free parameters change the "
                               "resulting state by %.2e" % (cmds, dev), data)


# ---- every decomposable operation on every compile target, through Program.compile ----
ALL_GATES = DECOMPOSABLE + PRIMS
MATRIX_OPS = ["Interferometer", "GraphEmbed", "BipartiteGraphEmbed", "GaussianTransform", "Gaussian"]
# which operations each simulator compile target is documented to accept (compilers/gaussian.py, fock.py, bosonic.py)
SUPPORT = {"gaussian": ALL_GATES + MATRIX_OPS, "fock": ALL_GATES + MATRIX_OPS,
           "bosonic": [g for g in ALL_GATES if g != "sMZgate"] + ["Gaussian"]}


def _matrix_op(name, data):
    if name == "Interferometer":
        return ops.Interferometer(mat_of(data["M"]), mesh=data.get("mesh", "rectangular"))
    if name == "GraphEmbed":
        return ops.GraphEmbed(mat_of(data["M"]), mean_photon_per_mode=0.3)
    if name == "BipartiteGraphEmbed":
        return ops.BipartiteGraphEmbed(mat_of(data["M"]), mean_photon_per_mode=0.3, edges=True)
    if name == "GaussianTransform":
        return ops.GaussianTransform(np.array(data["M"]["re"]))
    if name == "Gaussian":
        return ops.Gaussian(np.array(data["M"]["re"]) * (sf.hbar / 2), np.array(data["r"]), decomp=data.get("decomp", True))
    raise ValueError(name)


@with_hbar
def check_compile_target(data):
    """prog.compile(compiler=c) must accept the operation, leave only primitives of c in .circuit, and the compiled
    circuit must prepare the same state as the original program (both executed by the Gaussian simulator)."""
    name, comp, n, targets = data["op"], data["compiler"], data["n"], data["targets"]

    def build():
        prog = sf.Program(n)
        with prog.context as q:
            for i in range(n):
                ops.Coherent(0.2 + 0.1 * i, 0.3 * i) | q[i]
            op = make_op(name, data["params"], data["dag"]) if name in ALL_GATES else _matrix_op(name, data)
            op | tuple(q[t] for t in targets)
        return prog
    compiled = build().compile(compiler=comp)
    prims = compiler_db[comp].primitives
    bad = [c.op.__class__.__name__ for c in compiled.circuit if c.op.__class__.__name__ not in prims]
    if bad:
        return 1.0
    ref = _state_of(build())
    dev = _dev_states(_state_of(compiled), ref)
    others = [c for c in COMPILERS if c != comp and name in SUPPORT[c] and not (c == "fock" and data.get("decomp") is False)]
    if others:
        again = build()
        again.compile(compiler=others[0])      # compiling for another target must not disturb the program itself
        dev = max(dev, _dev_states(_state_of(again), ref))
    return dev


def search_compile_targets(ctx, extra):
    """deterministic sweep over every (operation, compile target) pair, plus `extra` random ones"""
    rng = ctx.rng
    pairs = [(o, c) for c in COMPILERS for o in SUPPORT[c]]
    pairs += [rng.choice(pairs) for _ in range(extra)]
    for name, comp in pairs:
        data = {"check": "compile-target", "op": name, "compiler": comp, "hbar": draw_hbar(rng, 0.1)}
        if name in ALL_GATES:
            k = NMODES[name]
            data.update(params=draw_params(rng, name), dag=bool(rng.random() < 0.4))
        else:
            k = 2
            data.update(params=[], dag=False)
            if name == "Interferometer":
                data["M"] = mat_json(_haar(rng, 2))
                data["mesh"] = rng.choice(MESHES[:6])
            elif name == "GraphEmbed":
                M = np.array([[rng.uniform(-1, 1) for _ in range(2)] for _ in range(2)])
                data["M"] = mat_json(M + M.T)
            elif name == "BipartiteGraphEmbed":
                data["M"] = mat_json(np.array([[rng.uniform(0.2, 1)]]))
            elif name == "GaussianTransform":
                data["M"] = mat_json(_random_symplectic(rng, 2))
            else:
                data["M"] = mat_json(gaussian_state_of_class(rng, rng.choice(["random-mixed", "random-pure", "thermal", "diag-pure"]), 2))
                data["r"] = [rng.choice([0.0, 0.4, -0.3]) for _ in range(4)]
                data["decomp"] = bool(rng.random() < 0.7) if comp != "fock" else True
        n = k + rng.randint(0, 1)
        data["n"], data["targets"] = n, rng.sample(range(n), k)
        ctx.case({kk: v for kk, v in data.items() if kk != "M"}, nontrivial=(data["dag"] or name in MATRIX_OPS or data["targets"] != list(range(k))),
                 bucket="compile-target:%s:%s" % (comp, name))
        try:
            dev = check_compile_target(data)
        except Exception as e:
            ctx.counterexample("compile-target:%s:%s:raises:%s" % (comp, name, type(e).__name__),
                               "%s%s cannot be compiled for / executed after compiling for '%s': %r" % (name, ".H" if data["dag"] else "", comp, e), data)
            continue
        tol = TOL_MAT if name in MATRIX_OPS else TOL
        if not dev <= tol:
            ctx.counterexample("compile-target:%s:%s" % (comp, name),
                               "%s%s compiled for '%s': the compiled circuit contains non-primitives or prepares a state that differs by %.2e"
                               % (name, ".H" if data["dag"] else "", comp, dev), data)


def replay_corpus(ctx):
    """Known / minimised past failures first: each corpus input is re-evaluated on the implementation."""
    import glob
    import json
    import os
    for path in sorted(glob.glob(os.path.join(coq.VERIF, "corpus", "C02-*.json"))):
        body = json.load(open(path))
        d = body["data"]
        ctx.case({"check": "corpus", "file": os.path.basename(path)}, nontrivial=True, bucket="corpus")
        try:
            still = replay(ctx, body, quiet=True)
        except Exception as e:  # a corpus input must stay runnable
            ctx.obligation("corpus:" + os.path.basename(path), False, repr(e))
            continue
        if still:
            ctx.counterexample(body["signature"], body["what"], d)


def search(ctx):
    replay_corpus(ctx)
    search_interferometers(ctx, ctx.budget(70, 900))
    search_gaussian_prep(ctx, ctx.budget(40, 500))
    search_gtransform(ctx, ctx.budget(25, 300))
    search_graph(ctx, ctx.budget(200, 2500))
    search_ggate(ctx, ctx.budget(10, 60))
    search_dsq(ctx, ctx.budget(10, 100))
    search_native(ctx, ctx.budget(14, 120))
    search_targets(ctx, ctx.budget(25, 400), ctx.budget(8, 80))
    search_reuse(ctx, ctx.budget(40, 500))
    search_compile_targets(ctx, ctx.budget(10, 300))


CHECKS = {
    "interferometer": (check_interferometer, TOL_MAT), "native": (check_native, TOL_FOCK), "ggate": (check_ggate, TOL),
    "gtransform": (check_gtransform, TOL_MAT), "gaussian-prep": (check_gaussian_prep, TOL_MAT), "graph": (check_graph, 1e-5),
    "embed-fn": (check_embed_fn, 1e-5), "reuse": (check_reuse, TOL), "compile-target": (check_compile_target, TOL_MAT),
    "dsq": (check_dsq, TOL),
}


def replay(ctx, data, quiet=False):
    say = (lambda *a: None) if quiet else print
    d = data["data"]
    kind = d.get("check")
    if kind in CHECKS:
        fn, tol = CHECKS[kind]
        try:
            dev = fn(d)
            d.pop("_fock", None)
        except Exception as e:
            say("raised:", repr(e))
            return True
        say("deviation %.3e (tolerance %.1e)" % (dev, tol))
        return not (dev <= tol)
    if kind == "targets":
        dev = check_targets(d)
        tol = TOL if d["other"] == "bosonic" else 2e-3
        say("deviation between gaussian and %s backends: %.3e (tolerance %.1e)" % (d["other"], dev, tol))
        return dev > tol
    if kind in ("gate", "compile"):
        with _hbar(d["case"].get("hbar")):
            return _replay_corr(ctx, d, kind, say)
    print("unknown replay kind", kind)
    return False


def _replay_corr(ctx, d, kind, say):
    if kind == "gate":
        c = d["case"]
        ok, vals, raw = coq_eval(ctx, "replay_gate", header() + "Eval vm_compute in run_doc S2H IS2H RT %s.\n"
                                     % c_cmd(c["gate"], c["params"], list(range(NMODES[c["gate"]])), c["dag"]))
        dev = _gate_predicate(c, vals[0])
        say("deviation of the executed decomposition from the documented transformation: %.3e" % dev)
        return dev > TOL
    if kind == "compile":
        c = d["case"]
        ok, vals, raw = coq_eval(ctx, "replay_compile", header() + "Eval vm_compute in run_docs S2H IS2H RT %s.\n"
                                     % coq.coq_list([c_cmd(*x) for x in c["cmds"]]))
        S, dd = run_cmds_gaussian(c["n"], [[nm, ps, [c["pair"][i] for i in w], dg] for nm, ps, w, dg in c["cmds"]])
        A, dv = split20(vals[0])
        Se, de = embed(c["n"], c["pair"], A, dv)
        dev = float(max(np.abs(S - Se).max(), np.abs(dd - de).max()))
        say("deviation of the Gaussian-simulator result from the documented transformation: %.3e" % dev)
        return dev > TOL * max(1.0, float(np.abs(Se).max()))
    say("unknown replay kind", kind)
    return False
