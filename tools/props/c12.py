"""C12 — hardware compilation conforms to the device and preserves the experiment.

correspondence(): the Gallina models of coq/C12/Model.v are run (vm_compute) on the same generated inputs as
    Device.validate_parameters / Range / Ranges, Program.assert_modes, TDMProgram.assert_modes, xunitary.list_duplicates,
    the S2gate stage of Xunitary.compile, Borealis.update_params and the loop-offset insertion of Borealis.compile.
search(): the property's own predicate on the implementation: compile generated programs for generated devices with
    Xstrict / Xunitary / Xcov / TDM / borealis; a result is either CircuitError/ValueError or a circuit that matches the
    layout gate for gate (independent comparison), has every parameter inside the device ranges, and gives the same
    Gaussian state (Xstrict/Xunitary: exactly; Xcov, borealis: same Fock probabilities) as the source.
"""
import copy
import itertools
import os
import random
import logging
import math
import warnings
from fractions import Fraction

warnings.filterwarnings("ignore")
import numpy as np  # noqa: E402

import strawberryfields as sf  # noqa: E402
from strawberryfields import ops, Device, TDMProgram  # noqa: E402
from strawberryfields.compilers import compiler_db  # noqa: E402
from strawberryfields.compilers import xunitary as xunitary_mod  # noqa: E402
from strawberryfields.compilers import tdm as tdm_mod  # noqa: E402
from strawberryfields.program_utils import CircuitError  # noqa: E402
from strawberryfields.tdm.utils import get_mode_indices  # noqa: E402

from vlib import coq  # noqa: E402

logging.disable(logging.WARNING)

PROP = "C12"
LEVEL = "proof"
COQ_TARGETS = ["C12/Model.vo", "C12/Proofs.vo", "C12/Merge.vo", "C12/TdmUtils.vo", "C12/TdmUtilsProofs.vo"]
COQ_DIRS = ["C12"]
PROPERTIES_FILE = "Properties/C12.v"
ALLOWED_AXIOMS = set()
RULE = ("[tdm/utils: a padding job = (delays, pulses, per-loop beamsplitter pattern from bypass/cross/lead-full/lead-over/lead-short/lead-none/zeros-then-swap/"
        "trailing-zeros/single-last, swept over job lengths below/at/above each delay) checked structurally, against the Coq plan and by space-unrolled simulation; "
        "full_compile / borealis_gbs jobs compiled for the device; direct calls with non-default delays and ranges] a case is (device spec: 2..10 modes X layout or borealis/TDM layout, parameter ranges, modes limit; compiler; source "
        "program: squeezers per pair 0..3 in any order incl. zero / phased / daggered, interferometer as Interferometer / "
        "gate sequence / identity / mismatching halves, measurement split or partial; or time-domain gate arrays with "
        "and without user loop offsets) or an input of one of the modelled functions; non-trivial = compiles "
        "successfully with repeated or zero or daggered squeezers or a non-identity interferometer, or a borealis program "
        "whose phases needed compensation, or a validation/count input that is rejected or sits on a range boundary")
TRUSTED_BASE = [
    "Coq 8.16.1 kernel; vm_compute (PrimFloat for binary64, Q for exact rationals) to run the models on generated cases",
    "hand-written models coq/C12/Model.v, tied to /repo by the correspondence run of this module on every run",
    "harness tools/props/c12.py: generators, the monkey-patch capturing group_operations' result inside Xunitary.compile and "
    "Borealis._user_offsets, the independent layout comparison, gaussian backend + thewalrus density_matrix_element as oracle for "
    "'same photon statistics' (Fock probabilities up to a total photon number)",
    "networkx isomorphism, blackbird match_template, Takagi / rectangular_symmetric decompositions: exercised, not modelled",
]
ASSUMPTIONS = [
    "set iteration order of `allowed_modes - regrefs` is reproduced by evaluating the same expression in the harness (modelled as an explicit enumeration argument, theorem quantifies over all duplicate-free enumerations)",
    "Borealis phase pipeline is proved over exact rationals for every positive rational pi; binary64 rounding is covered only by the correspondence run",
]
MANIFEST_TEXT = ("full theorems about the models: C12_validate_sound (+ unknown_parameter, invalid_value), C12_counts, C12_s2_merge (every multiplicity on "
                 "every pair, every set enumeration, dagger signs), C12_s2_merge_one_step, C12_borealis_range (both variants of the loop, congruence modulo pi; "
                 "modulo 2 pi refuted), C12_borealis_insert, C12_borealis_user_offsets_complete, C12_vacuum_padding (delay / prologue / epilogue / crop arithmetic "
                 "for every number of loops, pattern and delay), C12_vacuum_padding_first_exit (the imposed delay is the first bin in which light can leave a loop, "
                 "may-reach model), C12_xunitary_shape_chain (conditional on the mesh implementing its unitary: C02/C17). Refutations C12_*_old_refuted_* concern "
                 "explicitly named pre-fix definitions only. Not proved (search only): that Interferometer._decompose is such a mesh and that GaussianUnitary's U is "
                 "the net unitary (C11), Xcov/Takagi statistics preservation, squeezing / phase matching of full_compile, realistic-loss placement, networkx "
                 "isomorphism / blackbird template matching")

PI = math.pi
X_COMPILERS = ["Xstrict", "Xunitary", "Xcov"]


# =====================================================================================================
# generic helpers

def nprng(rng):
    return np.random.RandomState(rng.randrange(2 ** 31))


def rand_unitary(rng, k, kind=None):
    kind = kind or rng.choice(["haar", "haar", "haar", "perm", "diag", "real", "ident", "block"])
    g = nprng(rng)
    if kind == "ident" or k == 0:
        return np.identity(k, dtype=complex)
    if kind == "perm":
        return np.identity(k, dtype=complex)[g.permutation(k)]
    if kind == "diag":
        return np.diag(np.exp(1j * g.uniform(-PI, PI, k)))
    if kind == "real":
        q, r = np.linalg.qr(g.normal(size=(k, k)))
        return (q * np.sign(np.diag(r))).astype(complex)
    if kind == "block" and k >= 3:
        U = np.identity(k, dtype=complex)
        U[:2, :2] = rand_unitary(rng, 2, "haar")
        return U
    z = g.normal(size=(k, k)) + 1j * g.normal(size=(k, k))
    q, r = np.linalg.qr(z)
    return q * (np.diag(r) / np.abs(np.diag(r)))


def mat_to_json(M):
    M = np.asarray(M, dtype=complex)
    return {"re": [[float(x) for x in row] for row in M.real], "im": [[float(x) for x in row] for row in M.imag]}


def mat_from_json(d):
    return np.array(d["re"], dtype=float) + 1j * np.array(d["im"], dtype=float)


def make_op(name, params, dagger=False):
    ps = [mat_from_json(p) if isinstance(p, dict) else p for p in params]
    op = getattr(ops, name)(*ps)
    return op.H if dagger else op


def build_program(spec):
    prog = sf.Program(spec["n"])
    with prog.context as q:
        for name, params, modes, dagger in spec["cmds"]:
            make_op(name, params, dagger) | tuple(q[m] for m in modes)
    return prog


def cmds_of(circuit):
    out = []
    for c in circuit:
        ps = []
        for p in c.op.p:
            try:
                ps.append(float(p))
            except Exception:
                ps.append(repr(p))
        out.append([c.op.__class__.__name__, ps, [r.ind for r in c.reg], bool(getattr(c.op, "dagger", False))])
    return out


def gaussian_state(n, circuit):
    """Run the non-measurement commands of `circuit` on the gaussian backend; (means, cov) in xxpp order, hbar=2."""
    prog = sf.Program(n)
    with prog.context as q:
        for c in circuit:
            if c.op.__class__.__name__.startswith("Measure"):
                continue
            c.op | tuple(q[r.ind] for r in c.reg)
    st = sf.Engine("gaussian").run(prog).state
    return np.array(st.means()), np.array(st.cov())


def patterns(n, K):
    out = []
    for k in range(K + 1):
        for comb in itertools.combinations_with_replacement(range(n), k):
            v = [0] * n
            for c in comb:
                v[c] += 1
            out.append(v)
    return out


def fock_probs(mu, cov, K):
    from thewalrus.quantum import density_matrix_element
    n = len(mu) // 2
    return np.array([density_matrix_element(mu, cov, p, p, hbar=2).real for p in patterns(n, K)])


def same_photon_stats(s1, s2, K, tol=1e-7):
    p1, p2 = fock_probs(s1[0], s1[1], K), fock_probs(s2[0], s2[1], K)
    return float(np.abs(p1 - p2).max()) <= tol, float(np.abs(p1 - p2).max())


def in_ranges(v, allowed, atol=1e-5):
    """independent re-implementation of the device range semantics: allowed = [x | [lo, hi], ...]"""
    for a in allowed:
        lo, hi = (a[0], a[-1]) if isinstance(a, (list, tuple)) else (a, a)
        if lo - atol <= v <= hi + atol:
            return True
    return False


# =====================================================================================================
# X-series devices

def mesh_pairs(N):
    """MZgate positions of the rectangular_symmetric mesh on N modes (independent of the library)."""
    out = []
    for layer in range(N):
        for k in range(layer % 2, N - 1, 2):
            out.append((k, k + 1))
    return out


def x_layout_cmds(N):
    """structured layout: [name, [template-name or fixed float...], modes]"""
    cmds = []
    for i in range(N):
        cmds.append(["S2gate", ["squeezing_amplitude_%d" % i, 0.0], [i, i + N]])
    pairs = mesh_pairs(N)
    for half in (0, 1):
        for g, (a, b) in enumerate(pairs):
            cmds.append(["MZgate", ["phase_%d" % (2 * g), "phase_%d" % (2 * g + 1)], [a + half * N, b + half * N]])
    for m in range(2 * N):
        cmds.append(["Rgate", ["final_phase_%d" % m], [m]])
    cmds.append(["MeasureFock", [], list(range(2 * N))])
    return cmds


def layout_text(name, target, cmds, header=""):
    lines = ["name " + name, "version 1.0", "target %s (shots=1)" % target]
    if header:
        lines.append(header)
    for nm, ps, modes in cmds:
        args = ", ".join("{%s}" % p if isinstance(p, str) else repr(float(p)) for p in ps)
        lines.append("%s(%s) | [%s]" % (nm, args, ", ".join(map(str, modes))))
    return "\n".join(lines) + "\n"


def x_device_spec(rng, N):
    target = "X%d_01" % (2 * N)
    cmds = x_layout_cmds(N)
    sq = rng.choice([[0, 1.0], [[0, 1.2]], [0, [0.3, 1.0]], [[-1.5, 1.5]]])
    ph = rng.choice([[0, [0, 2 * PI]], [0, [0, 2 * PI]], [[0, PI]], [[-2 * PI, 2 * PI]]])
    fp = rng.choice([[0, [0, 2 * PI]], [0, [0, 2 * PI]], [[-10, 10]]])
    gp = {}
    for nm, ps, _ in cmds:
        for p in ps:
            if isinstance(p, str):
                gp[p] = sq if p.startswith("squeezing") else (ph if p.startswith("phase") else fp)
    modes = rng.choice([2 * N, 2 * N, 2 * N, 2 * N + 2, 2 * N - 1,
                        {"pnr_max": 2 * N, "homodyne_max": 0, "heterodyne_max": 0},
                        {"pnr_max": 2 * N - 1, "homodyne_max": 2, "heterodyne_max": 2}])
    comp = rng.choice([[], ["Xunitary"], ["Xcov"], ["Xstrict"], ["Xunitary", "Xcov"]])
    return {"target": target, "layout": layout_text("template_%dx2" % N, target, cmds), "modes": modes,
            "compiler": comp, "gate_parameters": gp if rng.random() < 0.9 else None}


def x_template_program(rng, N, spec):
    """a program that is the layout itself with parameter values (admissible for Xstrict), possibly perturbed"""
    gp = spec["gate_parameters"] or {}
    vals = {}

    def draw(name):
        if name in vals:
            return vals[name]
        allowed = gp.get(name, [[0, 1]])
        a = rng.choice(allowed)
        v = float(a) if not isinstance(a, (list, tuple)) else rng.uniform(a[0], a[-1])
        if rng.random() < 0.15:
            v = float(a) if not isinstance(a, (list, tuple)) else rng.choice([a[0], a[-1]])
        vals[name] = v
        return v

    cmds = [[nm, [draw(p) if isinstance(p, str) else p for p in ps], list(modes), False] for nm, ps, modes in x_layout_cmds(N)]
    kind = "template"
    r = rng.random()
    body = [c for c in cmds if c[0] != "MeasureFock"]
    if r < 0.12 and body:
        kind = "template-out-of-range"
        c = rng.choice(body)
        c[1][0] = c[1][0] + rng.choice([7.0, -7.0, 2.5])
    elif r < 0.2 and body:
        kind = "template-s2-phase"
        c = rng.choice([c for c in body if c[0] == "S2gate"])
        c[1][1] = rng.choice([0.3, 1e-3, PI])
    elif r < 0.28 and N >= 2:
        kind = "template-wrong-modes"
        c = rng.choice([c for c in body if c[0] in ("MZgate", "S2gate")])
        c[2] = list(reversed(c[2])) if rng.random() < 0.5 else [c[2][0], (c[2][1] + 1) % (2 * N)]
        if c[2][0] == c[2][1]:
            c[2][1] = (c[2][1] + 1) % (2 * N)
    elif r < 0.34 and N >= 2:
        kind = "template-halves-differ"
        c = rng.choice([c for c in body if c[0] == "MZgate"])
        c[1][rng.randrange(2)] += 0.4
    elif r < 0.4:
        kind = "template-dagger"
        c = rng.choice(body)
        c[3] = True
    elif r < 0.46:
        kind = "template-shuffled"
        # commute independent commands: reverse the order of the squeezers, move final phases of half 1 earlier
        s2 = [c for c in cmds if c[0] == "S2gate"]
        rest = [c for c in cmds if c[0] != "S2gate"]
        rng.shuffle(s2)
        cmds = s2 + rest
    elif r < 0.5:
        kind = "template-drop"
        cmds.remove(rng.choice(body))
    return kind, {"n": 2 * N, "cmds": cmds}


def interferometer_cmds(rng, N, kind):
    """commands implementing the same random unitary on modes 0..N-1 and N..2N-1 (or deliberately not)"""
    if kind == "none" or N == 0:
        return []
    if kind in ("interferometer", "mismatch", "single-half"):
        U = rand_unitary(rng, N)
        V = U if kind != "mismatch" else rand_unitary(rng, N, "haar")
        out = [["Interferometer", [mat_to_json(U)], list(range(N)), False]]
        if kind != "single-half":
            out.append(["Interferometer", [mat_to_json(V)], list(range(N, 2 * N)), False])
        if rng.random() < 0.5:
            out.reverse()
        return out
    if kind == "mixing" and N >= 1:
        return [["BSgate", [0.4, 0.1], [0, N], False]]
    # gate sequence
    seq = []
    for _ in range(rng.randint(1, 6)):
        g = rng.choice(["Rgate", "BSgate", "MZgate"] if N >= 2 else ["Rgate"])
        dag = rng.random() < 0.15
        if g == "Rgate":
            seq.append([g, [round(rng.uniform(-PI, PI), 3)], [rng.randrange(N)], dag])
        else:
            a, b = rng.sample(range(N), 2)
            seq.append([g, [round(rng.uniform(-PI, PI), 3), round(rng.uniform(-PI, PI), 3)], [a, b], dag])
    first = [copy.deepcopy(c) for c in seq]
    second = [[c[0], list(c[1]), [m + N for m in c[2]], c[3]] for c in seq]
    if rng.random() < 0.5:
        return first + second
    out = []
    for a, b in zip(first, second):
        out += [a, b] if rng.random() < 0.5 else [b, a]
    return out


DEFECTS = ["meas:partial", "meas:homodyne", "bad:pre-op", "bad:s2-pair", "bad:sgate", "bad:dgate", "bad:odd",
           "U:mismatch", "U:mixing", "U:single-half", "phase-differs", "bad:post-op"]


def x_general_program(rng, N, defect="random"):
    """squeezers (any multiplicity, order, phases, daggers) + interferometer + measurement.
    Either a fully admissible program (55%), or an admissible one with exactly ONE defect, so that each
    rejection path of the compilers is reached on an otherwise valid input."""
    if defect == "random":
        defect = rng.choice(DEFECTS) if rng.random() < 0.45 else None
    tags = []
    sq = []
    mult = []
    dup_budget = 1 if defect else 3
    for i in range(N):
        m = rng.choice([0, 1, 1, 1, 1, 2, 2, 3])
        if m >= 2:
            if dup_budget <= 0:
                m = 1
            dup_budget -= 1
        mult.append(m)
        phi = 0.0 if rng.random() < 0.85 else rng.choice([0.3, PI / 2])
        for _ in range(m):
            r = rng.choice([0.0, 0.3, 1.0, round(rng.uniform(0, 1.0), 3), round(rng.uniform(-0.5, 1.0), 3)])
            sq.append(["S2gate", [r, phi], [i, i + N], (not defect) and rng.random() < 0.06])
    if defect == "phase-differs":
        i = rng.randrange(N)
        sq.append(["S2gate", [0.3, 0.0], [i, i + N], False])
        sq.append(["S2gate", [0.2, 0.25], [i, i + N], False])
    rng.shuffle(sq)
    if any(m == 0 for m in mult):
        tags.append("zero-sq")
    ndup = sum(1 for m in mult if m >= 2)
    if ndup:
        tags.append("dup%d" % min(ndup, 2))
    if defect and defect.startswith("U:") and (N >= 2 or defect == "U:mixing"):
        ik = defect[2:]
    else:
        if defect and defect.startswith("U:"):
            defect = "meas:partial"
        ik = rng.choice(["none", "interferometer", "interferometer", "gates", "gates"])
    inter = interferometer_cmds(rng, N, ik)
    if defect:
        for c in inter:
            c[3] = False
    tags.append("U:" + ik)
    if any(c[3] for c in sq + inter):
        tags.append("dagger")
    n = 2 * N
    mk = defect[5:] if defect and defect.startswith("meas:") else rng.choice(["all", "all", "split"])
    if mk == "all":
        meas = [["MeasureFock", [], list(range(n)), False]]
    elif mk == "split":
        order = list(range(n))
        rng.shuffle(order)
        cut = rng.randint(1, max(1, n - 1))
        meas = [["MeasureFock", [], order[:cut], False]] + ([["MeasureFock", [], order[cut:], False]] if order[cut:] else [])
    elif mk == "partial":
        meas = [["MeasureFock", [], list(range(n - 1)), False]]
    else:
        meas = [["MeasureFock", [], list(range(n - 1)), False], ["MeasureHomodyne", [0.0], [n - 1], False]]
    if mk != "all":
        tags.append("meas:" + mk)
    cmds = sq + inter + meas
    if defect == "bad:pre-op":
        cmds = [["Rgate", [0.3], [0], False]] + cmds
    elif defect == "bad:s2-pair" and N >= 2:
        cmds = [["S2gate", [0.4, 0.0], [0, 1], False]] + cmds
    elif defect == "bad:sgate":
        cmds = [["Sgate", [0.4, 0.0], [0], False]] + cmds
    elif defect == "bad:dgate":
        cmds = [["Dgate", [0.4, 0.0], [0], False]] + cmds
    elif defect == "bad:odd":
        n = n + 1
    elif defect == "bad:post-op":
        cmds = cmds + [["Rgate", [0.3], [0], False]]
    if defect:
        tags.append(defect if not defect.startswith("U:") else "defect")
    return tags, {"n": n, "cmds": cmds}


def reset_compilers():
    for c in ("Xstrict", "Xunitary", "Xcov", "TDM", "TD2", "borealis"):
        compiler_db[c].reset_circuit()


def compile_x(spec, dev_spec, compiler, **kw):
    """-> (kind, compiled or message);  kind in ok | CircuitError | ValueError | raise:<Type>"""
    reset_compilers()
    try:
        prog = build_program(spec)
    except Exception as e:  # malformed spec the front end refuses
        return "build:" + type(e).__name__, str(e)
    try:
        dev = Device(dev_spec) if dev_spec is not None else None
        compiled = prog.compile(device=dev, compiler=compiler, warn_connected=False, **kw)
        return "ok", (prog, compiled)
    except CircuitError as e:
        return "CircuitError", str(e)
    except ValueError as e:
        return "ValueError", str(e)
    except Exception as e:
        return "raise:" + type(e).__name__, "%s: %s" % (type(e).__name__, e)
    finally:
        reset_compilers()


def conform(compiled_cmds, layout_cmds, gate_parameters, n):
    """Independent gate-by-gate / mode-by-mode comparison of a compiled circuit with a structured layout.
    Returns a list of (kind, message); empty = conforms and every parameter is inside its range."""
    bad = []
    if len(compiled_cmds) != len(layout_cmds):
        bad.append(("length", "compiled circuit has %d commands, layout %d" % (len(compiled_cmds), len(layout_cmds))))
    # per-mode sequences (a circuit is determined, up to commuting reorderings, by the sequence on every wire)
    perC = {m: [] for m in range(n)}
    perL = {m: [] for m in range(n)}
    for i, c in enumerate(compiled_cmds):
        for m in c[2]:
            perC.setdefault(m, []).append(i)
    for i, c in enumerate(layout_cmds):
        for m in c[2]:
            perL.setdefault(m, []).append(i)
    mapping = {}
    for m in sorted(set(perC) | set(perL)):
        a, b = perC.get(m, []), perL.get(m, [])
        if len(a) != len(b):
            bad.append(("wire", "mode %d carries %d commands, layout %d" % (m, len(a), len(b))))
            continue
        for i, j in zip(a, b):
            c, l = compiled_cmds[i], layout_cmds[j]
            if c[0] != l[0] or list(c[2]) != list(l[2]):
                bad.append(("gate", "mode %d: %s%s where the layout has %s%s" % (m, c[0], c[2], l[0], l[2])))
            elif mapping.setdefault(i, j) != j:
                bad.append(("gate", "command %d matched to two layout positions" % i))
    if bad:
        return bad
    if len(set(mapping.values())) != len(mapping) or len(mapping) != len(layout_cmds):
        return [("gate", "matching is not a bijection")]
    values = {}
    for i, j in mapping.items():
        c, l = compiled_cmds[i], layout_cmds[j]
        if c[3]:
            bad.append(("dagger", "%s%s is daggered in the compiled circuit; the layout gate is not" % (c[0], c[2])))
        if len(c[1]) != len(l[1]):
            bad.append(("arity", "%s has %d parameters, layout %d" % (c[0], len(c[1]), len(l[1]))))
            continue
        for v, t in zip(c[1], l[1]):
            if isinstance(v, str):
                bad.append(("symbolic", "%s%s keeps a free parameter %s" % (c[0], c[2], v)))
            elif isinstance(t, str):
                values.setdefault(t, []).append(v)
            elif abs(v - t) > 1e-8:
                bad.append(("fixed", "%s%s has %r where the layout fixes %r" % (c[0], c[2], v, t)))
    for name, vs in values.items():
        if max(vs) - min(vs) > 1e-6:
            bad.append(("shared", "template parameter %s gets different values %r" % (name, vs)))
        if gate_parameters is not None:
            if name not in gate_parameters:
                bad.append(("unknown", "template parameter %s not in the device's gate_parameters" % name))
            else:
                for v in vs:
                    if not in_ranges(v, gate_parameters[name]):
                        bad.append(("range", "%s = %r outside %r" % (name, v, gate_parameters[name])))
    return bad


def n_dup_pairs(spec):
    N = spec["n"] // 2
    cnt = {}
    for c in spec["cmds"]:
        if c[0] == "S2gate":
            cnt[tuple(c[2])] = cnt.get(tuple(c[2]), 0) + 1
    return sum(1 for v in cnt.values() if v >= 2), N


def has_dagger(spec, names=None):
    return any(c[3] and (names is None or c[0] in names) for c in spec["cmds"])


def check_x_case(ctx, tags, spec, dev_spec, compiler, K, opts=None):
    """evaluate the property on one (program, device, compiler); report counterexamples; return bucket.
    compiler=None: the device's default compiler is used by Program.compile (and named here independently)"""
    opts = opts or {}
    data = {"family": "x", "spec": spec, "device": dev_spec, "compiler": compiler, "K": K, "tags": tags, "opts": opts}
    kind, res = compile_x(spec, dev_spec, compiler, **opts)
    if compiler is None:
        compiler = (dev_spec["compiler"] or ["Xunitary"])[0]
        if kind == "ok" and res[1]._compile_info[1] != compiler:
            ctx.counterexample("x:default-compiler", "Program.compile(device) used compiler %r, the device's default is %r" % (res[1]._compile_info[1], compiler), data)
    lc = compiler.lower()
    if kind in ("CircuitError", "ValueError") or kind.startswith("build:"):
        return kind
    if kind.startswith("raise:"):
        ndup, _ = n_dup_pairs(spec)
        site = "s2-merge" if (compiler == "Xunitary" and ndup >= 2 and kind == "raise:IndexError") else "compile"   # (fixed by 40078be)
        ctx.counterexample("%s:%s:%s" % (lc, site, kind[6:]),
                           "%s raised %s instead of a CircuitError / ValueError" % (compiler, res), data)
        return kind
    prog, compiled = res
    n = spec["n"]
    ccmds = cmds_of(compiled.circuit)
    # (1) layout conformance + ranges (independent comparison)
    N = n // 2
    gp = dev_spec["gate_parameters"] if dev_spec is not None else None
    default = ((dev_spec["compiler"] or ["Xunitary"])[0]) if dev_spec is not None else None
    if n % 2 != 0:
        bad = [("length", "odd number of modes accepted")] if (dev_spec is not None or compiler != "Xstrict") else []
    elif dev_spec is None:
        # no hardware target given: Xunitary / Xcov still promise the X-series topology; Xstrict promises nothing
        bad = [] if compiler == "Xstrict" else [b for b in conform(ccmds, x_layout_cmds(N), None, n) if b[0] != "fixed"]
    else:
        bad = conform(ccmds, x_layout_cmds(N), gp, n)
    if dev_spec is not None and dev_spec["modes"] is not None:
        md = dev_spec["modes"]
        nfock = sum(len(c[2]) for c in ccmds if c[0] == "MeasureFock")
        if (isinstance(md, int) and n > md) or (isinstance(md, dict) and nfock > md.get("pnr_max", nfock)):
            ctx.counterexample("x:modes-limit-ignored", "%s compiled a %d-mode program (%d Fock measurements) for a device limited to %r" % (compiler, n, nfock, md), data)
    seen = set()
    for k, msg in bad:
        if k == "dagger":
            sig = "x:dagger-survives-compile"
        elif compiler == "Xstrict" and gp is None and default != "Xstrict":
            sig = "xstrict:layout-unchecked"             # recorded: nothing checks the topology in this configuration
        elif compiler == "Xstrict" and gp is None and k == "shared":
            sig = "xstrict:shared-template-parameter-unchecked"   # recorded: the graph check does not know template names
        elif k == "fixed" and not (compiler == "Xstrict" and default == "Xstrict"):
            sig = "x:fixed-parameter-unchecked"          # recorded: Xstrict as the default compiler is the only checked case
        else:
            sig = "%s:layout:%s" % (lc, k)
        if sig in seen:
            continue
        seen.add(sig)
        ctx.counterexample(sig, "%s returned a circuit that does not conform to the device: %s" % (compiler, msg),
                           dict(data, observed=ccmds))
    # (2) same experiment
    try:
        s_src = gaussian_state(n, prog.circuit)
        s_cmp = gaussian_state(n, compiled.circuit)
    except Exception as e:
        ctx.counterexample("%s:simulate:%s" % (lc, type(e).__name__), "cannot simulate source/compiled: %s" % e, data)
        return "ok"
    exact = states_equal(s_src, s_cmp)
    if not exact:
        same, dev_ = same_photon_stats(s_src, s_cmp, K)
        if not same or compiler in ("Xstrict", "Xunitary"):
            cls = classify_state_change(spec, compiler, ccmds, s_cmp, K)
            what = ("%s compiled a program into one with different photon statistics (max Fock-probability difference %.3g)"
                    % (compiler, dev_)) if not same else \
                   ("%s changed the Gaussian state (max covariance difference %.3g) although it compiles at the unitary level"
                    % (compiler, float(np.abs(s_src[1] - s_cmp[1]).max())))
            ctx.counterexample("%s:%s" % (lc, cls), what, dict(data, observed=ccmds))
    return "ok"


def states_equal(a, b, tol=1e-7):
    return bool(np.allclose(a[0], b[0], atol=tol, rtol=0) and np.allclose(a[1], b[1], atol=tol, rtol=0))


def s2_lost(spec, ccmds):
    """the compiled S2gates are not one per pair with the signed sum of the source r's"""
    N = spec["n"] // 2
    want = {}
    for c in spec["cmds"]:
        if c[0] == "S2gate":
            want[tuple(c[2])] = want.get(tuple(c[2]), 0.0) + (-c[1][0] if c[3] else c[1][0])
    got = {}
    for c in ccmds:
        if c[0] == "S2gate":
            got.setdefault(tuple(c[2]), []).append(-c[1][0] if c[3] else c[1][0])
    return any(len(got.get((i, i + N), [])) != 1 or abs(got[(i, i + N)][0] - want.get((i, i + N), 0.0)) > 1e-9 for i in range(N))


def classify_state_change(spec, compiler, ccmds, s_cmp, K):
    """name the specific cause when it is one of the recorded ones (and only then)"""
    if compiler == "Xunitary" and s2_lost(spec, ccmds):
        return "s2-stage:wrong-squeezers"
    if has_dagger(spec):
        # is the compiled state exactly what the source would give with the daggers of some gates dropped?
        cnt = {}
        for c in spec["cmds"]:
            if c[0] == "S2gate":
                cnt[tuple(c[2])] = cnt.get(tuple(c[2]), 0) + 1

        def matches(stripped):
            try:
                s_str = gaussian_state(spec["n"], build_program(stripped).circuit)
                return states_equal(s_str, s_cmp) or same_photon_stats(s_str, s_cmp, K)[0]
            except Exception:
                return False
        # H1: only the daggers of squeezers that take part in a merge are lost (Xunitary's r += op.p[0])
        if compiler == "Xunitary":
            h1 = copy.deepcopy(spec)
            changed = False
            for c in h1["cmds"]:
                if c[3] and c[0] == "S2gate" and cnt[tuple(c[2])] >= 2:
                    c[3] = False
                    changed = True
            if changed and matches(h1):
                return "s2-merge-dagger-ignored"
        # H2: every dagger is lost
        h2 = copy.deepcopy(spec)
        for c in h2["cmds"]:
            c[3] = False
        if matches(h2):
            return "dagger-ignored"
    return "state-changed"


# =====================================================================================================
# Borealis / TDM

BOREALIS_DELAYS = [1, 6, 36]


def borealis_layout_cmds():
    return [["Sgate", ["s", 0.0], [43]],
            ["Rgate", ["r0"], [43]], ["BSgate", ["bs0", PI / 2], [42, 43]], ["Rgate", ["loop0_phase"], [43]],
            ["Rgate", ["r1"], [42]], ["BSgate", ["bs1", PI / 2], [36, 42]], ["Rgate", ["loop1_phase"], [42]],
            ["Rgate", ["r2"], [36]], ["BSgate", ["bs2", PI / 2], [0, 36]], ["Rgate", ["loop2_phase"], [36]],
            ["MeasureFock", [], [0]]]


def borealis_device_spec(loop_phases, tm=259, ranges=None):
    head = ["type tdm (temporal_modes=%d, copies=1)" % tm]
    for i, nm in enumerate(["s", "r0", "bs0", "loop1_phase", "r1", "bs1", "loop2_phase", "r2", "bs2", "loop3_phase"]):
        head.append("float array p%d[1, %d] =\n    {%s}" % (i, tm, nm))
    gp = {"s": [[0, 2]], "r0": [[-PI / 2, PI / 2]], "bs0": [[0, PI / 2]], "loop0_phase": [[-PI, PI]],
          "r1": [[-PI / 2, PI / 2]], "bs1": [[0, PI / 2]], "loop1_phase": [[-PI, PI]],
          "r2": [[-PI / 2, PI / 2]], "bs2": [[0, PI / 2]], "loop2_phase": [[-PI, PI]]}
    gp.update(ranges or {})
    spec = {"target": "borealis", "layout": layout_text("template_borealis", "borealis", borealis_layout_cmds(), "\n".join(head)),
            "modes": {"temporal_max": 331, "concurrent": 44, "spatial": 1}, "compiler": ["borealis"], "gate_parameters": gp}
    cert = {"target": "borealis", "loop_phases": list(loop_phases), "schmidt_number": 1.333, "common_efficiency": 0.55,
            "loop_efficiencies": [0.9, 0.8, 0.7], "squeezing_parameters_mean": {"low": 0.1, "medium": 0.3, "high": 0.5},
            "relative_channel_efficiencies": [round(0.9 + 0.005 * i, 3) for i in range(16)]}
    return spec, cert


def borealis_program(case):
    """case: {"args": 7 arrays, "offsets": [v|None]*3, "mut": optional mutation}"""
    n, N = get_mode_indices(BOREALIS_DELAYS)
    n = [int(x) for x in n]
    mut = case.get("mut")
    prog = TDMProgram(N)
    with prog.context(*case["args"]) as (p, q):
        if mut == "first-op":
            ops.Rgate(p[0]) | q[n[0]]
        else:
            ops.Sgate(p[0]) | q[n[0]]
        for i in range(3):
            ops.Rgate(p[2 * i + 1]) | q[n[i]]
            if mut == "no-last-bs" and i == 2:
                break
            if mut == "bs-modes" and i == 1:
                ops.BSgate(p[2 * i + 2], PI / 2) | (q[n[i]], q[n[i + 1]])
            elif mut == "bs-phase" and i == 1:
                ops.BSgate(p[2 * i + 2], 0.3) | (q[n[i + 1]], q[n[i]])
            else:
                ops.BSgate(p[2 * i + 2], PI / 2) | (q[n[i + 1]], q[n[i]])
            if case["offsets"][i] is not None:
                ops.Rgate(case["offsets"][i]) | q[n[i]]
        if mut == "extra":
            ops.Rgate(0.1) | q[0]
        if mut not in ("no-measure", "no-last-bs"):
            ops.MeasureFock() | q[0]
    return prog


def tdm_state(prog):
    """space-unroll a TDM program, strip measurements, run gaussian; reduced state of the measured pulses in time order"""
    from thewalrus.quantum import reduced_gaussian
    p = copy.deepcopy(prog)
    p.space_unroll()
    meas = []
    q = sf.Program(p.num_subsystems)
    with q.context as r:
        for c in p.circuit:
            if c.op.__class__.__name__.startswith("Measure"):
                meas += [x.ind for x in c.reg]
            else:
                c.op | tuple(r[x.ind] for x in c.reg)
    st = sf.Engine("gaussian").run(q).state
    return reduced_gaussian(np.array(st.means()), np.array(st.cov()), meas)


def gen_borealis_case(rng, T=None):
    T = T or rng.choice([4, 6, 8, 10, 12, 14])
    g = nprng(rng)
    wide = rng.random() < 0.45          # phases that need the +-pi range correction
    lo, hi = (-PI, PI) if wide else (-0.25, 0.25)
    args = [[round(float(x), 4) for x in g.uniform(0.2, 1.0, T)]]
    for i in range(3):
        args.append([round(float(x), 4) for x in g.uniform(lo, hi, T)])
        args.append([round(float(x), 4) for x in g.uniform(0.2, 1.3, T)])
    if rng.random() < 0.15:
        i = rng.choice([1, 3, 5])
        args[i] = [rng.choice([0.0, PI / 2, -PI / 2, PI, 1]) for _ in range(T)]   # boundary values, ints
    if rng.random() < 0.08:
        args[0][rng.randrange(T)] = 2.5                                           # squeezing out of range
    if rng.random() < 0.08:
        args[2][rng.randrange(T)] = -0.3                                          # bs out of range
    phases = [rng.choice([0.0, 0.1, -0.1, 3.0, round(rng.uniform(-PI, PI), 3)]) for _ in range(3)]
    small = rng.random() < 0.5
    if small:
        phases = [rng.choice([0.0, 0.01, -0.02]) for _ in range(3)]
    offsets = [None, None, None]
    if rng.random() < 0.35:
        for i in range(3):
            if rng.random() < 0.5:
                offsets[i] = phases[i] if rng.random() < 0.8 else round(rng.uniform(-1, 1), 3)
    mut = rng.choice(["first-op", "bs-modes", "bs-phase", "extra", "no-measure", "no-last-bs"]) if rng.random() < 0.15 else None
    return {"args": args, "offsets": offsets, "loop_phases": phases, "mut": mut, "loss": rng.random() < 0.4}


class _Capture:
    """records Borealis._user_offsets when update_params runs"""
    def __init__(self):
        self.user_offsets = None

    def __enter__(self):
        self.orig = tdm_mod.Borealis.update_params
        cap = self

        def patched(self_, program, device):
            cap.user_offsets = list(getattr(self_, "_user_offsets", []))
            return cap.orig(self_, program, device)
        tdm_mod.Borealis.update_params = patched
        return self

    def __exit__(self, *a):
        tdm_mod.Borealis.update_params = self.orig


def compile_borealis(case):
    reset_compilers()
    spec, cert = borealis_device_spec(case["loop_phases"])
    try:
        prog = borealis_program(case)
    except Exception as e:
        return "build:" + type(e).__name__, str(e), None
    src_cmds = list(prog.circuit)
    with _Capture() as cap:
        try:
            compiled = prog.compile(device=Device(spec, cert))
            return "ok", (prog, compiled, src_cmds, spec), cap.user_offsets
        except CircuitError as e:
            return "CircuitError", str(e), cap.user_offsets
        except ValueError as e:
            return "ValueError", str(e), cap.user_offsets
        except Exception as e:
            return "raise:" + type(e).__name__, "%s: %s" % (type(e).__name__, e), cap.user_offsets
        finally:
            reset_compilers()


def check_realistic_loss(ctx, case, plain, data):
    """Program.compile(realistic_loss=True): same acceptance, same circuit once the loss channels are taken out, and the
    loss channels are those of the device certificate (after the squeezer: common efficiency; on the mode entering loop
    k: that loop's efficiency; before the detector: the relative channel efficiencies, repeated every 16 bins)"""
    reset_compilers()
    spec, cert = borealis_device_spec(case["loop_phases"])
    try:
        lossy = borealis_program(case).compile(device=Device(spec, cert), realistic_loss=True)
    except Exception as e:
        reset_compilers()
        ctx.counterexample("borealis:realistic-loss:" + type(e).__name__, "the program compiles, but not with realistic_loss=True: %s: %s" % (type(e).__name__, e), data)
        return
    reset_compilers()
    lc, pc = tdm_cmds(lossy), tdm_cmds(plain)
    T = len(case["args"][0])
    if [c for c in lc if c[0] != "LossChannel"] != pc:
        ctx.counterexample("borealis:realistic-loss:circuit-changed", "apart from the loss channels the circuit differs from the one compiled without loss", data)
        return
    want = []
    loop = 0
    rel = (cert["relative_channel_efficiencies"] * (T // 16 + 1))[:T]
    for c in pc:
        if c[0] == "MeasureFock":
            want.append(["LossChannel", [[float(x) for x in rel]], list(c[2])])
        want.append(None)
        if c[0] == "Sgate":
            want.append(["LossChannel", [cert["common_efficiency"]], list(c[2])])
        if c[0] == "BSgate":
            want.append(["LossChannel", [cert["loop_efficiencies"][loop]], [c[2][1]]])
            loop += 1
    got = [None if c[0] != "LossChannel" else [c[0], c[1], list(c[2])] for c in lc]
    def close(a, b):
        if a is None or b is None:
            return a is b
        pa, pb = a[1][0], b[1][0]
        pa = pa if isinstance(pa, list) else [pa]
        pb = pb if isinstance(pb, list) else [pb]
        return a[2] == b[2] and len(pa) == len(pb) and all(abs(x - y) < 1e-12 for x, y in zip(pa, pb))
    if len(got) != len(want) or not all(close(a, b) for a, b in zip(got, want)):
        ctx.counterexample("borealis:realistic-loss:wrong-channels", "loss channels %r; the certificate asks for %r"
                           % ([g for g in got if g], [[w[0], [p if not isinstance(p, list) else p[:3] for p in w[1]], w[2]] for w in want if w]), data)


def tdm_cmds(prog):
    """commands with array parameters resolved to the per-time-bin value lists"""
    out = []
    for c in prog.circuit:
        ps = []
        for p in c.op.p:
            s = str(p)
            if s.startswith("{") or (s.startswith("p") and s[1:].isdigit()):
                idx = int(s.strip("{}")[1:])
                ps.append([float(x) for x in prog.tdm_params[idx]])
            else:
                try:
                    ps.append(float(p))
                except Exception:
                    ps.append(s)
        out.append([c.op.__class__.__name__, ps, [r.ind for r in c.reg], bool(getattr(c.op, "dagger", False))])
    return out


def conform_tdm(ccmds, layout_cmds, gp, fixed_names):
    """gate for gate, in order (a time-domain layout is a fixed sequence); arrays checked element-wise"""
    bad = []
    if len(ccmds) != len(layout_cmds):
        return [("length", "compiled circuit has %d commands, layout %d" % (len(ccmds), len(layout_cmds)))]
    for c, l in zip(ccmds, layout_cmds):
        if c[0] != l[0] or list(c[2]) != list(l[2]):
            bad.append(("gate", "%s%s where the layout has %s%s" % (c[0], c[2], l[0], l[2])))
            continue
        if c[3]:
            bad.append(("dagger", "%s%s daggered" % (c[0], c[2])))
        if len(c[1]) != len(l[1]):
            bad.append(("arity", "%s has %d parameters, layout %d" % (c[0], len(c[1]), len(l[1]))))
            continue
        for v, t in zip(c[1], l[1]):
            vs = v if isinstance(v, list) else [v]
            if any(isinstance(x, str) for x in vs):
                bad.append(("symbolic", "%s%s keeps a free parameter %s" % (c[0], c[2], v)))
            elif isinstance(t, str):
                if t in fixed_names and abs(vs[0] - fixed_names[t]) > 1e-9:
                    bad.append(("offset", "%s is %r, the device certificate says %r" % (t, vs[0], fixed_names[t])))
                if gp is not None and t in gp:
                    for x in vs:
                        if not in_ranges(x, gp[t]):
                            bad.append(("range", "%s = %r outside %r" % (t, x, gp[t])))
                            break
            elif abs(vs[0] - t) > 1e-8:
                bad.append(("fixed", "%s%s has %r where the layout fixes %r" % (c[0], c[2], vs[0], t)))
    return bad


_VARIANT = {}


def borealis_variant():
    """Which of the two modelled variants of Borealis.update_params / Borealis.compile the implementation shows
    (decided by behaviour on two fixed inputs, once per run): 'partial' = a user-set loop is still adjusted for the
    correction of the previous loop (fix-borealis-partial-user-offsets); 'trunc' = appended loop offsets get a
    _user_offsets entry (fix-borealis-truncated-program)."""
    if not _VARIANT:
        T = 4
        base = {"args": [[0.5] * T, [0.1] * T, [0.7] * T, [0.1] * T, [0.7] * T, [0.1] * T, [0.7] * T],
                "loop_phases": [0.3, 0.1, 0.2], "mut": None}
        try:
            new = impl_update_params(dict(base, offsets=[None, 0.1, None]))
            _VARIANT["partial"] = any(abs(a - 0.1) > 1e-12 for a in new[1])
        except Exception:
            _VARIANT["partial"] = False
        kind, res, uo = compile_borealis(dict(base, offsets=[None, None, None], mut="no-measure"))
        _VARIANT["trunc"] = (uo is not None and len(uo) == 3)
    return _VARIANT


def expected_pre(case, fx):
    """per loop: None if the loop is left untouched, else the list of uncorrected phases  phi + corr_loop - corr_prev"""
    T = len(case["args"][0])
    out = []
    corr_prev = [0.0] * T
    for loop in range(3):
        user = case["offsets"][loop] is not None
        if user and (not fx or not any(corr_prev)):
            out.append(None)
            continue
        corr = [0.0] * T if user else [case["loop_phases"][loop] * int(j / BOREALIS_DELAYS[loop]) for j in range(T)]
        out.append([a + corr[j] - corr_prev[j] for j, a in enumerate(case["args"][1 + 2 * loop])])
        corr_prev = corr
    return out


def check_borealis_case(ctx, case, K):
    data = {"family": "borealis", "case": case, "K": K}
    kind, res, uo = compile_borealis(case)
    if kind in ("CircuitError", "ValueError") or kind.startswith("build:"):
        return kind, False
    if kind.startswith("raise:"):
        if kind == "raise:IndexError" and case.get("mut") in ("no-measure", "no-last-bs"):
            ctx.counterexample("borealis:truncated-program:IndexError", "a borealis program that stops before the end of the layout (%s) is completed from the layout by "
                               "Borealis.compile, but _user_offsets then has fewer entries than loops and update_params raises %s" % (case["mut"], res), data)
        else:
            ctx.counterexample("borealis:compile:" + kind[6:], "borealis compilation raised %s" % res, data)
        return kind, False
    prog, compiled, src_cmds, spec = res
    ccmds = tdm_cmds(compiled)
    fixed = {}
    for i in range(3):
        if case["offsets"][i] is None:
            fixed["loop%d_phase" % i] = case["loop_phases"][i]
    bad = conform_tdm(ccmds, borealis_layout_cmds(), spec["gate_parameters"], fixed)
    for k, msg in bad[:3]:
        ctx.counterexample("borealis:layout:" + k, "borealis returned a circuit that does not conform to the device: " + msg,
                           dict(data, observed=[[c[0], [p if not isinstance(p, list) else p[:4] for p in c[1]], c[2]] for c in ccmds]))
    # which phases were moved by an odd multiple of pi relative to the exact compensation?
    var = borealis_variant()
    src_args = case["args"]
    shifted = {0: 0, 1: 0, 2: 0}
    odd = {0: [], 1: [], 2: []}
    compensated = False
    pre = expected_pre(case, var["partial"])
    for loop in range(3):
        new = [float(x) for x in compiled.tdm_params[1 + 2 * loop]]
        if pre[loop] is None:
            if new != [float(x) for x in src_args[1 + 2 * loop]]:
                ctx.counterexample("borealis:user-loop-changed", "loop %d has a user-set offset and nothing to undo, but its phases were changed" % loop, data)
            continue
        for j, (a, want, b) in enumerate(zip(src_args[1 + 2 * loop], pre[loop], new)):
            k = (b - want) / PI
            if abs(want - a) > 1e-12:
                compensated = True
            if abs(k - round(k)) > 1e-6:
                ctx.counterexample("borealis:phase-not-congruent", "loop %d bin %d: compensated phase %r is not congruent "
                                   "to %r modulo pi" % (loop, j, b, want), data)
            elif int(round(k)) % 2 != 0:
                shifted[loop] += 1
                odd[loop].append(j)
                # a phase that already is inside the modulator range must not be moved at all
                w = want % (2 * PI)
                w = w - 2 * PI if w > PI else w
                exact = (want == a)            # no correction added: no rounding between the harness and the code
                if abs(w) < PI / 2 - 1e-9 or (exact and abs(w) <= PI / 2):
                    ctx.counterexample("borealis:needless-pi-shift", "loop %d bin %d: the compensated phase %r is inside [-pi/2, pi/2] but was moved to %r"
                                       % (loop, j, w, b), data)
    if case.get("loss"):
        check_realistic_loss(ctx, case, compiled, data)
    # same experiment (a source that stops before its measurement is not a complete experiment: nothing to compare)
    if case.get("mut") in ("no-measure", "no-last-bs"):
        return "ok", compensated
    try:
        s_src, s_cmp = tdm_state(prog), tdm_state(compiled)
        same, dev_ = same_photon_stats(s_src, s_cmp, K)
    except Exception as e:
        ctx.counterexample("borealis:simulate:" + type(e).__name__, "cannot simulate source/compiled: %s" % e, data)
        return "ok", compensated
    if not same:
        partial = any(o is not None for o in case["offsets"]) and not all(o is not None for o in case["offsets"])
        # hypothesis: the only cause is the +-pi range correction -> undo the odd shifts and compare again
        undone = copy.deepcopy(compiled)
        for loop, js in odd.items():
            arr = list(undone.tdm_params[1 + 2 * loop])
            for j in js:
                arr[j] = arr[j] + PI
            undone.tdm_params[1 + 2 * loop] = arr
        try:
            pi_only = any(odd.values()) and same_photon_stats(s_src, tdm_state(undone), K)[0]
        except Exception:
            pi_only = False
        if pi_only:
            sig = "borealis:pi-range-correction"
            what = ("borealis moved %d/%d/%d phase arguments of loops 0/1/2 by an odd multiple of pi to fit the modulator range; "
                    "the compiled program has different photon statistics (max Fock-probability difference %.3g)"
                    % (shifted[0], shifted[1], shifted[2], dev_))
        elif partial and not var["partial"]:
            sig = "borealis:partial-user-offsets"
            what = ("with loop offsets given by the user for some loops only (%r), the phases of the user-set loops are not adjusted for the "
                    "compensation applied to the previous loop; photon statistics change (max Fock-probability difference %.3g)"
                    % ([o is not None for o in case["offsets"]], dev_))
        else:
            sig = "borealis:stats-changed"
            what = "borealis compiled program has different photon statistics (max Fock-probability difference %.3g)" % dev_
        ctx.counterexample(sig, what, data)
    return "ok", compensated


# --- generic single-loop TDM device (TDM / TD2 compilers) ------------------------------------------------

def tdm_layout_cmds(meas):
    return [["Sgate", [0.5643, 0.0], [1]], ["BSgate", ["bs", 0.0], [1, 0]], ["Rgate", ["r"], [1]], [meas, ["m"] if meas == "MeasureHomodyne" else [], [0]]]


def tdm_device_spec(target, tm, meas="MeasureHomodyne"):
    head = "type tdm (temporal_modes=%d, copies=1)\nfloat array p1[1, %d] =\n    {r}\nfloat array p2[1, %d] =\n    {bs}\nfloat array p3[1, %d] =\n    {m}" % (tm, tm, tm, tm)
    gp = {"bs": [0, [0, 2 * PI]], "r": [0, [0, PI]], "m": [0, [0, 2 * PI]]}
    return {"target": target, "layout": layout_text("template_tdm", target, tdm_layout_cmds(meas), head),
            "modes": {"concurrent": 2, "spatial": 1, "temporal_max": 20}, "compiler": [target], "gate_parameters": gp}


def gen_tdm_case(rng):
    T = rng.choice([2, 3, 4, 6, 25])
    g = nprng(rng)
    case = {"target": rng.choice(["TDM", "TD2"]), "T": T,
            "bs": [round(float(x), 3) for x in g.uniform(0, 2 * PI, T)],
            "r": [round(float(x), 3) for x in g.uniform(0, PI, T)],
            "m": [round(float(x), 3) for x in g.uniform(0, 2 * PI, T)],
            "sq": 0.5643, "mut": None}
    r = rng.random()
    if r < 0.1:
        case["mut"] = "sq"; case["sq"] = 0.5
    elif r < 0.2:
        case["mut"] = "range"; case["r"][rng.randrange(T)] = rng.choice([-0.5, 4.0])
    elif r < 0.3:
        case["mut"] = "bs-order"
    elif r < 0.4:
        case["mut"] = "dgate"
    elif r < 0.5:
        case["mut"] = "boundary"; case["r"][0] = PI + 5e-6; case["bs"][0] = 0.0
    return case


def check_tdm_case(ctx, case):
    data = {"family": "tdm", "case": case}
    reset_compilers()
    spec = tdm_device_spec(case["target"], 4)
    try:
        prog = TDMProgram(N=2)
        with prog.context(case["bs"], case["r"], case["m"]) as (p, q):
            (ops.Dgate(case["sq"]) if case["mut"] == "dgate" else ops.Sgate(case["sq"], 0)) | q[1]
            ops.BSgate(p[0]) | ((q[0], q[1]) if case["mut"] == "bs-order" else (q[1], q[0]))
            ops.Rgate(p[1]) | q[1]
            ops.MeasureHomodyne(p[2]) | q[0]
        compiled = prog.compile(device=Device(spec), compiler=case["target"])
    except (CircuitError, ValueError) as e:
        reset_compilers()
        return type(e).__name__
    except Exception as e:
        reset_compilers()
        ctx.counterexample("tdm:compile:" + type(e).__name__, "%s compilation raised %s: %s" % (case["target"], type(e).__name__, e), data)
        return "raise:" + type(e).__name__
    reset_compilers()
    ccmds = tdm_cmds(compiled)
    bad = conform_tdm(ccmds, tdm_layout_cmds("MeasureHomodyne"), spec["gate_parameters"], {})
    if case["T"] > spec["modes"]["temporal_max"]:
        bad.append(("temporal", "%d time bins accepted, device supports %d" % (case["T"], spec["modes"]["temporal_max"])))
    for k, msg in bad[:3]:
        ctx.counterexample("tdm:layout:" + k, "%s returned a circuit that does not conform to the device: %s" % (case["target"], msg),
                           dict(data, observed=[[c[0], [p if not isinstance(p, list) else p[:4] for p in c[1]], c[2]] for c in ccmds]))
    return "ok"



# =====================================================================================================
# tdm/utils.py : vacuum_padding, make_squeezing_compatible, make_phases_compatible, full_compile, borealis_gbs,
#                to_args_list / to_args_dict, get_mode_indices

from strawberryfields.tdm import utils as tdmu  # noqa: E402

LOOP_PATTERNS = ["bypass", "cross", "lead-full", "lead-over", "lead-short", "lead-none", "zeros-then-swap",
                 "trailing-zeros", "single-last"]
SQ_ALLOWED = {"low": 0.1, "medium": 0.3, "high": 0.5}


def loop_pattern(rng, kind, L, delay):
    """a loop's BSgate list of length L: every state pattern the padding arithmetic distinguishes"""
    gen = lambda: round(rng.uniform(0.3, 1.2), 3)
    if kind == "bypass":
        return [PI / 2] * L
    if kind == "cross":
        return [0.0] * L
    if kind == "zeros-then-swap":
        k = rng.randint(0, min(L, delay))
        return [0.0] * k + [PI / 2] * (L - k)
    if kind == "single-last":
        return [0.0] * (L - 1) + [gen()]
    k = {"lead-full": delay, "lead-over": delay + rng.randint(1, 2), "lead-short": rng.randint(1, max(1, delay - 1)) if delay > 1 else 0,
         "lead-none": 0, "trailing-zeros": delay}[kind]
    a = [0.0] * min(k, L) + [gen() for _ in range(max(0, L - k))]
    if kind == "trailing-zeros" and L - k >= 2:
        for j in range(rng.randint(1, L - k - 1)):
            a[L - 1 - j] = 0.0
    return a


def lead_zeros(a):
    for i, v in enumerate(a):
        if v != 0:
            return i
    return len(a)


def padding_oracle(alphas, delays):
    """independent statement of the arithmetic: a loop delays the first light by min(leading zeros, delay), and by its
    full delay when it is in the cross state for the whole job"""
    pro, arr = [], 0
    for a, D in zip(alphas, delays):
        pro.append(arr)
        k = lead_zeros(a)
        arr += D if k == len(a) else min(k, D)
    return pro, [arr - x for x in pro], arr


def tdm_loops_program(delays, args_list):
    n, N = get_mode_indices(delays)
    n = [int(x) for x in n]
    prog = TDMProgram(int(N))
    with prog.context(*args_list) as (p, q):
        ops.Sgate(p[0]) | q[n[0]]
        for i in range(len(delays)):
            ops.Rgate(p[2 * i + 1]) | q[n[i]]
            ops.BSgate(p[2 * i + 2], PI / 2) | (q[n[i + 1]], q[n[i]])
        ops.MeasureFock() | q[0]
    return prog


def tdm_mean_photons(prog):
    """space-unrolled gaussian simulation: (mean photon number per detected time bin, total mean photon number)"""
    from thewalrus.quantum import photon_number_mean_vector
    p = copy.deepcopy(prog)
    p.space_unroll()
    meas = []
    q = sf.Program(p.num_subsystems)
    with q.context as r:
        for c in p.circuit:
            if c.op.__class__.__name__.startswith("Measure"):
                meas += [x.ind for x in c.reg]
            else:
                c.op | tuple(r[x.ind] for x in c.reg)
    st = sf.Engine("gaussian").run(q).state
    nvec = np.array(photon_number_mean_vector(np.array(st.means()), np.array(st.cov())))
    return nvec[meas], float(nvec.sum())


def physical_padding_check(ctx, sig_prefix, prog, args_list, crop, L, flushable, all_squeezed, data):
    """the property's own predicate on a padded time-domain job: the first `crop` detected bins are vacuum, bin `crop`
    is not, `L` bins remain, and (if every loop is flushed by its padding) no light is left in the loops"""
    T = len(args_list[0])
    nbins, total = tdm_mean_photons(prog)
    produced = float(np.sum(np.sinh(np.array(args_list[0], dtype=float)) ** 2))
    bad = []
    if len(nbins) != T:
        bad.append(("bins", "%d detected bins for %d time bins" % (len(nbins), T)))
    if T - crop != L:
        bad.append(("length", "%d time bins are left after cropping %d, the job has %d pulses" % (T - crop, crop, L)))
    if crop > 0 and crop <= len(nbins) and float(np.max(np.abs(nbins[:crop]))) > 1e-9:
        bad.append(("crop-not-vacuum", "one of the first crop=%d detected bins is not vacuum (max <n> = %.3g)" % (crop, float(np.max(nbins[:crop])))))
    if all_squeezed and (crop >= len(nbins) or nbins[crop] < 1e-7):
        bad.append(("first-pulse-late", "detected bin crop=%d is vacuum: the first light arrives later than reported" % crop))
    if flushable and abs(total - float(np.sum(nbins))) > 1e-7:
        bad.append(("light-left-in-loops", "%.4g of %.4g photons are still inside the delay loops when the job ends"
                    % (total - float(np.sum(nbins)), produced)))
    if abs(total - produced) > 1e-7:
        bad.append(("photons", "total photon number %.6g differs from what the squeezers produce %.6g" % (total, produced)))
    for k, msg in bad[:2]:
        ctx.counterexample("%s:%s" % (sig_prefix, k), "padded time-domain job is not the source experiment: " + msg, data)
    return not bad


def is_flushable(alphas, delays):
    return all(all(v == PI / 2 for v in a) or lead_zeros(a) >= min(D, len(a)) and (lead_zeros(a) >= D or lead_zeros(a) == len(a))
               for a, D in zip(alphas, delays))


def gen_padding_case(rng, delays=None, L=None, kinds=None):
    delays = delays or rng.choice([[1, 2, 3], [2, 3, 5], [1, 3, 4], [1, 6, 36], [2, 1, 4]])
    L = L or rng.choice(sorted({1, 2, 3} | {max(1, d + e) for d in delays for e in (-1, 0, 1)}))
    kinds = kinds or [rng.choice(LOOP_PATTERNS) for _ in delays]
    loops = {}
    for i, (k, D) in enumerate(zip(kinds, delays)):
        loops[i] = {"Rgate": [round(rng.uniform(-1.2, 1.2), 3) for _ in range(L)], "BSgate": loop_pattern(rng, k, L, D)}
    sq = [round(rng.uniform(0.3, 0.6), 3) for _ in range(L)]
    if rng.random() < 0.15 and L >= 3:
        sq[-1] = 0.0
    return {"delays": delays, "L": L, "kinds": kinds, "Sgate": sq, "loops": loops}


def gate_args_of(case):
    return {"Sgate": list(case["Sgate"]), "loops": {int(k): {"Rgate": list(v["Rgate"]), "BSgate": list(v["BSgate"])} for k, v in case["loops"].items()}}


def check_padding_case(ctx, case, simulate=True):
    """vacuum_padding on one job: structure against the independent arithmetic, then the physical predicate"""
    data = {"family": "padding", "case": case}
    delays, L = case["delays"], case["L"]
    ga = gate_args_of(case)
    before = copy.deepcopy(ga)
    try:
        out = tdmu.vacuum_padding(ga, delays=list(delays))
    except Exception as e:
        ctx.counterexample("vacuum_padding:raises:" + type(e).__name__, "vacuum_padding raised %s: %s" % (type(e).__name__, e), data)
        return "raise"
    if ga != before:
        ctx.counterexample("vacuum_padding:mutates-input", "vacuum_padding changed the gate arguments it was given", data)
    alphas = [case["loops"][i]["BSgate"] if i in case["loops"] else case["loops"][str(i)]["BSgate"] for i in range(len(delays))]
    pro, epi, crop = padding_oracle(alphas, delays)
    struct_ok = out.get("crop") == crop and list(out["Sgate"]) == [0] * pro[0] + before["Sgate"] + [0] * epi[0]
    for i in range(len(delays)):
        for g in ("Rgate", "BSgate"):
            struct_ok = struct_ok and list(out["loops"][i][g]) == [0] * pro[i] + before["loops"][i][g] + [0] * epi[i]
    lens = {len(out["Sgate"])} | {len(out["loops"][i][g]) for i in range(len(delays)) for g in ("Rgate", "BSgate")}
    if len(lens) != 1:
        ctx.counterexample("vacuum_padding:ragged", "padded gate lists have different lengths %r" % sorted(lens), data)
        return "ragged"
    ok = True
    if simulate:
        args_list = [out["Sgate"]]
        for i in range(len(delays)):
            args_list += [out["loops"][i]["Rgate"], out["loops"][i]["BSgate"]]
        try:
            prog = tdm_loops_program(delays, args_list)
            # "bin `crop` carries light" presupposes an uninterrupted stream of light into every loop: guaranteed when
            # every loop is bypassed, in the cross state, or filled for `delay` bins first (otherwise crop may be early)
            fl = is_flushable(alphas, delays)
            ok = physical_padding_check(ctx, "vacuum_padding", prog, args_list, int(out["crop"]), L, fl,
                                        fl and all(v != 0 for v in case["Sgate"]), data)
        except Exception as e:
            ctx.counterexample("vacuum_padding:simulate:" + type(e).__name__, "cannot simulate the padded job: %s" % e, data)
            ok = False
    if not struct_ok and ok:
        ctx.disagreement("vacuum_padding:structure", "padded lists / crop=%r differ from prologue %r, epilogue %r, crop %r" % (out.get("crop"), pro, epi, crop), data)
    return "ok" if (ok and struct_ok) else "bad"


def corr_padding(ctx, cases, tag):
    """Coq model padding_plan vs vacuum_padding (prologue / epilogue lengths recovered from the padded lists)"""
    items, impl = [], []
    for case in cases:
        delays = case["delays"]
        alphas = [case["loops"][i]["BSgate"] for i in range(len(delays))]
        items.append("padding_plan %s" % coq.coq_list(["(%s, %d)" % (coq.coq_list([coq.coq_bool(v == 0) for v in a]), D) for a, D in zip(alphas, delays)]))
        try:
            out = tdmu.vacuum_padding(gate_args_of(case), delays=list(delays))
            T = len(out["Sgate"])
            pros, epis = [], []
            for i in range(len(delays)):
                # the prologue of loop i is recovered from the Rgate list (random non-zero entries)
                r = list(out["loops"][i]["Rgate"])
                src = case["loops"][i]["Rgate"]
                k = next((j for j in range(len(r) - len(src) + 1) if r[j:j + len(src)] == src and all(x == 0 for x in r[:j])), None)
                pros.append(k)
                epis.append(None if k is None else len(r) - len(src) - k)
            impl.append([pros, epis, out["crop"]])
        except Exception as e:
            impl.append(["raise", type(e).__name__])
    text = ("From Coq Require Import List Arith Bool.\nImport ListNotations.\nFrom SFV Require Import C12.TdmUtils.\n"
            "Eval vm_compute in %s.\n" % coq.coq_list(items))
    ok, vals, raw = coq_eval_tmp(ctx, "corr_padding_%s_%d" % (tag, os.getpid()), text)
    if not ok:
        ctx.obligation("correspondence:vacuum_padding:" + tag, False, raw)
        return
    for case, iv, mv in zip(cases, impl, vals[0]):
        ctx.traces += 1
        m = [list(mv[0]), list(mv[1]), mv[2]]
        ctx.case({"model": "padding", "delays": case["delays"], "L": case["L"], "kinds": case["kinds"]}, nontrivial=any(k in ("cross", "lead-short", "zeros-then-swap", "single-last") for k in case["kinds"]),
                 bucket="corr:padding")
        if m != iv:
            before = len(ctx.issues)
            check_padding_case(ctx, case, simulate=True)     # the property's own predicate first
            if not any(i.kind == "counterexample" for i in ctx.issues[before:]):
                ctx.disagreement("corr:vacuum_padding", "model %r vs implementation %r" % (m, iv), {"family": "padding", "case": case})


# ---- make_squeezing_compatible / make_phases_compatible / full_compile / borealis_gbs -------------------------

def utils_device(loop_phases, temporal_max=331):
    spec, cert = borealis_device_spec(loop_phases)
    spec = dict(spec, modes=dict(spec["modes"], temporal_max=temporal_max))
    spec["gate_parameters"] = dict(spec["gate_parameters"], s=[0.0] + sorted(SQ_ALLOWED.values()))
    cert = dict(cert, squeezing_parameters_mean=dict(SQ_ALLOWED), relative_channel_efficiencies=[1.0] * 16)
    return Device(spec, cert)


def squeezing_oracle(padded_s, prog_length, crop, allowed):
    """the pulses (everything up to the trailing zeros, at most prog_length - crop) get the hardware value closest to their
    median, everything behind them is 0 / kept"""
    vals = [float(v) for v in padded_s]
    comp = len(vals)
    while comp > 0 and vals[comp - 1] == 0:
        comp -= 1
    if comp > prog_length - crop:
        comp = prog_length - crop
        vals[comp:] = [0.0] * (len(vals) - comp)
    if comp == 0:
        return vals
    med = float(np.median(np.array(vals[:comp])))
    cands = [float(a) for a in allowed.values()] + [0.0]
    best = min(cands, key=lambda a: abs(a - med))
    return [best] * comp + vals[comp:]


def phases_oracle(loops_r, loop_phases, delays, lo=-PI / 2, hi=PI / 2):
    """per loop: the set of indices whose compensated phase falls outside [lo, hi] (loop 0 is never touched)"""
    T = len(loops_r[0])
    out = []
    prev = [0.0] * T
    for l, r in enumerate(loops_r):
        corr = [loop_phases[l] * int(j / delays[l]) for j in range(T)]
        idx = []
        if l != 0:
            for j in range(T):
                x = (r[j] + corr[j] - prev[j]) % (2 * PI)
                if x > PI:
                    x -= 2 * PI
                if x < lo or x > hi:
                    idx.append(j)
        out.append(idx)
        prev = corr
    return out


def gen_compile_case(rng):
    L = rng.choice([1, 2, 5, 6, 7, 9, 12, 20, 35, 36, 37])
    kinds = [rng.choice(["bypass", "cross", "lead-full", "lead-over", "cross", "lead-full"]) for _ in range(3)]
    loops = {}
    for i, (k, D) in enumerate(zip(kinds, BOREALIS_DELAYS)):
        a = [min(x, PI / 2) for x in loop_pattern(rng, k, L, D)]
        wide = rng.random() < 0.6
        loops[i] = {"Rgate": [round(rng.uniform(-PI, PI) if wide else rng.uniform(-0.3, 0.3), 3) for _ in range(L)], "BSgate": a}
    r = rng.random()
    if r < 0.3:
        sq = rng.choice(["low", "medium", "high", "zero"])
    else:
        base = rng.choice([0.1, 0.3, 0.5, 0.28, 0.42, 0.2])
        sq = [round(base + rng.uniform(-0.02, 0.02), 4) if rng.random() < 0.7 else base for _ in range(L)]
        if rng.random() < 0.3 and L >= 3:       # skewed: median and mean pick different hardware values
            sq = [0.1] * (L // 2 + 1) + [0.5] * (L - L // 2 - 1)
            rng.shuffle(sq)
        if rng.random() < 0.2 and L >= 3:
            sq[-1] = 0
    phases = [rng.choice([0.0, 0.11, -0.07, 0.23, 3.0, round(rng.uniform(-PI, PI), 3)]) for _ in range(3)]
    return {"L": L, "kinds": kinds, "Sgate": sq, "loops": loops, "loop_phases": phases,
            "temporal_max": rng.choice([331, 331, 331, L + 20, "T", "T-1"])}


def check_compile_case(ctx, case, simulate=True):
    """full_compile = padding + squeezing + phases + list conversion, then Program.compile for the device"""
    data = {"family": "fullcompile", "case": case}
    L = case["L"]
    ga = gate_args_of(case) if isinstance(case["Sgate"], list) else dict(gate_args_of(dict(case, Sgate=[])), Sgate=case["Sgate"])
    dev = utils_device(case["loop_phases"], case["temporal_max"])
    alphas = [ga["loops"][i]["BSgate"] for i in range(3)]
    pro, epi, crop = padding_oracle(alphas, BOREALIS_DELAYS)
    T = L + crop
    if isinstance(case["temporal_max"], str):
        case = dict(case, temporal_max=T if case["temporal_max"] == "T" else T - 1)
        data = {"family": "fullcompile", "case": case}
        dev = utils_device(case["loop_phases"], case["temporal_max"])
    try:
        d = tdmu.full_compile(copy.deepcopy(ga), dev, return_list=False)
        lst = tdmu.full_compile(copy.deepcopy(ga), dev, return_list=True)
    except ValueError as e:
        if T > case["temporal_max"]:
            return "ValueError"
        ctx.counterexample("full_compile:raises:ValueError", "full_compile raised %s for a job of %d time bins (device maximum %d)" % (e, T, case["temporal_max"]), data)
        return "raise"
    except Exception as e:
        ctx.counterexample("full_compile:raises:" + type(e).__name__, "full_compile raised %s: %s" % (type(e).__name__, e), data)
        return "raise"
    if T > case["temporal_max"]:
        ctx.counterexample("full_compile:temporal-max-ignored", "full_compile accepted %d time bins for a device with temporal_max=%d" % (T, case["temporal_max"]), data)
    bad = []
    want_list = [d["Sgate"]] + [d["loops"][i][g] for i in range(3) for g in ("Rgate", "BSgate")]
    if [list(map(float, x)) for x in lst] != [list(map(float, x)) for x in want_list]:
        bad.append(("list-order", "full_compile(return_list=True) is not [Sgate, Rgate0, BSgate0, Rgate1, ...] of the dictionary form"))
    if d.get("crop") != crop or any(len(x) != T for x in lst):
        bad.append(("padding", "crop=%r, lengths %r; expected crop %d and %d time bins" % (d.get("crop"), [len(x) for x in lst], crop, T)))
    else:
        # squeezing: hardware values only, the user's pulses in the non-cropped bins
        s = [float(x) for x in lst[0]]
        allowed = sorted(set(SQ_ALLOWED.values()) | {0.0})
        if any(min(abs(x - a) for a in allowed) > 1e-12 for x in s):
            bad.append(("squeezing-not-allowed", "compiled squeezing %r contains values the device does not offer %r" % (sorted(set(s)), allowed)))
        if isinstance(case["Sgate"], str):
            want_s = [SQ_ALLOWED.get(case["Sgate"], 0)] * L + [0] * crop
        else:
            want_s = squeezing_oracle(list(case["Sgate"]) + [0] * crop, T, crop, SQ_ALLOWED)
        if [float(x) for x in want_s] != s:
            bad.append(("squeezing", "compiled squeezing %r, expected %r (closest hardware value to the median of the pulses, zeros kept)" % (s[:8], want_s[:8])))
        # beamsplitters: only padded
        for i in range(3):
            if [float(x) for x in lst[2 + 2 * i]] != [0.0] * pro[i] + [float(x) for x in alphas[i]] + [0.0] * epi[i]:
                bad.append(("bs-changed", "loop %d beamsplitter list is not the padded source list" % i))
        # phases: padded source, moved by pi exactly where the compensated value is out of range (loops 1, 2)
        padded_r = [[0.0] * pro[i] + [float(x) for x in ga["loops"][i]["Rgate"]] + [0.0] * epi[i] for i in range(3)]
        need = phases_oracle(padded_r, case["loop_phases"], BOREALIS_DELAYS)
        for i in range(3):
            got = [float(x) for x in lst[1 + 2 * i]]
            for j in range(T):
                dlt = (got[j] - padded_r[i][j]) % (2 * PI)
                moved = abs(dlt - PI) < 1e-9
                same = min(dlt, 2 * PI - dlt) < 1e-9
                if not (moved or same) or (i == 0 and not same and abs(got[j] - padded_r[i][j]) > 1e-12):
                    bad.append(("phase-changed", "loop %d bin %d: phase %r became %r" % (i, j, padded_r[i][j], got[j])))
                    break
                if i != 0 and moved != (j in need[i]) and not near_range_edge(padded_r, case["loop_phases"], i, j):
                    bad.append(("phase-shift-wrong", "loop %d bin %d: %s by pi although the compensated phase is %s the modulator range"
                                % (i, j, "moved" if moved else "not moved", "outside" if j in need[i] else "inside")))
                    break
    for k, msg in bad[:3]:
        ctx.counterexample("full_compile:" + k, "full_compile result is not the hardware version of the source job: " + msg, data)
    if bad:
        return "bad"
    # compile for the device: must validate, must need no further range correction in loops 1 and 2, same statistics
    reset_compilers()
    try:
        prog = tdm_loops_program(BOREALIS_DELAYS, [list(map(float, x)) for x in lst])
        compiled = prog.compile(device=dev)
    except Exception as e:
        reset_compilers()
        ctx.counterexample("full_compile:not-compilable:" + type(e).__name__, "the output of full_compile does not compile for the device: %s" % e, data)
        return "bad"
    reset_compilers()
    pre = expected_pre({"args": [list(map(float, x)) for x in lst], "offsets": [None] * 3, "loop_phases": case["loop_phases"]}, True)
    for loop in (1, 2):
        new = [float(x) for x in compiled.tdm_params[1 + 2 * loop]]
        for j, (want, b) in enumerate(zip(pre[loop], new)):
            k = (b - want) / PI
            if abs(k - round(k)) > 1e-6 or (int(round(k)) % 2 != 0 and not near_range_edge([list(map(float, lst[1])), list(map(float, lst[3])), list(map(float, lst[5]))], case["loop_phases"], loop, j)):
                ctx.counterexample("full_compile:phases-not-compatible", "after full_compile the compiler still had to move loop %d bin %d by pi (%r -> %r)"
                                   % (loop, j, want, b), data)
                return "bad"
    if simulate:
        try:
            ok = physical_padding_check(ctx, "full_compile", compiled_numeric(compiled), [list(map(float, x)) for x in lst], crop, L,
                                        True, all(float(x) != 0 for x in lst[0][:L]), data)
        except Exception as e:
            ctx.counterexample("full_compile:simulate:" + type(e).__name__, "cannot simulate the compiled job: %s" % e, data)
            ok = False
        return "ok" if ok else "bad"
    return "ok"


def near_range_edge(rs, loop_phases, loop, j):
    T = len(rs[0])
    corr = loop_phases[loop] * int(j / BOREALIS_DELAYS[loop])
    prev = loop_phases[loop - 1] * int(j / BOREALIS_DELAYS[loop - 1]) if loop > 0 else 0.0
    x = (rs[loop][j] + corr - prev) % (2 * PI)
    return min(abs(x - PI / 2), abs(x - 3 * PI / 2), abs(x - PI), abs(x), abs(x - 2 * PI)) < 1e-9


def compiled_numeric(compiled):
    """the compiled TDM program rebuilt with numeric loop offsets (its own circuit, parameters from tdm_params)"""
    params = [list(np.array(a, dtype=float)) for a in compiled.tdm_params]
    new = TDMProgram(compiled.N)
    with new.context(*params) as (p, q):
        for cmd in compiled.circuit:
            args = []
            for a in cmd.op.p:
                s_ = str(a)
                if s_.startswith("{") or (s_.startswith("p") and s_[1:].isdigit()):
                    args.append(p[int(s_.strip("{}")[1:])])
                else:
                    args.append(float(a))
            type(cmd.op)(*args) | tuple(q[r.ind] for r in cmd.reg)
    return new


def check_gbs_case(ctx, case):
    """borealis_gbs: a ready-made job; same predicates"""
    data = {"family": "gbs", "case": case}
    dev = utils_device(case["loop_phases"])
    np.random.seed(case["seed"])
    try:
        lst = tdmu.borealis_gbs(dev, modes=case["modes"], squeezing=case["squeezing"], open_loops=list(case["open_loops"]))
        np.random.seed(case["seed"])
        d = tdmu.borealis_gbs(dev, modes=case["modes"], squeezing=case["squeezing"], open_loops=list(case["open_loops"]), return_list=False)
    except Exception as e:
        ctx.counterexample("borealis_gbs:raises:" + type(e).__name__, "borealis_gbs raised %s: %s" % (type(e).__name__, e), data)
        return "raise"
    crop = sum(D for D, o in zip(BOREALIS_DELAYS, case["open_loops"]) if o)
    T = case["modes"] + crop
    bad = []
    if d.get("crop") != crop or any(len(x) != T for x in lst):
        bad.append(("padding", "crop=%r lengths %r; expected crop %d (sum of the delays of the open loops) and %d time bins" % (d.get("crop"), [len(x) for x in lst], crop, T)))
    else:
        s = [float(x) for x in lst[0]]
        if s != [float(SQ_ALLOWED[case["squeezing"]])] * case["modes"] + [0.0] * crop:
            bad.append(("squeezing", "squeezing list %r" % s[:6]))
        for i, o in enumerate(case["open_loops"]):
            a = [float(x) for x in lst[2 + 2 * i]]
            body = a[sum(D for D, oo in zip(BOREALIS_DELAYS[:i], case["open_loops"][:i]) if oo):][:case["modes"]]
            if not o and any(abs(x - PI / 2) > 1e-12 for x in body):
                bad.append(("closed-loop", "loop %d is closed but its beamsplitter is not pi/2 throughout" % i))
            if o and any(x != 0 for x in body[:BOREALIS_DELAYS[i]]):
                bad.append(("open-loop-fill", "loop %d is open but its first %d beamsplitter settings are not 0" % (i, BOREALIS_DELAYS[i])))
            if any(x < -1e-12 or x > PI / 2 + 1e-12 for x in a):
                bad.append(("bs-range", "loop %d beamsplitter angle outside [0, pi/2]" % i))
    for k, msg in bad[:2]:
        ctx.counterexample("borealis_gbs:" + k, "borealis_gbs result: " + msg, data)
    if bad:
        return "bad"
    reset_compilers()
    try:
        prog = tdm_loops_program(BOREALIS_DELAYS, [list(map(float, x)) for x in lst])
        compiled = prog.compile(device=dev)
        ok = physical_padding_check(ctx, "borealis_gbs", compiled_numeric(compiled), [list(map(float, x)) for x in lst], crop, case["modes"], True, True, data)
    except Exception as e:
        ctx.counterexample("borealis_gbs:not-compilable:" + type(e).__name__, "the output of borealis_gbs does not compile / simulate: %s" % e, data)
        ok = False
    reset_compilers()
    return "ok" if ok else "bad"


def check_small_utils(ctx, rng):
    """get_mode_indices, to_args_list / to_args_dict, loop_phase_from_device"""
    for _ in range(12):
        delays = [rng.randint(1, 9) for _ in range(rng.randint(1, 4))]
        data = {"family": "utils", "fn": "get_mode_indices", "delays": delays}
        n, N = tdmu.get_mode_indices(list(delays))
        n = [int(x) for x in n]
        ok = int(N) == sum(delays) + 1 and len(n) == len(delays) + 1 and n[0] == N - 1 and n[-1] == 0 and all(n[i] - n[i + 1] == delays[i] for i in range(len(delays)))
        ctx.case({"fn": "get_mode_indices", "delays": delays}, bucket="utils:get_mode_indices")
        if not ok:
            ctx.counterexample("get_mode_indices:wrong", "get_mode_indices(%r) = (%r, %r): consecutive loop modes must be `delay` apart, from N-1 down to 0" % (delays, n, N), data)
    dev = utils_device([0.1, 0.2, 0.3])
    if tdmu.loop_phase_from_device(dev) != [0.1, 0.2, 0.3]:
        ctx.counterexample("loop_phase_from_device:wrong", "loop_phase_from_device does not return the certificate's loop phases", {"family": "utils", "fn": "loop_phase_from_device"})
    for _ in range(6):
        T = rng.randint(1, 5)
        mk = lambda: [round(rng.uniform(0, 1), 3) for _ in range(T)]
        d = {"Sgate": mk(), "loops": {i: {"Rgate": mk(), "BSgate": mk()} for i in range(3)}}
        data = {"family": "utils", "fn": "to_args", "dict": d}
        ctx.case({"fn": "to_args", "T": T}, bucket="utils:to_args")
        try:
            withcrop = dict(copy.deepcopy(d), crop=7)
            l1 = tdmu.to_args_list(copy.deepcopy(withcrop), dev)
            l2 = tdmu.to_args_list(copy.deepcopy(withcrop))
            want = [d["Sgate"]] + [d["loops"][i][g] for i in range(3) for g in ("Rgate", "BSgate")]
            back = tdmu.to_args_dict(copy.deepcopy(l1), dev)
            if l1 != want or l2 != want:
                ctx.counterexample("to_args_list:order", "to_args_list does not return [Sgate, Rgate0, BSgate0, ...] (with device: %s, without: %s)" % (l1 == want, l2 == want), data)
            elif back != d:
                ctx.counterexample("to_args_dict:roundtrip", "to_args_dict(to_args_list(d)) != d", data)
        except Exception as e:
            ctx.counterexample("to_args:raises:" + type(e).__name__, "to_args_list / to_args_dict raised %s" % e, data)



def check_create_program(ctx, dev_spec, params):
    """Device.create_program: the layout with the given values, every other template parameter at the first allowed
    value; the program it returns is compiled with the device's default compiler"""
    data = {"family": "create", "device": dev_spec, "params": params}
    reset_compilers()
    N = dev_spec["modes"] // 2 if isinstance(dev_spec["modes"], int) else None
    lay = x_layout_cmds(N)
    gp = dev_spec["gate_parameters"]
    try:
        prog = Device(dev_spec).create_program(**params)
    except CircuitError:
        reset_compilers()
        return "CircuitError"           # e.g. different final phases on the two halves are not admissible for Xunitary
    except ValueError:
        reset_compilers()
        ok = all(k in gp and in_ranges(v, gp[k]) for k, v in params.items())
        if ok:
            ctx.counterexample("create_program:rejects-valid", "Device.create_program rejected parameters that are all inside the allowed ranges", data)
        return "ValueError"
    except Exception as e:
        reset_compilers()
        ctx.counterexample("create_program:raises:" + type(e).__name__, "Device.create_program raised %s: %s" % (type(e).__name__, e), data)
        return "raise"
    reset_compilers()
    if not all(k in gp and in_ranges(v, gp[k]) for k, v in params.items()):
        ctx.counterexample("create_program:accepts-invalid", "Device.create_program accepted a parameter outside its allowed ranges / unknown to the device", data)
        return "bad"

    def val(t):
        if not isinstance(t, str):
            return t
        if t in params:
            return params[t]
        a = gp[t][0]
        return float(a[0]) if isinstance(a, (list, tuple)) else float(a)
    want = {"n": 2 * N, "cmds": [[nm, [val(t) for t in ps], list(ms), False] for nm, ps, ms in lay]}
    ccmds = cmds_of(prog.circuit)
    bad = [b for b in conform(ccmds, lay, None, 2 * N)]
    for k, msg in bad[:2]:
        ctx.counterexample("create_program:layout:" + k, "Device.create_program returned a circuit that does not conform to the layout: " + msg, dict(data, observed=ccmds))
    try:
        s_want = gaussian_state(2 * N, build_program(want).circuit)
        s_got = gaussian_state(2 * N, prog.circuit)
        if not (states_equal(s_want, s_got) or same_photon_stats(s_want, s_got, 2)[0]):
            ctx.counterexample("create_program:wrong-values", "Device.create_program does not prepare the state of the layout with the given values "
                               "(missing parameters at their first allowed value)", dict(data, observed=ccmds))
            return "bad"
    except Exception as e:
        ctx.counterexample("create_program:simulate:" + type(e).__name__, "cannot simulate: %s" % e, data)
        return "bad"
    return "ok" if not bad else "bad"


def check_direct_utils(ctx, rng):
    """make_phases_compatible / make_squeezing_compatible / full_compile with non-default delays and phase ranges,
    Device.validate_target, move_vac_modes"""
    # make_phases_compatible, custom delays and range
    for _ in range(8):
        delays = rng.choice([[1, 6, 36], [1, 2, 3], [2, 3, 5]])
        lo, hi = rng.choice([(-PI / 2, PI / 2), (-1.0, 1.0), (-0.5, 2.0)])
        T = rng.randint(1, 12)
        phases = [round(rng.uniform(-2, 2), 3) for _ in range(3)]
        ga = {"Sgate": [0.3] * T, "loops": {i: {"Rgate": [round(rng.uniform(-PI, PI), 3) for _ in range(T)], "BSgate": [0.5] * T} for i in range(3)}}
        data = {"family": "directutils", "fn": "make_phases_compatible", "delays": delays, "range": [lo, hi], "gate_args": ga, "loop_phases": phases}
        ctx.case({"fn": "make_phases_compatible", "delays": delays, "T": T}, bucket="utils:make_phases_compatible")
        dev = utils_device(phases)
        try:
            out = tdmu.make_phases_compatible(copy.deepcopy(ga), dev, delays=list(delays), phi_range=[lo, hi])
        except Exception as e:
            ctx.counterexample("make_phases_compatible:raises:" + type(e).__name__, str(e), data)
            continue
        need = phases_oracle([ga["loops"][i]["Rgate"] for i in range(3)], phases, delays, lo, hi)
        for i in range(3):
            for j in range(T):
                a, b = ga["loops"][i]["Rgate"][j], float(out["loops"][i]["Rgate"][j])
                want = (a + PI) % (2 * PI) if j in need[i] else a
                edge = min(abs(((a + phases[i] * int(j / delays[i]) - (phases[i - 1] * int(j / delays[i - 1]) if i else 0)) % (2 * PI)) - e) for e in
                           (lo % (2 * PI), hi % (2 * PI), PI)) < 1e-9
                if abs(b - want) > 1e-12 and not edge:
                    ctx.counterexample("make_phases_compatible:wrong", "loop %d bin %d: %r -> %r, expected %r (delays %r, range [%r, %r])" % (i, j, a, b, want, delays, lo, hi), data)
                    break
        if out["Sgate"] != ga["Sgate"] or any(out["loops"][i]["BSgate"] != ga["loops"][i]["BSgate"] for i in range(3)):
            ctx.counterexample("make_phases_compatible:touches-other-gates", "squeezing / beamsplitter arguments changed", data)
    # make_squeezing_compatible directly
    for _ in range(10):
        T = rng.randint(2, 10)
        crop = rng.choice([0, 0, 1, 3])
        kind = rng.choice(["uniform", "skewed", "trailing-zeros", "too-many", "string", "bad-type"])
        if kind == "uniform":
            sq = [0.29] * T
        elif kind == "skewed":
            sq = [0.1] * (T // 2 + 1) + [0.5] * (T - T // 2 - 1)
            rng.shuffle(sq)
        elif kind == "trailing-zeros":
            sq = [0.45] * (T - 1) + [0]
        elif kind == "too-many":
            sq = [0.33] * T
            crop = max(crop, 2)
        elif kind == "string":
            sq = rng.choice(["zero", "low", "medium", "high"])
        else:
            sq = rng.choice([0.3, None, "huge"])
        crop = min(crop, T - 1)          # a job always keeps at least one non-cropped bin
        ga = {"Sgate": sq, "loops": {0: {"Rgate": [0.0] * T, "BSgate": [0.0] * T}}}
        if crop or rng.random() < 0.5:
            ga["crop"] = crop
        data = {"family": "directutils", "fn": "make_squeezing_compatible", "gate_args": ga}
        ctx.case({"fn": "make_squeezing_compatible", "kind": kind, "T": T, "crop": crop}, bucket="utils:make_squeezing_compatible:" + kind)
        dev = utils_device([0, 0, 0])
        try:
            out = tdmu.make_squeezing_compatible(copy.deepcopy(ga), dev)
        except TypeError:
            if kind != "bad-type":
                ctx.counterexample("make_squeezing_compatible:raises:TypeError", "valid squeezing argument %r rejected" % (sq,), data)
            continue
        except Exception as e:
            ctx.counterexample("make_squeezing_compatible:raises:" + type(e).__name__, str(e), data)
            continue
        if kind == "bad-type":
            ctx.counterexample("make_squeezing_compatible:accepts-bad-type", "squeezing argument %r accepted" % (sq,), data)
            continue
        c = ga.get("crop", 0)
        want = ([float({**SQ_ALLOWED, "zero": 0}[sq])] * (T - c) + [0.0] * c) if isinstance(sq, str) else squeezing_oracle(sq, T, c, SQ_ALLOWED)
        if [float(x) for x in out["Sgate"]] != [float(x) for x in want]:
            ctx.counterexample("make_squeezing_compatible:wrong", "squeezing %r (crop %d) -> %r, expected %r" % (sq, c, list(out["Sgate"]), want), data)
    # full_compile with non-default delays / phase range (structure only: no device layout for these)
    for _ in range(6):
        delays = rng.choice([[1, 2, 3], [2, 3, 5]])
        lo, hi = rng.choice([(-1.0, 1.0), (-PI / 2, PI / 2)])
        case = gen_padding_case(rng, delays=list(delays))
        phases = [round(rng.uniform(-1, 1), 3) for _ in range(3)]
        ga = gate_args_of(case)
        ga["Sgate"] = "medium"
        data = {"family": "directutils", "fn": "full_compile", "case": case, "range": [lo, hi], "loop_phases": phases}
        ctx.case({"fn": "full_compile-custom", "delays": delays, "L": case["L"]}, bucket="utils:full_compile-custom")
        try:
            d = tdmu.full_compile(copy.deepcopy(ga), utils_device(phases), delays=list(delays), phi_range=[lo, hi], return_list=False)
        except Exception as e:
            ctx.counterexample("full_compile:raises:" + type(e).__name__, "full_compile(delays=%r, phi_range=%r) raised %s" % (delays, [lo, hi], e), data)
            continue
        alphas = [ga["loops"][i]["BSgate"] for i in range(3)]
        pro, epi, crop = padding_oracle(alphas, delays)
        padded_r = [[0.0] * pro[i] + [float(x) for x in ga["loops"][i]["Rgate"]] + [0.0] * epi[i] for i in range(3)]
        need = phases_oracle(padded_r, phases, delays, lo, hi)
        okk = d.get("crop") == crop and [float(x) for x in d["Sgate"]] == [0.3] * case["L"] + [0.0] * crop
        for i in range(3):
            for j in range(len(padded_r[i])):
                a, b = padded_r[i][j], float(d["loops"][i]["Rgate"][j]) if j < len(d["loops"][i]["Rgate"]) else None
                want = (a + PI) % (2 * PI) if j in need[i] else a
                if b is None or abs(b - want) > 1e-12:
                    x = (a + phases[i] * int(j / delays[i]) - (phases[i - 1] * int(j / delays[i - 1]) if i else 0)) % (2 * PI)
                    if min(abs(x - lo % (2 * PI)), abs(x - hi % (2 * PI)), abs(x - PI)) > 1e-9:
                        okk = False
        if not okk:
            ctx.counterexample("full_compile:custom-delays-or-range", "full_compile(delays=%r, phi_range=%r) does not pad with these delays / does not shift with this range" % (delays, [lo, hi]), data)
    # Device.validate_target
    spec = x_device_spec(rng, 2)
    ctx.case({"fn": "validate_target"}, bucket="utils:validate_target")
    try:
        Device(dict(spec, target="X8_99"))
        ctx.counterexample("device:target-mismatch-accepted", "Device accepted a specification whose target differs from the layout's target", {"family": "directutils", "fn": "validate_target"})
    except ValueError:
        pass
    # move_vac_modes
    for shots, T, Nc in [(3, 10, 4), (5, 4, 12), (4, 5, 12), (3, 3, 9)] + [(rng.randint(1, 6), rng.randint(1, 8), rng.randint(1, 14)) for _ in range(6)]:
        smp = np.arange(1, shots * T + 1).reshape(shots, 1, T)
        nv = Nc - 1
        data = {"family": "directutils", "fn": "move_vac_modes", "shape": [shots, 1, T], "N": Nc}
        ctx.case({"fn": "move_vac_modes", "shape": [shots, 1, T], "N": Nc}, bucket="utils:move_vac_modes")
        try:
            flat = np.append(smp.ravel()[nv:], [0] * nv)[:shots * T].reshape(smp.shape) if nv <= shots * T else None
            out = tdmu.move_vac_modes(smp.copy(), Nc, crop=False)
            if flat is not None and not np.array_equal(out, flat):
                ctx.counterexample("move_vac_modes:wrong", "move_vac_modes does not move the first N-1 measured vacuum modes to the end", data)
            outc = tdmu.move_vac_modes(smp.copy(), [Nc, 1], crop=True)
            keep = shots - int(math.ceil(nv / T)) if nv else shots
            if flat is not None and keep >= 0 and not np.array_equal(outc, flat[:keep] if nv else flat):
                ctx.counterexample("move_vac_modes:crop-count", "move_vac_modes(crop=True) keeps %d of %d shots; %d shots contain no appended vacuum entry (N-1=%d, %d bins per shot)"
                                   % (len(outc), shots, keep, nv, T), data)
        except Exception as e:
            if nv <= shots * T:
                ctx.counterexample("move_vac_modes:raises:" + type(e).__name__, str(e), data)


def search_tdm_utils(ctx):
    rng = ctx.rng
    check_small_utils(ctx, rng)
    check_direct_utils(ctx, rng)
    # deterministic sweep: every loop, every state pattern, job lengths below / at / above the loop's delay
    sweep = []
    for delays in ([2, 3, 5],) if ctx.quick else ([2, 3, 5], [1, 2, 4]):
        for i, D in enumerate(delays):
            for kind in LOOP_PATTERNS:
                for L in sorted({max(1, D - 1), D, D + 1}):
                    kinds = [rng.choice(["bypass", "cross", "lead-full", "lead-over"]) for _ in delays]
                    kinds[i] = kind
                    sweep.append(gen_padding_case(rng, delays=list(delays), L=L, kinds=kinds))
    for case in sweep:
        out = check_padding_case(ctx, case)
        ctx.case({"family": "padding", "delays": case["delays"], "L": case["L"], "kinds": case["kinds"], "outcome": out},
                 nontrivial=True, bucket="padding:sweep:" + out)
    # random stream, including the real Borealis delays
    for _ in range(ctx.budget(25, 150)):
        case = gen_padding_case(rng)
        big = case["delays"] == [1, 6, 36]
        out = check_padding_case(ctx, case, simulate=(not big) or rng.random() < (0.25 if ctx.quick else 0.5))
        ctx.case({"family": "padding", "delays": case["delays"], "L": case["L"], "kinds": case["kinds"], "outcome": out},
                 nontrivial=any(k != "bypass" for k in case["kinds"]), bucket="padding:random:" + out)
    # the real Borealis loops: each loop in the cross state / filled, job shorter / equal / longer than its delay (structure
    # always, simulation for a sample)
    for i, D in enumerate(BOREALIS_DELAYS):
        for kind in ("cross", "lead-full", "lead-short", "single-last"):
            for L in sorted({max(1, D - 1), D, D + 1}):
                kinds = ["bypass"] * 3
                kinds[i] = kind
                case = gen_padding_case(rng, delays=list(BOREALIS_DELAYS), L=L, kinds=kinds)
                out = check_padding_case(ctx, case, simulate=(L <= 7) or (not ctx.quick))
                ctx.case({"family": "padding", "delays": case["delays"], "L": L, "kinds": kinds, "outcome": out}, nontrivial=True, bucket="padding:borealis:" + out)
    # full_compile and borealis_gbs
    for it in range(ctx.budget(14, 80)):
        case = gen_compile_case(rng)
        out = check_compile_case(ctx, case, simulate=it < ctx.budget(5, 25))
        ctx.case({"family": "fullcompile", "L": case["L"], "kinds": case["kinds"], "Sgate": case["Sgate"] if isinstance(case["Sgate"], str) else "list",
                  "outcome": out}, nontrivial=out == "ok", bucket="fullcompile:" + out)
    for it in range(ctx.budget(3, 12)):
        case = {"modes": rng.choice([1, 2, 5, 7, 12, 30, 37, 40]), "squeezing": rng.choice(["low", "medium", "high"]),
                "open_loops": [rng.random() < 0.6 for _ in range(3)], "seed": rng.randrange(2 ** 31),
                "loop_phases": [round(rng.uniform(-1, 1), 3) for _ in range(3)]}
        out = check_gbs_case(ctx, case)
        ctx.case(dict(case, family="gbs", outcome=out), nontrivial=any(case["open_loops"]), bucket="gbs:" + out)


# =====================================================================================================
# search

def search(ctx):
    rng = ctx.rng
    # (the corpus is replayed by the framework through replay() before correspondence and search)
    # X series
    n_x = ctx.budget(260, 1000)
    sizes = [1, 2, 2, 3, 3, 4, 4] + ([5] if not ctx.quick else [])
    for it in range(n_x):
        N = rng.choice(sizes)
        K = 3 if N <= 3 else 2
        if not ctx.quick and N <= 4:
            K += 1
        dev_spec = x_device_spec(rng, N) if rng.random() < 0.8 else None
        if rng.random() < 0.3 and dev_spec is not None:
            kind, spec = x_template_program(rng, N, dev_spec)
            tags = [kind]
            compiler = rng.choice(["Xstrict", "Xstrict", "Xunitary", "Xcov"])
        else:
            tags, spec = x_general_program(rng, N)
            compiler = rng.choice(["Xunitary", "Xunitary", "Xcov", "Xstrict"])
        opts = {}
        r = rng.random()
        if r < 0.12 and dev_spec is not None:
            compiler = None                      # Program.compile(device=...) alone: the device's default compiler
        elif r < 0.22:
            opts = {"optimize": True}
        elif r < 0.27:
            opts = {"shots": 5}
        out = check_x_case(ctx, tags, spec, dev_spec, compiler, K, opts)
        compiler = compiler or "default"
        nontriv = out == "ok" and any(t.startswith(("dup", "zero", "dagger")) or (t.startswith("U:") and t != "U:none") or t.startswith("template") for t in tags)
        ctx.case({"N": N, "compiler": compiler, "tags": tags, "device": None if dev_spec is None else {k: dev_spec[k] for k in ("modes", "compiler")}, "outcome": out,
                  "cmds": [[c[0], c[2], c[3]] for c in spec["cmds"]]}, nontrivial=nontriv, bucket="x:%s:%s" % (compiler, out))
    # every rejection path on an otherwise admissible program, no device (so that nothing else can reject it)
    for rep in range(ctx.budget(1, 4)):
        for defect in DEFECTS:
            for compiler in ("Xunitary", "Xcov"):
                N = rng.choice([2, 2, 3, 4])
                tags, spec = x_general_program(rng, N, defect=defect)
                out = check_x_case(ctx, tags, spec, None, compiler, 2)
                ctx.case({"N": N, "compiler": compiler, "tags": tags, "device": None, "outcome": out, "cmds": [[c[0], c[2], c[3]] for c in spec["cmds"]]},
                         nontrivial=False, bucket="x-defect:%s:%s:%s" % (compiler, defect, out))
    # Xstrict as the device's default compiler: the exact template and each perturbation of it, every N
    for N in (1, 2, 3, 4):
        for rep_ in range(ctx.budget(6, 14)):
            dev_spec = x_device_spec(rng, N)
            dev_spec["compiler"] = ["Xstrict"]
            dev_spec["modes"] = 2 * N
            if rep_ % 3 == 0:
                dev_spec["gate_parameters"] = None
            if dev_spec["gate_parameters"] is None:
                dev_spec["gate_parameters"] = None
            kind, spec = x_template_program(rng, N, dict(dev_spec, gate_parameters=dev_spec["gate_parameters"] or {}))
            out = check_x_case(ctx, [kind], spec, dev_spec, rng.choice(["Xstrict", None]), 2)
            ctx.case({"N": N, "compiler": "Xstrict-default", "tags": [kind], "outcome": out}, nontrivial=True, bucket="x-strict-default:%s:%s" % (kind, out))
    # edge programs: measurement only, one squeezer only, BipartiteGraphEmbed
    for N in (1, 2, 3):
        for compiler in ("Xunitary", "Xcov"):
            n = 2 * N
            progs = [("meas-only", [["MeasureFock", [], list(range(n)), False]]),
                     ("one-squeezer", [["S2gate", [0.4, 0.0], [N - 1, 2 * N - 1], False], ["MeasureFock", [], list(range(n)), False]])]
            if N >= 2:
                g = nprng(rng)
                Bm = g.uniform(0.05, 0.4, (N, N))
                Bm = (Bm + Bm.T) / 2
                A = np.block([[np.zeros((N, N)), Bm], [Bm.T, np.zeros((N, N))]])
                progs.append(("bipartite", [["BipartiteGraphEmbed", [mat_to_json(A), 0.5], list(range(n)), False], ["MeasureFock", [], list(range(n)), False]]))
            for tag, cmds in progs:
                out = check_x_case(ctx, [tag], {"n": n, "cmds": cmds}, None, compiler, 3)
                ctx.case({"N": N, "compiler": compiler, "tags": [tag], "outcome": out}, nontrivial=True, bucket="x-edge:%s:%s:%s" % (compiler, tag, out))
    # Device.create_program
    for it in range(ctx.budget(10, 40)):
        N = rng.choice([1, 2, 2, 3])
        dev_spec = x_device_spec(rng, N)
        dev_spec["modes"] = 2 * N
        if dev_spec["gate_parameters"] is None:
            continue
        names = sorted(dev_spec["gate_parameters"])
        params = {}
        for nm in rng.sample(names, rng.randint(0, len(names))):
            a = rng.choice(dev_spec["gate_parameters"][nm])
            params[nm] = float(a) if not isinstance(a, (list, tuple)) else round(rng.uniform(a[0], a[-1]), 3)
        # the two copies of the interferometer share their phases; keep the final phases of the halves equal (mostly)
        if rng.random() < 0.85:
            for i in range(N):
                a, b = "final_phase_%d" % i, "final_phase_%d" % (i + N)
                params.pop(b, None)
                if a in params:
                    params[b] = params[a]
        if rng.random() < 0.15 and params:
            params[rng.choice(sorted(params))] = 99.0
        out = check_create_program(ctx, dev_spec, params)
        ctx.case({"family": "create", "N": N, "default": dev_spec["compiler"], "given": len(params), "outcome": out}, nontrivial=out == "ok" and 0 < len(params) < len(names),
                 bucket="create:%s" % out)
    # borealis
    n_b = ctx.budget(60, 300)
    for it in range(n_b):
        case = gen_borealis_case(rng, T=None if ctx.quick else rng.choice([4, 8, 12, 20, 30, 45]))
        out, comp = check_borealis_case(ctx, case, 2)
        ctx.case({"family": "borealis", "T": len(case["args"][0]), "offsets": case["offsets"], "loop_phases": case["loop_phases"], "mut": case["mut"], "outcome": out},
                 nontrivial=(out == "ok" and comp), bucket="borealis:" + out)
    # single-loop TDM / TD2
    for it in range(ctx.budget(20, 120)):
        case = gen_tdm_case(rng)
        out = check_tdm_case(ctx, case)
        ctx.case({"family": "tdm", "target": case["target"], "T": case["T"], "mut": case["mut"], "outcome": out}, nontrivial=(out != "ok" or case["mut"] == "boundary"), bucket="tdm:" + out)
    # tdm/utils.py
    search_tdm_utils(ctx)


def run_data(ctx, d):
    fam = d.get("family")
    if fam == "x":
        return check_x_case(ctx, d.get("tags", []), d["spec"], d["device"], d["compiler"], d.get("K", 3), d.get("opts"))
    if fam == "create":
        return check_create_program(ctx, d["device"], d["params"])
    if fam == "utils":
        return check_small_utils(ctx, random.Random(d.get("seed", 0)))
    if fam == "directutils":
        return check_direct_utils(ctx, random.Random(d.get("seed", 0)))
    if fam == "borealis":
        return check_borealis_case(ctx, d["case"], d.get("K", 2))
    if fam == "tdm":
        return check_tdm_case(ctx, d["case"])
    if fam == "padding":
        return check_padding_case(ctx, d["case"])
    if fam == "fullcompile":
        return check_compile_case(ctx, d["case"])
    if fam == "gbs":
        return check_gbs_case(ctx, d["case"])
    if fam == "corr":
        return CORR[d["model"]](ctx, [d["input"]], "replay")
    raise ValueError("unknown replay family %r" % fam)


def replay(ctx, data):
    n0 = len(ctx.issues)
    out = run_data(ctx, data["data"])
    print("outcome:", out)
    for iss in ctx.issues[n0:]:
        print("  %s [%s] %s" % (iss.kind, iss.signature, iss.what))
    want = data.get("signature")
    return any(iss.kind in ("counterexample", "disagreement") for iss in ctx.issues[n0:])


# =====================================================================================================
# correspondence: models vs implementation

FLOAT_HDR = ("From Coq Require Import List Arith Bool ZArith QArith Floats.\nImport ListNotations.\n"
             "From SFV Require Import C12.Model.\nClose Scope Q_scope.\nOpen Scope nat_scope.\n")


def cf(x):
    return coq.coq_float(float(x))


def coq_eval_tmp(ctx, name, text):
    """ctx.coq_eval on a per-process scratch file (concurrent runs must not share names); removed when it evaluated"""
    ok, vals, raw = ctx.coq_eval(name, text)
    if ok:
        try:
            os.remove(os.path.join(ctx.work, name + ".v"))
        except OSError:
            pass
    return ok, vals, raw


# ---- (1) validate_parameters --------------------------------------------------------------------------

def gen_validate_input(rng):
    names = ["p%d" % i for i in range(rng.randint(1, 4))]
    gp = {}
    for nm in names:
        rs = []
        for _ in range(rng.randint(1, 3)):
            if rng.random() < 0.5:
                rs.append(rng.choice([0, 1, 0.5, -1.0, round(rng.uniform(-3, 3), 3)]))
            else:
                a = rng.choice([0, 0.0, -PI / 2, round(rng.uniform(-3, 2), 3)])
                rs.append([a, a + rng.choice([0, 0.5, PI, round(rng.uniform(0, 4), 3)])])
        gp[nm] = rs

    def value(nm, depth=0):
        rs = gp.get(nm) or [[0, 1]]
        a = rng.choice(rs)
        lo, hi = (a[0], a[-1]) if isinstance(a, list) else (a, a)
        r = rng.random()
        if r < 0.45:
            v = rng.uniform(lo, hi) if hi > lo else lo
        elif r < 0.75:      # boundary +- atol
            edge = rng.choice([lo, hi])
            v = edge + rng.choice([1e-5, -1e-5, 9.9e-6, -9.9e-6, 1.01e-5, -1.01e-5, 0.0, 2e-5, -2e-5])
        else:
            v = rng.choice([hi + 0.3, lo - 0.3, 100.0, -0.0])
        if rng.random() < 0.1:
            v = int(round(v))
        return v

    def tree(nm, depth=0):
        if depth >= 3 or rng.random() < 0.5:
            return value(nm)
        return [tree(nm, depth + 1) for _ in range(rng.randint(0, 3))]

    params = []
    for nm in rng.sample(names, rng.randint(1, len(names))):
        params.append([nm, tree(nm)])
    if rng.random() < 0.15:
        params.insert(rng.randrange(len(params) + 1), ["zz", tree("zz")])
    none_gp = rng.random() < 0.05
    return {"gp": None if none_gp else gp, "params": params}


def impl_validate(inp):
    spec = {"target": "t", "layout": "", "modes": 2, "compiler": [], "gate_parameters": inp["gp"]}
    dev = Device(spec)
    def conv(t):
        return t
    kwargs = {k: (np.array(v) if isinstance(v, list) and v and all(not isinstance(x, list) for x in v) and len(v) % 2 == 0 else v) for k, v in inp["params"]}
    try:
        dev.validate_parameters(**kwargs)
        return ["VOk"]
    except ValueError as e:
        s = str(e)
        if "not a valid parameter" in s:
            return ["VUnknown", s.split("'")[1]]
        nm = s.split("'")[1]
        val = s.split("has invalid value ")[1].split(". Only")[0]
        return ["VInvalid", nm, float(val)]
    except Exception as e:
        return ["Raise", type(e).__name__]


def corr_validate(ctx, inputs, tag):
    names = {}
    nid = lambda s: names.setdefault(s, len(names))

    def rng_term(a):
        lo, hi = (a[0], a[-1]) if isinstance(a, list) else (a, a)
        return "mkRange %s %s %s" % (cf(lo), cf(hi), cf(1e-5))

    def tree_term(t):
        if isinstance(t, list):
            return "(Node %s)" % coq.coq_list([tree_term(x) for x in t])
        return "(Leaf %s)" % cf(t)

    items = []
    for inp in inputs:
        if inp["gp"] is None:
            gp = "None"
        else:
            gp = "(Some %s)" % coq.coq_list(["(%d, %s)" % (nid(k), coq.coq_list([rng_term(a) for a in v])) for k, v in inp["gp"].items()])
        ps = coq.coq_list(["(%d, %s)" % (nid(k), tree_term(v)) for k, v in inp["params"]])
        items.append("(%s, %s)" % (gp, ps))
    text = FLOAT_HDR + ("Definition cases : list (option (list (nat * list (range float))) * list (nat * ptree float)) := %s.\n"
                        "Eval vm_compute in map (fun c => match validate_parameters float PrimFloat.add PrimFloat.sub PrimFloat.leb (fst c) (snd c) with "
                        "VOk => (0, 0, 0%%float) | VUnknown p => (1, p, 0%%float) | VInvalid p v => (2, p, v) end) cases.\n"
                        % coq.coq_list(items, lambda s: s).replace("; (", ";\n (")).replace("%%", "%")
    ok, vals, raw = coq_eval_tmp(ctx, "corr_validate_%s_%d" % (tag, os.getpid()), text)
    if not ok:
        ctx.obligation("correspondence:validate_parameters:" + tag, False, raw)
        return
    inv = {v: k for k, v in names.items()}
    for inp, mv in zip(inputs, vals[0]):
        iv = impl_validate(inp)
        m = ["VOk"] if mv[0] == 0 else (["VUnknown", inv.get(mv[1])] if mv[0] == 1 else ["VInvalid", inv.get(mv[1]), float(mv[2])])
        ctx.traces += 1
        rejected = iv[0] != "VOk"
        ctx.case({"model": "validate", "input": inp, "impl": iv}, nontrivial=rejected, bucket="corr:validate:" + iv[0])
        if iv[0] == "Raise":
            ctx.counterexample("validate_parameters:raises:" + iv[1], "Device.validate_parameters raised %s instead of accepting or raising ValueError" % iv[1],
                               {"family": "corr", "model": "validate", "input": inp, "impl": iv, "coq": m})
        elif m != iv:
            data = {"family": "corr", "model": "validate", "input": inp, "impl": iv, "coq": m}
            # property predicate: accepted => every flattened value inside a range; rejected => some value outside
            flat = []
            def fl(t, nm):
                if isinstance(t, list):
                    for x in t:
                        fl(x, nm)
                else:
                    flat.append((nm, t))
            for k, v in inp["params"]:
                fl(v, k)
            gp = inp["gp"]
            all_in = gp is None or all(k in gp and in_ranges(v, gp[k]) for k, v in flat)
            if (iv[0] == "VOk") != all_in:
                ctx.counterexample("validate_parameters:wrong-verdict", "Device.validate_parameters %s parameters of which %s lie inside the allowed ranges"
                                   % ("accepts" if iv[0] == "VOk" else "rejects", "all" if all_in else "not all"), data)
            else:
                ctx.disagreement("corr:validate_parameters", "model %r vs implementation %r" % (m, iv), data)


# ---- (2) assert_modes ------------------------------------------------------------------------------------

MEAS = {"MeasureFock": "KFock", "MeasureHomodyne": "KHomodyne", "MeasureX": "KHomodyne", "MeasureP": "KHomodyne",
        "MeasureHeterodyne": "KHeterodyne", "MeasureHD": "KHeterodyne", "MeasureThreshold": "KOther", "Rgate": "KOther"}


def gen_modes_input(rng):
    if rng.random() < 0.25:
        return {"form": "tdm", "T": rng.randint(1, 6), "N": rng.choice([[2], [3], [2, 2], [1, 3]]),
                "dev": {"temporal_max": rng.randint(1, 6), "concurrent": rng.choice([2, 3, 4]), "spatial": rng.choice([1, 2])}}
    n = rng.randint(1, 6)
    cmds = []
    free = list(range(n))
    rng.shuffle(free)
    while free and rng.random() < 0.85:
        k = rng.randint(1, min(3, len(free)))
        ms, free = free[:k], free[k:]
        name = rng.choice(["MeasureFock", "MeasureFock", "MeasureHomodyne", "MeasureX", "MeasureP", "MeasureHeterodyne", "MeasureHD", "MeasureThreshold", "Rgate"])
        if name in ("MeasureHomodyne", "MeasureX", "MeasureP", "Rgate", "MeasureHeterodyne", "MeasureHD"):
            for m in ms:
                cmds.append([name, [m]])
        else:
            cmds.append([name, ms])
    if rng.random() < 0.4:
        dev = rng.choice([n, n - 1, n + 1, 0])
    else:
        dev = {"pnr_max": rng.randint(0, 4), "homodyne_max": rng.randint(0, 3), "heterodyne_max": rng.randint(0, 3)}
        if rng.random() < 0.15:
            del dev[rng.choice(list(dev))]
    return {"form": "prog", "n": n, "cmds": cmds, "dev": dev}


class _FakeDev:
    def __init__(self, modes):
        self.modes = modes
        self.target = "fake"


def impl_modes(inp):
    try:
        if inp["form"] == "tdm":
            prog = TDMProgram(N=inp["N"])
            T = inp["T"]
            with prog.context([0.1] * T) as (p, q):
                ops.Sgate(0.3) | q[0]
                ops.Rgate(p[0]) | q[0]
                ops.MeasureHomodyne(0.0) | q[0]
                if len(inp["N"]) > 1:
                    ops.MeasureHomodyne(0.0) | q[inp["N"][0]]
            facts = [prog.timebins, prog.concurr_modes, prog.spatial_modes]
            prog.assert_modes(_FakeDev(inp["dev"]))
            return ["AMOk"], facts
        prog = sf.Program(inp["n"])
        with prog.context as q:
            for name, ms in inp["cmds"]:
                op = {"MeasureX": ops.MeasureX, "MeasureP": ops.MeasureP, "MeasureHD": ops.MeasureHD}.get(name)
                if op is None:
                    op = getattr(ops, name)(0.3) if name in ("Rgate", "MeasureHomodyne") else getattr(ops, name)()
                op | tuple(q[m] for m in ms)
        prog.assert_modes(_FakeDev(inp["dev"]))
        return ["AMOk"], None
    except CircuitError as e:
        s = str(e)
        which = (0 if "only supports a" in s else 1 if "fock measurements" in s else 2 if "homodyne" in s else 3 if "heterodyne" in s
                 else 4 if "temporal" in s else 5 if "concurrent" in s else 6 if "spatial" in s else 99)
        return ["AMCircuitError", which], None
    except KeyError:
        return ["AMKeyError"], None
    except Exception as e:
        return ["Raise", type(e).__name__], None


def corr_modes(ctx, inputs, tag):
    items, impls = [], []
    for inp in inputs:
        iv, facts = impl_modes(inp)
        impls.append(iv)
        if inp["form"] == "tdm":
            if facts is None:   # an error: facts needed for the model are the program's own properties
                prog_T, conc, spat = inp["T"], sum(inp["N"]), len(inp["N"])
            else:
                prog_T, conc, spat = facts
            d = inp["dev"]
            items.append("tdm_assert_modes %d %d %d %d %d %d" % (prog_T, conc, spat, d["temporal_max"], d["concurrent"], d["spatial"]))
        elif isinstance(inp["dev"], int):
            items.append("assert_modes_int %d %d" % (inp["n"], max(inp["dev"], 0)) if inp["dev"] >= 0 else "AMCircuitError 0")
        else:
            d = inp["dev"]
            o = lambda k: "(Some %d)" % d[k] if k in d else "None"
            items.append("assert_modes_dict (mkD %s %s %s) %s" % (o("pnr_max"), o("homodyne_max"), o("heterodyne_max"),
                         coq.coq_list(["mkM %s %d" % (MEAS[nm], len(ms)) for nm, ms in inp["cmds"]])))
    text = FLOAT_HDR + "Eval vm_compute in map (fun r => match r with AMOk => (0, 0) | AMCircuitError w => (1, w) | AMKeyError => (2, 0) end) %s.\n" % coq.coq_list(items)
    ok, vals, raw = coq_eval_tmp(ctx, "corr_modes_%s_%d" % (tag, os.getpid()), text)
    if not ok:
        ctx.obligation("correspondence:assert_modes:" + tag, False, raw)
        return
    for inp, iv, mv in zip(inputs, impls, vals[0]):
        m = ["AMOk"] if mv[0] == 0 else (["AMCircuitError", mv[1]] if mv[0] == 1 else ["AMKeyError"])
        ctx.traces += 1
        ctx.case({"model": "modes", "input": inp, "impl": iv}, nontrivial=iv[0] != "AMOk", bucket="corr:modes:" + iv[0])
        if iv[0] == "Raise":
            ctx.counterexample("assert_modes:raises:" + iv[1], "assert_modes raised %s instead of accepting or raising CircuitError" % iv[1],
                               {"family": "corr", "model": "modes", "input": inp, "impl": iv, "coq": m})
        elif m != iv:
            data = {"family": "corr", "model": "modes", "input": inp, "impl": iv, "coq": m}
            # property predicate: accepted iff the counts are within the limits (independent count)
            within = None
            if inp["form"] == "prog" and isinstance(inp["dev"], dict) and len(inp["dev"]) == 3:
                cnt = {"KFock": 0, "KHomodyne": 0, "KHeterodyne": 0, "KOther": 0}
                for nm, ms in inp["cmds"]:
                    cnt[MEAS[nm]] += len(ms)
                within = cnt["KFock"] <= inp["dev"]["pnr_max"] and cnt["KHomodyne"] <= inp["dev"]["homodyne_max"] and cnt["KHeterodyne"] <= inp["dev"]["heterodyne_max"]
            elif inp["form"] == "prog" and isinstance(inp["dev"], int):
                within = inp["n"] <= inp["dev"]
            if within is not None and within != (iv[0] == "AMOk"):
                ctx.counterexample("assert_modes:wrong-verdict", "assert_modes %s a program whose mode/measurement counts are %s the device limits"
                                   % ("accepts" if iv[0] == "AMOk" else "rejects", "within" if within else "beyond"), data)
            else:
                ctx.disagreement("corr:assert_modes", "model %r vs implementation %r" % (m, iv), data)


# ---- (3) list_duplicates and the S2gate stage of Xunitary.compile ----------------------------------------

def gen_s2_input(rng):
    N = rng.randint(1, 5)
    cmds = []
    for i in range(N):
        m = rng.choice([0, 1, 1, 1, 2, 2, 3])
        phi = rng.choice([0.0, 0.0, 0.0, 0.3])
        for _ in range(m):
            r = rng.choice([0.0, 0.25, 0.5, 1.0, round(rng.uniform(-1, 1), 3)])
            cmds.append([i, i + N, r, phi if rng.random() < 0.9 else phi + 0.1, rng.random() < 0.2])
    if rng.random() < 0.08 and N >= 2:
        cmds.append([0, 1, 0.3, 0.0, False])
    if rng.random() < 0.05 and N >= 2:
        cmds.append([N, 0, 0.3, 0.0, False])
    rng.shuffle(cmds)
    return {"N": N, "s2": cmds}


def impl_s2(inp):
    """run Xunitary.compile on S2gates + MeasureFock; capture B as returned by group_operations and the result"""
    N = inp["N"]
    prog = sf.Program(2 * N)
    with prog.context as q:
        for c in inp["s2"]:
            i, j, r, phi = c[:4]
            (ops.S2gate(r, phi).H if (len(c) > 4 and c[4]) else ops.S2gate(r, phi)) | (q[i], q[j])
        ops.MeasureFock() | q
    captured = {}
    orig = xunitary_mod.group_operations

    def patched(seq, pred):
        A, B, C = orig(seq, pred)
        if any(isinstance(c.op, ops.S2gate) for c in B) and not any(isinstance(c.op, ops.MeasureFock) for c in B):
            captured["B"] = [[c.reg[0].ind, c.reg[1].ind, float(c.op.p[0]), float(c.op.p[1]), bool(c.op.dagger)] for c in B]
        return A, B, C
    xunitary_mod.group_operations = patched
    try:
        reset_compilers()
        comp = prog.compile(compiler="Xunitary", warn_connected=False)
        out = [[c.reg[0].ind, c.reg[1].ind, float(c.op.p[0]), float(c.op.p[1]), bool(c.op.dagger)] for c in comp.circuit if isinstance(c.op, ops.S2gate)]
        res = ["Ok", out]
    except CircuitError as e:
        s = str(e)
        res = ["CircuitErr", 2 if "correct modes" in s else 3 if "different phase" in s else 1 if "before the S2gates" in s else 99]
    except IndexError:
        res = ["IndexErr"]
    finally:
        xunitary_mod.group_operations = orig
    B = captured.get("B", [])
    # iteration order of the set `allowed_modes - regrefs`, evaluated exactly as the source does
    regrefs = {(c[0], c[1]) for c in B}
    allowed_modes = set(zip(range(0, N), range(N, 2 * N)))
    miss = [i for i, j in (allowed_modes - regrefs)] if regrefs.issubset(allowed_modes) else []
    return res, B, miss


def s2_terms(B):
    return coq.coq_list(["mkS2 %d %d %s %s %s" % (c[0], c[1], cf(c[2]), cf(c[3]), coq.coq_bool(c[4])) for c in B])


def corr_s2(ctx, inputs, tag):
    rows, items, dup_items, dup_impl = [], [], [], []
    for inp in inputs:
        res, B, miss = impl_s2(inp)
        rows.append((inp, res, B, miss))
        items.append("s2_stage float 0%%float PrimFloat.add PrimFloat.opp (fun a b => negb (PrimFloat.eqb a b)) %d %s %s" % (inp["N"], coq.coq_list(miss), s2_terms(B)))
        keys = [(c[0], c[1]) for c in inp["s2"]]
        dup_items.append("list_duplicates %s" % coq.coq_list(["(%d, %d)" % k for k in keys]))
        dup_impl.append([[list(k), locs] for k, locs in xunitary_mod.list_duplicates(keys)])
    text = FLOAT_HDR + ("Eval vm_compute in map (fun r => match r with Ok l => (0, map (fun c => (mi c, mj c, sr c, sphi c, sdag c)) l) | CircuitErr c => (c, []) | IndexErr => (100, []) end) %s.\n"
                        "Eval vm_compute in %s.\n") % (coq.coq_list(items).replace("%%", "%"), coq.coq_list(dup_items))
    ok, vals, raw = coq_eval_tmp(ctx, "corr_s2_%s_%d" % (tag, os.getpid()), text)
    if not ok:
        ctx.obligation("correspondence:s2_stage:" + tag, False, raw)
        return
    for (inp, res, B, miss), mv, dm, di in zip(rows, vals[0], vals[1], dup_impl):
        ctx.traces += 1
        if mv[0] == 0:
            m = ["Ok", [[c[0], c[1], float(c[2]), float(c[3]), bool(c[4])] for c in mv[1]]]
        elif mv[0] == 100:
            m = ["IndexErr"]
        else:
            m = ["CircuitErr", mv[0]]
        ndup = len(di)
        ctx.case({"model": "s2", "input": inp, "impl": res[0]}, nontrivial=ndup >= 1 or len(inp["s2"]) < inp["N"], bucket="corr:s2:%s:dup%d" % (res[0], min(ndup, 2)))
        dmj = [[[a, b], list(l)] for a, b, l in dm]
        if dmj != di:
            ctx.disagreement("corr:list_duplicates", "model %r vs implementation %r" % (dmj, di), {"family": "corr", "model": "s2", "input": inp})
        same = (m[0] == res[0]) and (m[0] != "Ok" or (len(m[1]) == len(res[1]) and all(a[:2] == b[:2] and a[2] == b[2] and a[3] == b[3] and a[4] == b[4] for a, b in zip(m[1], res[1])))) \
            and (m[0] != "CircuitErr" or m[1] == res[1])
        data = {"family": "corr", "model": "s2", "input": inp, "impl": res, "coq": m, "B": B, "miss": miss}
        # the property's predicate, independent of the model
        verdict = s2_predicate(inp, res)
        if verdict is not None:
            ctx.counterexample(verdict[0], verdict[1], data)
        elif not same:
            ctx.disagreement("corr:s2_stage", "model %r vs implementation %r" % (m, res), data)


def s2_predicate(inp, res):
    """expected: valid pairs -> one S2gate per pair: S2gate(0,0) / the source gate itself / the undaggered gate with the
    signed sum of the source r's (or CircuitError on differing phases); never another exception"""
    N = inp["N"]
    valid = all(c[1] == c[0] + N and c[0] < N for c in inp["s2"])
    groups = {}
    for c in inp["s2"]:
        groups.setdefault(c[0], []).append(c)
    ndup = sum(1 for g in groups.values() if len(g) >= 2)
    if res[0] == "IndexErr":
        return ("xunitary:s2-merge:IndexError", "Xunitary raises IndexError (pop index out of range) when merging repeated S2gates on %d pairs" % ndup)
    if res[0] != "Ok":
        return None
    if not valid:
        return ("xunitary:s2-wrong-pair-accepted", "Xunitary accepted S2gates on a pair that is not (m, m+N)")
    got = {}
    for c in res[1]:
        got.setdefault((c[0], c[1]), []).append(c)
    for i in range(N):
        src = groups.get(i, [])
        g = got.get((i, i + N), [])
        ok = len(g) == 1
        if ok and len(src) == 0:
            ok = g[0][2] == 0 and not g[0][4]
        elif ok and len(src) == 1:
            ok = g[0][2] == src[0][2] and g[0][3] == src[0][3] and g[0][4] == bool(src[0][4])
        elif ok:
            want_r = sum(-c[2] if c[4] else c[2] for c in src)
            ok = abs(g[0][2] - want_r) <= 1e-9 and not g[0][4]
        if not ok:
            return ("xunitary:s2-stage:wrong-squeezers", "Xunitary's S2gate stage (repeated S2gates on %d pairs) returns %r for pair (%d,%d); "
                    "source squeezers of that pair: %r" % (ndup, g, i, i + N, src))
    if len(res[1]) != N:
        return ("xunitary:s2-stage:wrong-squeezers", "Xunitary returns %d S2gates for %d pairs" % (len(res[1]), N))
    return None


# ---- (4) Borealis.update_params, (5) loop-offset insertion --------------------------------------------------

def qlit(x):
    f = Fraction(float(x))
    return "(Qmake (%d)%%Z %d%%positive)" % (f.numerator, f.denominator)


def corr_borealis(ctx, inputs, tag):
    """inputs: borealis cases (no mutation); compares update_params output and the inserted sequence / _user_offsets"""
    rows, items, ins_items = [], [], []
    var = borealis_variant()
    ctx.extra["borealis_variant"] = dict(var)
    lay = borealis_layout_cmds()
    tid = {"Sgate": 0, "Rgate": 1, "BSgate": 2, "MeasureFock": 3}
    for case in inputs:
        kind, res, uo = compile_borealis(case)
        rows.append((case, kind, res, uo))
        T = len(case["args"][0])
        loops = []
        for i in range(3):
            loops.append("mkLoop %s %d %s %s" % (qlit(case["loop_phases"][i]), BOREALIS_DELAYS[i], coq.coq_bool(case["offsets"][i] is not None),
                                                coq.coq_list([qlit(x) for x in case["args"][1 + 2 * i]])))
        items.append("update_params %s %s %s" % (coq.coq_bool(var["partial"]), qlit(PI), coq.coq_list(loops)))
        # insertion: layout commands (tags 100+) vs the user's sequence (tags 0..)
        def is_off(c):
            return c[0] == "Rgate" and "loop" in str(c[1][0])
        circ = ["mkB %d %s %s %d %s" % (tid[c[0]], coq.coq_list(sorted(c[2])), coq.coq_bool(is_off(c)), 100 + k,
                                        coq.coq_bool(not is_off(c) and any(isinstance(x, str) for x in c[1]))) for k, c in enumerate(lay)]
        try:
            prog = borealis_program(case)
            useq = ["mkB %d %s false %d false" % (tid.get(c.op.__class__.__name__, 9), coq.coq_list(sorted(r.ind for r in c.reg)), k) for k, c in enumerate(prog.circuit)]
        except Exception:
            useq = []
        ins_items.append("insert_offsets %s %s %s" % (coq.coq_bool(var["trunc"]), coq.coq_list(circ), coq.coq_list(useq)))
    text = FLOAT_HDR + ("Eval vm_compute in map (map (map (fun q => let r := Qred q in (Qnum r, Zpos (Qden r))))) %s.\n"
                        "Eval vm_compute in map (fun r => match r with Some (out, uo) => (true, map b_tag out, uo) | None => (false, [], []) end) %s.\n"
                        ) % (coq.coq_list(items), coq.coq_list(ins_items))
    ok, vals, raw = coq_eval_tmp(ctx, "corr_borealis_%s_%d" % (tag, os.getpid()), text)
    if not ok:
        ctx.obligation("correspondence:borealis:" + tag, False, raw)
        return
    for (case, kind, res, uo), mv, iv in zip(rows, vals[0], vals[1]):
        ctx.traces += 1
        data = {"family": "borealis", "case": case, "K": 2}
        ctx.case({"model": "borealis", "T": len(case["args"][0]), "offsets": case["offsets"], "mut": case["mut"], "impl": kind},
                 nontrivial=kind == "ok" and any(o is None for o in case["offsets"]), bucket="corr:borealis:" + kind)
        # insertion
        m_ok, m_tags, m_uo = iv
        if kind == "ok" or (uo is not None):
            if not m_ok:
                ctx.disagreement("corr:borealis-insert", "model rejects the topology, implementation got past the insertion", data)
            elif uo is not None and [bool(x) for x in m_uo] != [bool(x) for x in uo]:
                ctx.disagreement("corr:borealis-insert", "model _user_offsets %r vs implementation %r" % (m_uo, uo), data)
        elif kind == "CircuitError" and "incompatible topologies" in str(res) and m_ok:
            ctx.disagreement("corr:borealis-insert", "implementation rejects the topology in the insertion loop, model accepts", data)
        if kind == "ok":
            prog, compiled, src_cmds, spec = res
            ids = {id(c): k for k, c in enumerate(src_cmds)}
            impl_tags = [ids.get(id(c), 100 + k) for k, c in enumerate(compiled.circuit)]
            if m_ok and [t if t < 100 else 100 + k for k, t in enumerate(m_tags)] != impl_tags:
                ctx.disagreement("corr:borealis-insert", "model sequence %r vs implementation %r" % (m_tags, impl_tags), data)
        # phases: Borealis.update_params called directly (so that a later range validation cannot hide a difference)
        try:
            new_params = impl_update_params(case)
        except Exception as e:
            ctx.counterexample("borealis:update_params:" + type(e).__name__, "Borealis.update_params raised %s: %s" % (type(e).__name__, e), data)
            continue
        for loop in range(3):
            new = [float(x) for x in new_params[loop]]
            mod = [float(Fraction(int(a), int(b))) for a, b in mv[loop]]
            done = False
            for j, (a, b) in enumerate(zip(new, mod)):
                d = abs(a - b)
                if d > 1e-9 and not (abs(d - PI) < 1e-9 and near_boundary(case, loop, j)) and not (abs(d - 2 * PI) < 1e-9 and near_boundary(case, loop, j)):
                    # property predicate on the implementation: inside the modulator range and congruent modulo pi
                    if a < -PI / 2 - 1e-9 or a > PI / 2 + 1e-9:
                        ctx.counterexample("borealis:update_params:out-of-range", "loop %d bin %d: Borealis.update_params returns %r, outside [-pi/2, pi/2]" % (loop, j, a), data)
                    else:
                        ctx.disagreement("corr:borealis-phases", "loop %d bin %d: model %r vs implementation %r" % (loop, j, b, a), data)
                    done = True
                    break
            if done:
                break


def impl_update_params(case):
    """Borealis.update_params on the user's program, with _user_offsets as the insertion loop would set them"""
    reset_compilers()
    spec, cert = borealis_device_spec(case["loop_phases"])
    prog = borealis_program(dict(case, mut=None))
    comp = compiler_db["borealis"]()
    comp._user_offsets = [o is not None for o in case["offsets"]]
    comp.update_params(prog, Device(spec, cert))
    return [list(prog.tdm_params[1 + 2 * l]) for l in range(3)]


def near_boundary(case, loop, j):
    """the uncorrected phase is within rounding of a decision boundary (pi, +-pi/2) -> either side is fine"""
    pre = expected_pre(case, borealis_variant()["partial"])[loop]
    if pre is None:
        return False
    m = pre[j] % (2 * PI)
    return min(abs(m - PI), abs(m - PI / 2), abs(m - 3 * PI / 2), abs(m), abs(m - 2 * PI)) < 1e-9


CORR = {"validate": corr_validate, "modes": corr_modes, "s2": corr_s2}


def correspondence(ctx):
    rng = ctx.rng
    reps = ctx.budget(1, 5)
    for rep in range(reps):
        corr_validate(ctx, [gen_validate_input(rng) for _ in range(ctx.budget(150, 300))], "r%d" % rep)
        corr_modes(ctx, [gen_modes_input(rng) for _ in range(ctx.budget(150, 300))], "r%d" % rep)
        corr_s2(ctx, [gen_s2_input(rng) for _ in range(ctx.budget(120, 250))], "r%d" % rep)
        cases = []
        for _ in range(ctx.budget(25, 40)):
            c = gen_borealis_case(rng)
            cases.append(c)
        corr_borealis(ctx, cases, "r%d" % rep)
        corr_padding(ctx, [gen_padding_case(rng) for _ in range(ctx.budget(120, 250))], "r%d" % rep)
