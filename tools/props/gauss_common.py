"""Shared by C01 / C05 / C07: the translator tie for gaussiancircuit.py and the float correspondence of the
generated Gallina functions against the real GaussianModes methods."""
import json
import math

import numpy as np

import translate_gauss
import translate_gaussmat
from vlib import coq

from strawberryfields.backends.gaussianbackend.gaussiancircuit import GaussianModes

import os as _os
SIG_PATH = _os.path.join(_os.path.dirname(_os.path.dirname(_os.path.dirname(_os.path.abspath(__file__)))), "coq", "Gen", "gausscirc_sig.json")


def translate_gausscirc(ctx):
    translate_gauss.write(ctx)


def translate_gaussmat_fn(ctx):
    """whole-array methods (apply_u, scovmatxp, smeanxp) -> coq/Gen/GaussMat.v"""
    translate_gaussmat.write(ctx)


def cplx(z):
    z = complex(z)
    return "(mkC %s %s)" % (coq.coq_float(z.real), coq.coq_float(z.imag))


def mat(m):
    return coq.coq_list([coq.coq_list([cplx(x) for x in row]) for row in m])


def vec(v):
    return coq.coq_list([cplx(x) for x in v])


def st_term(n, N, M, a):
    return "(st_of %d %s %s %s)" % (n, mat(N), mat(M), vec(a))


PARAM_KINDS = {
    "displace": {"r": "d", "phi": "a"},
    "squeeze": {"r": "r", "phi": "a"},
    "phase_shift": {"phi": "a"},
    "beamsplitter": {"theta": "a", "phi": "a"},
    "loss": {"T": "t"},
    "thermal_loss": {"T": "t", "nbar": "n"},
    "init_thermal": {"population": "n"},
}


def draw(rng, kind):
    if kind == "a":
        return rng.choice([0.0, math.pi / 2, math.pi, -math.pi / 2, math.pi / 4, -0.3, 1.1]) if rng.random() < 0.4 else rng.uniform(-math.pi, math.pi)
    if kind == "t":
        return rng.choice([0.0, 1.0, 0.5, 0.25]) if rng.random() < 0.4 else rng.uniform(0, 1)
    if kind == "n":
        return rng.choice([0.0, 0.5, 2.0]) if rng.random() < 0.4 else rng.uniform(0, 2)
    if kind == "d":
        return rng.choice([0.0, 1.0]) if rng.random() < 0.3 else rng.uniform(0, 1.5)
    return rng.choice([0.0, 0.5, -0.5]) if rng.random() < 0.3 else rng.uniform(-1, 1)


def rand_state(rng, n, structured):
    def c():
        return complex(round(rng.uniform(-1, 1), 3), round(rng.uniform(-1, 1), 3))
    N = [[c() for _ in range(n)] for _ in range(n)]
    M = [[c() for _ in range(n)] for _ in range(n)]
    if structured:  # Hermitian N, symmetric M
        for i in range(n):
            N[i][i] = complex(abs(N[i][i].real), 0)
            for j in range(i):
                N[i][j] = N[j][i].conjugate()
                M[i][j] = M[j][i]
    a = [c() for _ in range(n)]
    return N, M, a


def gen_case(rng, sig):
    method = rng.choice(sorted(PARAM_KINDS))
    info = sig[method]
    n = rng.randint(2, 5) if method == "beamsplitter" else rng.randint(1, 5)
    structured = rng.random() < 0.6
    N, M, a = rand_state(rng, n, structured)
    args = {}
    idx = [p for p in info["pyparams"] if ["index", p] in [list(f) for f in info["formals"]]]
    targets = rng.sample(range(n), len(idx))
    for p in info["pyparams"]:
        if p in idx:
            args[p] = targets[idx.index(p)]
        else:
            kind = PARAM_KINDS.get(method, {}).get(p)
            if kind is None:
                raise RuntimeError("gauss_common: parameter %s of %s has no generator (source signature changed)" % (p, method))
            args[p] = draw(rng, kind)
    return {"method": method, "n": n, "args": args, "N": N, "M": M, "a": a, "structured": structured}


def run_impl(case):
    gm = GaussianModes(case["n"])
    gm.nmat = np.array(case["N"], dtype=complex)
    gm.mmat = np.array(case["M"], dtype=complex)
    gm.mean = np.array(case["a"], dtype=complex)
    info_params = case["order"]
    getattr(gm, case["method"])(*[case["args"][p] for p in info_params])
    return gm.nmat.tolist(), gm.mmat.tolist(), gm.mean.tolist()


PRIM_FN = {"expi": lambda x: np.exp(1j * x), "sin": np.sin, "cos": np.cos, "sinh": np.sinh, "cosh": np.cosh, "sqrt": np.sqrt}


def model_term(case, sig):
    info = sig[case["method"]]
    parts = []
    for kind, nm in info["formals"]:
        if kind == "scalar":
            parts.append(coq.coq_float(case["args"][nm]))
        elif kind == "index":
            parts.append(str(case["args"][nm]))
        else:
            p = [q for q in info["prims"] if q["name"] == nm][0]
            val = PRIM_FN[p["kind"]](eval(p["arg"], {"__builtins__": {}}, dict(case["args"])))
            parts.append(cplx(val) if p["type"] == "C" else coq.coq_float(float(val)))
    return "(%s NF %s %s)" % (case["method"], " ".join(parts), st_term(case["n"], case["N"], case["M"], case["a"]))


def correspondence_generated(ctx, n_cases, tag="gen"):
    """Float correspondence of every generated function against GaussianModes. Returns list of failing cases."""
    sig = json.load(open(SIG_PATH))
    rng = ctx.rng
    cases = []
    for _ in range(n_cases):
        c = gen_case(rng, sig)
        c["order"] = sig[c["method"]]["pyparams"]
        c["out"] = run_impl(c)
        cases.append(c)
    failing = []
    for si in range(0, len(cases), 150):
        sh = cases[si:si + 150]
        lines = ["From Coq Require Import List PrimFloat.", "Import ListNotations.",
                 "From SFV Require Import Base.Num Base.FloatInst Gen.GaussCirc.",
                 "Definition cases : list (st float * st float) := ["]
        lines.append(";\n".join("(%s, %s)" % (model_term(c, sig), st_term(c["n"], *c["out"])) for c in sh))
        lines.append("].")
        lines.append("Eval vm_compute in map (fun c => st_close 0x1p-30%float (fst c) (snd c)) cases.")
        ok, vals, raw = ctx.coq_eval("cases_%s_%d" % (tag, si // 150), "\n".join(lines))
        if not ok:
            ctx.obligation("correspondence:generated-gausscirc:shard%d" % (si // 150), False, raw)
            return None
        for c, good in zip(sh, vals[0]):
            small = {"method": c["method"], "n": c["n"], "args": c["args"], "structured": c["structured"]}
            nontriv = c["n"] >= 2 and min(v for k, v in c["args"].items() if isinstance(v, int)) >= 0 and any(
                isinstance(v, int) and v > 0 for v in c["args"].values())
            ctx.case(small, nontrivial=nontriv, bucket="gen-" + c["method"])
            if not good:
                failing.append(c)
    ctx.traces += len(cases)
    return failing


def correspondence_readout(ctx, n_cases, tag="ro"):
    """Base/PhaseSpace.rcov / rmean (hand model of scovmatxp / smeanxp) against the implementation."""
    rng = ctx.rng
    cases = []
    for _ in range(n_cases):
        n = rng.randint(1, 4)
        N, M, a = rand_state(rng, n, rng.random() < 0.5)
        gm = GaussianModes(n)
        gm.nmat = np.array(N, dtype=complex)
        gm.mmat = np.array(M, dtype=complex)
        gm.mean = np.array(a, dtype=complex)
        cases.append((n, N, M, a, gm.scovmatxp().tolist(), gm.smeanxp().tolist()))
    lines = ["From Coq Require Import List PrimFloat Bool.", "Import ListNotations.",
             "From SFV Require Import Base.Num Base.FloatInst Base.PhaseSpace Base.MatOps Gen.GaussMat.",
             "Definition idx (n : nat) := seq 0 n.",
             "(* the hand-written read-out and the one generated from scovmatxp / smeanxp (proved equal: C01_gauss_readout_is_generated) *)",
             "Definition flat_cov_h (n : nat) (s : st float) : list float :=",
             "  flat_map (fun q1 => flat_map (fun a => flat_map (fun q2 => map (fun b => rcov NF s q1 q2 a b) (idx n)) [false; true]) (idx n)) [false; true].",
             "Definition flat_cov (n : nat) (s : st float) : list float :=",
             "  flat_map (fun q1 => flat_map (fun a => flat_map (fun q2 => map (fun b => scovmatxp NF s q1 q2 a b) (idx n)) [false; true]) (idx n)) [false; true].",
             "Definition flat_mean (n : nat) (s : st float) : list float := flat_map (fun q => map (fun a => smeanxp NF s q a) (idx n)) [false; true].",
             "Definition flat_mean_h (n : nat) (s : st float) : list float := flat_map (fun q => map (fun a => rmean NF s q a) (idx n)) [false; true].",
             "Fixpoint all_close (l1 l2 : list float) : bool := match l1, l2 with [], [] => true | x :: t1, y :: t2 => fclose 0x1p-30%float x y && all_close t1 t2 | _, _ => false end.",
             "Definition cases : list (nat * st float * list float * list float) := ["]
    items = []
    for n, N, M, a, cov, mean in cases:
        flat = [x for row in cov for x in row]
        items.append("(%d, %s, %s, %s)" % (n, st_term(n, N, M, a), coq.coq_list(flat, coq.coq_float), coq.coq_list(mean, coq.coq_float)))
    lines.append(";\n".join(items) + "].")
    lines.append("Eval vm_compute in map (fun c => match c with (n, s, cv, mn) => all_close (flat_cov n s) cv && all_close (flat_mean n s) mn && all_close (flat_cov_h n s) cv && all_close (flat_mean_h n s) mn end) cases.")
    ok, vals, raw = ctx.coq_eval("cases_%s" % tag, "\n".join(lines))
    if not ok:
        ctx.obligation("correspondence:readout", False, raw)
        return None
    bad = []
    for c, good in zip(cases, vals[0]):
        ctx.case({"readout-n": c[0]}, nontrivial=c[0] >= 2, bucket="readout")
        if not good:
            bad.append(c)
    ctx.traces += len(cases)
    return bad


def correspondence_alloc(ctx, n_cases, tag="alloc"):
    """Base/GaussAlloc.add_mode / del_mode (hand model) against GaussianModes.add_mode(1) / del_mode(k)."""
    rng = ctx.rng
    cases = []
    for _ in range(n_cases):
        n = rng.randint(1, 4)
        N, M, a = rand_state(rng, n, rng.random() < 0.5)
        gm = GaussianModes(n)
        gm.nmat = np.array(N, dtype=complex)
        gm.mmat = np.array(M, dtype=complex)
        gm.mean = np.array(a, dtype=complex)
        if rng.random() < 0.5:
            gm.add_mode(1)
            term = "(add_mode NF %s)" % st_term(n, N, M, a)
            kind = "add_mode"
            nn = n + 1
        else:
            k = rng.randrange(n)
            gm.del_mode(k)
            term = "(del_mode NF %d %s)" % (k, st_term(n, N, M, a))
            kind = "del_mode"
            nn = n
        cases.append((kind, n, term, st_term(nn, gm.nmat.tolist(), gm.mmat.tolist(), gm.mean.tolist())))
    lines = ["From Coq Require Import List PrimFloat.", "Import ListNotations.",
             "From SFV Require Import Base.Num Base.FloatInst Gen.GaussCirc Base.GaussAlloc.",
             "Definition cases : list (st float * st float) := ["]
    lines.append(";\n".join("(%s, %s)" % (c[2], c[3]) for c in cases) + "].")
    lines.append("Eval vm_compute in map (fun c => st_close 0x1p-30%float (fst c) (snd c)) cases.")
    ok, vals, raw = ctx.coq_eval("cases_%s" % tag, "\n".join(lines))
    if not ok:
        ctx.obligation("correspondence:alloc", False, raw)
        return None
    bad = []
    for c, good in zip(cases, vals[0]):
        ctx.case({"alloc": c[0], "n": c[1]}, nontrivial=c[1] >= 2, bucket="alloc-" + c[0])
        if not good:
            bad.append(c)
    ctx.traces += len(cases)
    return bad


def correspondence_apply_u(ctx, n_cases, tag="applyu"):
    """Gen/GaussMat.apply_u (generated from the source) against GaussianModes.apply_u on random states and random complex matrices
    (unitary, contraction, embedded identity-outside-targets, arbitrary). Returns the failing cases (None if Coq failed)."""
    rng = ctx.rng
    cases = []
    for _ in range(n_cases):
        n = rng.randint(1, 5)
        N, M, a = rand_state(rng, n, rng.random() < 0.6)
        rs = np.random.RandomState(rng.randrange(2 ** 31))
        kind = rng.choice(["arbitrary", "unitary", "embedded", "contraction"])
        U = rs.uniform(-1, 1, (n, n)) + 1j * rs.uniform(-1, 1, (n, n))
        if kind in ("unitary", "contraction", "embedded"):
            q, r = np.linalg.qr(U)
            U = q * (np.diag(r) / np.abs(np.diag(r)))
            if kind == "contraction":
                U = U @ np.diag(rs.uniform(0.1, 1.0, n))
            if kind == "embedded" and n >= 2:
                k = rng.randint(1, n - 1)
                modes = rng.sample(range(n), k)
                E = np.eye(n, dtype=complex)
                E[np.ix_(modes, modes)] = U[:k, :k]
                U = E
        gm = GaussianModes(n)
        gm.nmat = np.array(N, dtype=complex)
        gm.mmat = np.array(M, dtype=complex)
        gm.mean = np.array(a, dtype=complex)
        gm.apply_u(U)
        cases.append({"n": n, "kind": kind, "U": U.tolist(), "N": N, "M": M, "a": a, "out": (gm.nmat.tolist(), gm.mmat.tolist(), gm.mean.tolist())})
    lines = ["From Coq Require Import List PrimFloat.", "Import ListNotations.",
             "From SFV Require Import Base.Num Base.FloatInst Base.MatOps Gen.GaussMat.",
             "Definition cases : list (st float * st float) := ["]
    lines.append(";\n".join("((apply_u NF (mat_of %s) %s), %s)" % (mat(c["U"]), st_term(c["n"], c["N"], c["M"], c["a"]), st_term(c["n"], *c["out"])) for c in cases))
    lines.append("].")
    lines.append("Eval vm_compute in map (fun c => st_close 0x1p-30%float (fst c) (snd c)) cases.")
    ok, vals, raw = ctx.coq_eval("cases_%s" % tag, "\n".join(lines))
    if not ok:
        ctx.obligation("correspondence:generated-gaussmat:apply_u", False, raw)
        return None
    bad = []
    for c, good in zip(cases, vals[0]):
        ctx.case({"apply_u": c["kind"], "n": c["n"]}, nontrivial=c["n"] >= 2, bucket="gen-apply_u-" + c["kind"])
        if not good:
            bad.append(c)
    ctx.traces += len(cases)
    return bad
