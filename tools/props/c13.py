"""C13 — a time-domain program means its explicit loop, however it is unrolled."""
import copy
import glob
import json
import math
import os

import numpy as np

from vlib import coq

import strawberryfields as sf
from strawberryfields import ops
from strawberryfields.tdm import program as tdmprog

PROP = "C13"
LEVEL = "proof"
COQ_TARGETS = ["C13/Model.vo", "C13/Obs.vo", "C13/Proofs.vo", "C13/Machine.vo", "C13/Layout.vo", "C13/Order.vo", "C13/Old.vo", "C13/OldRefuted.vo"]
COQ_DIRS = ["C13"]
PROPERTIES_FILE = "Properties/C13.v"
ALLOWED_AXIOMS = set()
RULE = ("a case is a TDM program (1-3 bands of 1-4 concurrent modes, 1-6 time bins, 1-3 shots, default or integer shift, "
        "rolled circuit over Gaussian gates/channels/measurements with constant, p[k] and expression parameters, "
        "daggers, select) together with an unroll/space_unroll/roll/lock history; non-trivial = at least 2 time bins and "
        "either an unroll/roll alternation in the history or (for single runs) 2+ shots, 2+ bands or a non-default shift")
TRUSTED_BASE = [
    "Coq 8.16.1 kernel; vm_compute for evaluating the model on generated cases",
    "hand-written model coq/C13/Model.v of tdm/program.py (shift_by, _get_modes, _unroll_program, apply_op, unroll, "
    "space_unroll, roll, _get_mode_order, reshape_samples, get_delays, get_crop_value), tied by exact correspondence "
    "on generated programs and call histories",
    "harness tools/props/c13.py: spec<->TDMProgram builder, the hand-written explicit loop (fresh mode per pulse) used as "
    "the specification in the search, the np.random.multivariate_normal patch that records the conditional law of every "
    "homodyne outcome and injects the outcome",
    "gaussian backend as the oracle for 'same joint state of the measured pulses' (its own correctness is C01/C05/C06)",
    "physics assumed, not proved here: a measured-and-reset mode is as good as a fresh vacuum mode (C05/C06)",
]
ASSUMPTIONS = [
    "parameter values are opaque in the model (constants by table id, p[k][t] by (k,t)); Python arithmetic on them is not modelled",
    "the model's call-history machine assumes the rolled circuit has no non-atomic symbolic parameter (apply_op then raises; modelled separately)",
    "joint state of measured pulses is compared through the conditional Gaussian law of every homodyne outcome under injected outcomes (chain rule), plus the full Gaussian state for measurement-stripped space-unrolled circuits",
]
MANIFEST_TEXT = (
    "Proved (Coq, closed under the global context, unbounded): C13_shift_refines_loop (default shift, any bands/sizes/bins/shots, "
    "any commands incl. dagger/select/expression parameters: unrolled circuit = image of the explicit fresh-mode loop), "
    "C13_reuse_separated, C13_shift_int (integer shift s<=n), C13_space_unroll (one band, one shot), C13_roll_restores (any call "
    "history: circuit, whole register, init_num_subsystems, caches restored exactly; lock flag), C13_lock_preserved, "
    "C13_unroll_history_independent, C13_mode_order (_get_mode_order = measurement order, any bands/bins). "
    "Bounded: C13_samples_layout_bounded_partial (<=3 bands of <=4 modes, <=5 bins, <=3 shots). "
    "Refuted for the current code and reproduced on the implementation: space_unroll shots>1, reshape of space-unrolled samples. "
    "Refutations of the pre-fix behaviour are kept about *_old definitions only. "
    "Model tied to tdm/program.py by exact correspondence on generated programs/histories; physics (same joint law of the "
    "measured pulses) checked on the gaussian backend with injected homodyne outcomes.")

# --------------------------------------------------------------------------------------------
# op table: name -> (modes, param kinds, is_measurement, daggerable, selectable)
OPS = {
    "Sgate": (1, "ra", False, True, False),
    "Rgate": (1, "a", False, True, False),
    "Dgate": (1, "da", False, True, False),
    "BSgate": (2, "aa", False, True, False),
    "MZgate": (2, "aa", False, True, False),
    "S2gate": (2, "ra", False, True, False),
    "Xgate": (1, "r", False, True, False),
    "Zgate": (1, "r", False, True, False),
    "CXgate": (2, "r", False, True, False),
    "CZgate": (2, "r", False, True, False),
    "Pgate": (1, "r", False, True, False),
    "Fouriergate": (1, "", False, True, False),
    "LossChannel": (1, "t", False, False, False),
    "ThermalLossChannel": (1, "tn", False, False, False),
    "MeasureHomodyne": (1, "a", True, False, True),
    "MeasureHeterodyne": (1, "", True, False, True),
    "MeasureFock": (1, "", True, False, False),
}
NAMES = sorted(OPS)
# gates the gaussian compiler leaves alone (their parameters reach apply_op unchanged)
PRIMITIVE = ["Sgate", "Rgate", "Dgate", "BSgate", "LossChannel", "ThermalLossChannel"]
DECOMPOSED = ["MZgate", "S2gate", "Xgate", "Zgate", "CXgate", "CZgate", "Pgate", "Fouriergate"]
HIST_NAMES = PRIMITIVE * 3 + [x for x in DECOMPOSED if x != "Fouriergate"]
EXPRS = ["2*p", "-p", "p+0.25", "p**2", "p+q", "p*q-0.125"]     # the last two involve a second loop variable q = p[k2]


def expr_value(e, v, w=0.0):
    return [2 * v, -v, v + 0.25, v ** 2, v + w, v * w - 0.125][e]


def draw(rng, kind):
    if kind == "t":
        return rng.choice([1.0, 0.5, 0.75, 0.9, round(rng.uniform(0.2, 1.0), 3)])
    if kind == "n":
        return rng.choice([0.0, 0.5, round(rng.uniform(0, 1.0), 3)])
    if kind == "a":
        return rng.choice([0.0, math.pi / 2, math.pi / 4, -0.7, 1.1, round(rng.uniform(-3.1, 3.1), 3)])
    if kind == "d":
        return rng.choice([0.0, 0.5, round(rng.uniform(0, 1.0), 3)])
    return rng.choice([0.0, 0.4, -0.3, round(rng.uniform(-0.6, 0.6), 3)])


def starts_of(N):
    return [sum(N[:i]) for i in range(len(N))]


def gen_spec(rng, physical=False, allow_flags=True, allow_expr=True, shift_kinds=("default", "int"), max_bands=3,
             max_N=4, max_T=6, single_band=False, names=None, wellformed=True, meas_kind=None):
    """A TDM program spec.  wellformed: every band's leading position(s) are measured by the last
    command touching them (the property's hypothesis)."""
    nb = 1 if single_band else rng.choice([1, 1, 2, 2, 3][: 2 * max_bands - 1])
    N = [rng.randint(1, max_N) for _ in range(nb)]
    n = sum(N)
    T = rng.randint(1, max_T)
    shift = "default"
    if "int" in shift_kinds and (rng.random() < 0.3 or "default" not in shift_kinds):
        shift = rng.choice([1, 1, 2, 2, 3, 0, -1, n, n + 1] if not physical else [x for x in [1, 1, 2, 2, 3] if x <= n])
    narr = rng.randint(1, 3)
    arrays = [[draw(rng, "a") if rng.random() < 0.8 else 0.0 for _ in range(T)] for _ in range(narr)]
    if physical:
        # keep squeezing-like uses bounded: arrays hold angles in [-3.1, 3.1]; r-type uses scale them
        pass
    names = names or (PRIMITIVE * 3 + DECOMPOSED if not physical else PRIMITIVE * 3 + ["MZgate", "S2gate", "Fouriergate"])
    # leading positions to be measured
    if shift == "default":
        lead = starts_of(N)
    elif isinstance(shift, int) and shift > 0:
        lead = list(range(min(shift, n)))
    else:
        lead = [0]
    ncmd = rng.randint(1, 6)
    cmds = []
    for _ in range(ncmd):
        cand = [x for x in names if OPS[x][0] <= n]
        name = rng.choice(cand)
        nm, kinds, _, dagable, _ = OPS[name]
        regs = rng.sample(range(n), nm)
        params = []
        for k in kinds:
            u = rng.random()
            if u < 0.35 and k in "ar":
                params.append({"p": rng.randrange(narr)})
            elif u < 0.42 and k in "ar" and allow_expr:
                e = rng.randrange(len(EXPRS))
                pv = {"p": rng.randrange(narr), "expr": e}
                if e >= 4:
                    pv["p2"] = rng.randrange(narr)
                params.append(pv)
            else:
                params.append(draw(rng, k))
        dag = bool(dagable and allow_flags and rng.random() < 0.2)
        cmds.append([name, params, regs, {"dag": dag, "sel": None}])
    # measurements
    meas_positions = list(lead) if wellformed or rng.random() < 0.7 else rng.sample(range(n), rng.randint(0, min(n, 2)))
    if not wellformed and rng.random() < 0.3 and meas_positions:
        meas_positions = meas_positions[:-1]
    rng_meas = list(meas_positions)
    if rng.random() < 0.3:
        rng.shuffle(rng_meas)
    for pos in rng_meas:
        kind = "MeasureHomodyne" if physical or rng.random() < 0.75 else rng.choice(["MeasureHeterodyne", "MeasureFock"])
        if meas_kind:
            kind = meas_kind
        params = []
        if kind == "MeasureHomodyne":
            params = [{"p": rng.randrange(narr)} if rng.random() < 0.5 else draw(rng, "a")]
        sel = None
        if allow_flags and OPS[kind][4] and rng.random() < 0.15:
            sel = round(rng.uniform(-1, 1), 3)
        cmds.append([kind, params, [pos], {"dag": False, "sel": sel}])
    if not wellformed and rng.random() < 0.5 and cmds:
        # a gate after the measurement touching a measured position
        name = rng.choice(["Sgate", "Rgate"])
        cmds.append([name, [draw(rng, k) for k in OPS[name][1]], [rng.randrange(n)], {"dag": False, "sel": None}])
    return {"N": N, "arrays": arrays, "shift": shift, "cmds": cmds}


def is_wellformed(spec):
    """The hypothesis of the property: each leading position is measured, by the last command touching it;
    nothing else is measured."""
    N, shift = spec["N"], spec["shift"]
    n = sum(N)
    if shift == "default":
        lead = starts_of(N)
    elif isinstance(shift, int) and 0 < shift:
        lead = list(range(min(shift, n)))
    else:
        return False
    last_use = {}
    measured = []
    for i, (name, params, regs, fl) in enumerate(spec["cmds"]):
        for r in regs:
            last_use[r] = i
        if OPS[name][2]:
            measured.append((i, regs[0]))
    if sorted(r for _, r in measured) != sorted(lead):
        return False
    return all(last_use[r] == i for i, r in measured)


def has_flags(spec):
    return any(c[3]["dag"] or c[3]["sel"] is not None for c in spec["cmds"])


def has_expr(spec):
    return any(isinstance(p, dict) and "expr" in p for c in spec["cmds"] for p in c[1])


def sym_param(pv, p):
    if isinstance(pv, dict):
        s = p[pv["p"]]
        if "expr" in pv:
            w = p[pv["p2"]] if "p2" in pv else 0
            return [2 * s, -s, s + 0.25, s ** 2, s + w, s * w - 0.125][pv["expr"]]
        return s
    return pv


def build_tdm(spec):
    N = spec["N"]
    prog = sf.TDMProgram(N=list(N) if len(N) > 1 else N[0])
    # the default is taken through the default argument (not passed explicitly), as users do
    ctx_kw = {} if spec["shift"] == "default" else {"shift": spec["shift"]}
    with prog.context(*[list(a) for a in spec["arrays"]], **ctx_kw) as (p, q):
        for name, params, regs, fl in spec["cmds"]:
            kw = {}
            if fl.get("sel") is not None:
                kw["select"] = fl["sel"]
            op = getattr(ops, name)(*[sym_param(x, p) for x in params], **kw)
            if fl.get("dag"):
                op = op.H
            op | tuple(q[r] for r in regs)
    return prog


def obs_circuit(circuit):
    out = []
    for c in circuit:
        ps = []
        for x in c.op.p:
            try:
                ps.append(float(x))
            except Exception:
                ps.append(str(x))
        sel = getattr(c.op, "select", None)
        if c.op.__class__.__name__ == "Fouriergate":
            ps = []
        out.append([c.op.__class__.__name__, ps, [r.ind for r in c.reg], bool(getattr(c.op, "dagger", False)),
                    None if sel is None else float(np.real(sel))])
    return out


# --------------------------------------------------------------------------------------------
# the specification: the loop written out by hand

def param_value(spec, pv, g):
    T = len(spec["arrays"][0])
    if isinstance(pv, dict):
        v = spec["arrays"][pv["p"]][g % T]
        if "expr" in pv:
            w = spec["arrays"][pv["p2"]][g % T] if "p2" in pv else 0.0
            return expr_value(pv["expr"], v, w)
        return v
    return pv


def band_of(N, r):
    for b, st in enumerate(starts_of(N)):
        if st <= r < st + N[b]:
            return b, r - st
    raise ValueError(r)


def hand_loop(spec, shots):
    """Explicit loop with a fresh mode for every pulse.  Returns (nmodes, cmds, meas_info) where cmds are
    [name, numeric params, fresh modes, dag, sel] and meas_info[i] = (band or leading position, global bin)
    for the i-th measurement in circuit order."""
    N, shift = spec["N"], spec["shift"]
    T = len(spec["arrays"][0])
    G = shots * T
    n = sum(N)
    if shift == "default":
        sizes = [N[b] + max(G - 1, 0) for b in range(len(N))]
        base = [sum(sizes[:b]) for b in range(len(N))]

        def fresh(r, g):
            b, o = band_of(N, r)
            return base[b] + g + o
        nmodes = sum(sizes)
    else:
        s = int(shift)

        def fresh(r, g):
            return r + s * g
        nmodes = n + s * max(G - 1, 0)
    cmds, meas = [], []
    for g in range(G):
        for name, params, regs, fl in spec["cmds"]:
            cmds.append([name, [param_value(spec, x, g) for x in params], [fresh(r, g) for r in regs], fl["dag"], fl["sel"]])
            if OPS[name][2]:
                meas.append((regs[0], g))
    return nmodes, cmds, meas


def build_plain(nmodes, cmds, strip_meas=False):
    prog = sf.Program(nmodes)
    with prog.context as q:
        for name, params, modes, dag, sel in cmds:
            if strip_meas and OPS[name][2]:
                continue
            kw = {}
            if sel is not None:
                kw["select"] = sel
            op = getattr(ops, name)(*params, **kw)
            if dag:
                op = op.H
            op | tuple(q[m] for m in modes)
    return prog


class Inject:
    """Patch np.random.multivariate_normal: record the law of every draw and return an injected outcome."""

    def __init__(self, values):
        self.values = list(values)
        self.records = []
        self.i = 0

    def __enter__(self):
        self.orig = np.random.multivariate_normal
        outer = self

        def fake(mean, cov, size=None, **kw):
            mean = np.array(mean, float)
            cov = np.array(cov, float)
            out = mean.copy()
            v = outer.values[outer.i % len(outer.values)]
            outer.i += 1
            if cov.shape == (2, 2) and cov[1, 1] > 1e6:      # homodyne: (x, p) with p unresolved
                out[0] = v
                outer.records.append(("hom", float(mean[0]), float(cov[0, 0]), v))
            else:
                out[0] = v
                outer.records.append(("dyne", [float(x) for x in mean], [float(x) for x in cov.ravel()], v))
            n = 1 if size is None else int(size)
            return np.tile(out, (n, 1))
        np.random.multivariate_normal = fake
        # post_select_homodyne draws the unresolved conjugate quadrature with np.random.normal: make it deterministic
        self.orig_normal = np.random.normal
        np.random.normal = lambda loc=0.0, scale=1.0, size=None: (loc if size is None else np.full(size, loc))
        # MeasureFock on the gaussian backend: hafnian_sample_state(cov, shots, mean=...) -> inject photon numbers
        import strawberryfields.backends.gaussianbackend.backend as _gb
        self._gb = _gb
        self.orig_haf = _gb.hafnian_sample_state

        def fake_haf(cov, shots=1, mean=None, **kw):
            cov = np.array(cov, float)
            v = fock_value(outer.values[outer.i % len(outer.values)])
            outer.i += 1
            outer.records.append(("fock", [] if mean is None else [float(x) for x in np.ravel(mean)], [float(x) for x in cov.ravel()], v))
            return np.full((1 if not shots else int(shots), cov.shape[0] // 2), v, dtype=int)
        _gb.hafnian_sample_state = fake_haf
        return self

    def __exit__(self, *a):
        np.random.multivariate_normal = self.orig
        np.random.normal = self.orig_normal
        self._gb.hafnian_sample_state = self.orig_haf


def fock_value(v):
    """Photon number injected for the real-valued injection v."""
    return int(abs(v) * 10) % 4


def run_plain(nmodes, cmds, inj, strip_meas=False):
    prog = build_plain(nmodes, cmds, strip_meas)
    eng = sf.Engine("gaussian")
    with Inject(inj) as I:
        res = eng.run(prog)
    return res, I.records


def rec_close(a, b, tol=1e-6):
    if len(a) != len(b):
        return False
    for x, y in zip(a, b):
        if x[0] != y[0]:
            return False
        if x[0] == "hom":
            if abs(x[1] - y[1]) > tol * max(1, abs(x[1])) or abs(x[2] - y[2]) > tol * max(1, abs(x[2])):
                return False
        elif len(x[1]) != len(y[1]) or len(x[2]) != len(y[2]):
            return False
        else:
            if not (np.allclose(x[1], y[1], atol=tol) and np.allclose(x[2], y[2], atol=tol)):
                return False
    return True


def inj_values(rng, k=24):
    return [round(rng.uniform(-1.2, 1.2), 4) for _ in range(k)]


# --------------------------------------------------------------------------------------------
# encoders for Coq

class Consts:
    def __init__(self):
        self.t = {}
        self.vals = []

    def id(self, v):
        k = repr(float(v))
        if k not in self.t:
            self.t[k] = len(self.vals)
            self.vals.append(float(v))
        return self.t[k]


def enc_param(pv, consts):
    if isinstance(pv, dict):
        if "expr" in pv:
            return "PExpr %d %d" % (pv["expr"], pv["p"] + 16 * pv.get("p2", 0))     # two loop variables packed into one id
        return "PSym %d" % pv["p"]
    return "PNum %d" % consts.id(pv)


def enc_cmd(c, consts):
    name, params, regs, fl = c
    # Fouriergate: op.p == [pi/2] although the constructor takes no argument
    extra = ["(PNum %d)" % consts.id(math.pi / 2)] if name == "Fouriergate" else []
    return "mkR %d %s %s %s %s %s %s" % (
        NAMES.index(name), coq.coq_list(["(%s)" % enc_param(x, consts) for x in params] + extra), coq.coq_list(regs),
        coq.coq_bool(OPS[name][2]), coq.coq_bool(fl["dag"]), coq.coq_bool(fl["sel"] is not None),
        coq.coq_bool(name != "Fouriergate"))


def enc_cmds(spec, consts):
    return coq.coq_list(["(%s)" % enc_cmd(c, consts) for c in spec["cmds"]])


def enc_shift(shift):
    if shift == "default":
        return "ShDefault"
    return "(ShInt %s)" % coq.coq_Z(int(shift))


def enc_call(c):
    if c[0] == "unroll":
        return "(Unroll %d)" % c[1]
    if c[0] == "space_unroll":
        return "(SpaceUnroll %d)" % c[1]
    return {"roll": "Roll", "lock": "Lock"}[c[0]]


def dec_ucmds(vals, spec, consts):
    """model observation -> [name, numeric params, modes, dag, sel-flag]"""
    out = []
    for op, ps, modes, dag, sel in vals:
        pp = []
        for tag, v, k, t in ps:
            if tag == 0:
                pp.append(consts.vals[v])
            elif tag == 1:
                pp.append(float(spec["arrays"][k][t]))
            else:
                pp.append(float(expr_value(v, spec["arrays"][k % 16][t], spec["arrays"][k // 16][t])))
        if NAMES[op] == "Fouriergate":
            pp = []
        out.append([NAMES[op], pp, list(modes), bool(dag), bool(sel)])
    return out


def canon_impl(circ):
    return [[n, [float(x) if not isinstance(x, str) else x for x in ps], m, d, s is not None] for n, ps, m, d, s in circ]


HEADER = ("From Coq Require Import List ZArith Bool Arith.\nImport ListNotations.\n"
          "From SFV Require Import C13.Model C13.Obs.\nOpen Scope nat_scope.\n")


# --------------------------------------------------------------------------------------------
# implementation drivers

def impl_unroll(spec, space, shots):
    """-> ('ok', circuit obs) | ('err', kind)"""
    prog = build_tdm(spec)
    try:
        if space:
            prog.space_unroll(shots)
        else:
            prog.unroll(shots)
    except Exception as e:
        return ("err", type(e).__name__, e), prog
    return ("ok", obs_circuit(prog.circuit)), prog


def obs_prog_state(prog, rolled_ids):
    if len(prog.circuit) == len(rolled_ids) and all(id(a) == b for a, b in zip(prog.circuit, rolled_ids)):
        circ = "rolled"
    else:
        circ = canon_impl(obs_circuit(prog.circuit))
    return {
        "circ": circ,
        "regs": [bool(r.active) for _, r in sorted(prog.reg_refs.items())],
        "init": int(prog.init_num_subsystems),
        "locked": bool(prog.locked),
        "unrolled": prog.unrolled_circuit is not None,
        "space": prog.space_unrolled_circuit is not None,
        "shots": prog._unrolled_shots,
        "added": int(prog._num_added_subsystems),
    }


def impl_history(spec, hist):
    prog = build_tdm(spec)
    rolled_ids = [id(c) for c in prog.circuit]
    trace = []
    for c in hist:
        out = 0
        try:
            if c[0] == "unroll":
                prog.unroll(c[1])
            elif c[0] == "space_unroll":
                prog.space_unroll(c[1])
            elif c[0] == "roll":
                prog.roll()
            else:
                prog.lock()
        except ValueError:
            out = 1
        trace.append((out, obs_prog_state(prog, rolled_ids)))
    return trace, prog


def dec_state(v, spec, consts):
    rolled, circ, regs, init, locked, (unr, spc, (has_shots, shots), added) = v
    return {
        "circ": "rolled" if rolled else dec_ucmds(circ, spec, consts),
        "regs": [bool(x) for x in regs], "init": int(init), "locked": bool(locked), "unrolled": bool(unr), "space": bool(spc),
        "shots": int(shots) if has_shots else None, "added": int(added),
    }


def gen_history(rng, maxlen=5, with_run=False):
    h = []
    for _ in range(rng.randint(1, maxlen)):
        u = rng.random()
        if with_run and u < 0.2:
            h.append(["run", rng.choice([1, 1, 2]), rng.random() < 0.3])
        elif u < 0.3:
            h.append(["unroll", rng.choice([1, 1, 2, 3])])
        elif u < 0.6:
            h.append(["space_unroll", rng.choice([1, 1, 2])])
        elif u < 0.85:
            h.append(["roll"])
        else:
            h.append(["lock"])
    return h


# --------------------------------------------------------------------------------------------
# correspondence

def correspondence(ctx):
    corr_unroll(ctx)
    corr_history(ctx)
    corr_options(ctx)
    corr_reshape(ctx)
    corr_delays(ctx)
    corr_vacpad(ctx)


def corr_unroll(ctx):
    rng = ctx.rng
    n_cases = ctx.budget(150, 1500)
    cases = []
    for i in range(n_cases):
        wf = rng.random() < 0.7
        spec = gen_spec(rng, wellformed=wf, single_band=rng.random() < 0.3, max_N=7 if rng.random() < 0.2 else 4)
        space = rng.random() < 0.35
        shots = rng.choice([1, 1, 2, 3, 0])
        cases.append((spec, space, shots))
    impl = []
    for spec, space, shots in cases:
        r, _ = impl_unroll(spec, space, shots)
        impl.append(r)
        T = len(spec["arrays"][0])
        ctx.case({"kind": "unroll", "spec": spec, "space": space, "shots": shots},
                 nontrivial=T >= 2 and (shots >= 2 or len(spec["N"]) >= 2 or spec["shift"] != "default"),
                 bucket="unroll:%s:%s" % ("space" if space else "shift", "default" if spec["shift"] == "default" else "int"))
    model = []
    SH = 150
    for si in range(0, len(cases), SH):
        lines = [HEADER]
        constss = []
        for j, (spec, space, shots) in enumerate(cases[si:si + SH]):
            consts = Consts()
            constss.append(consts)
            N = spec["N"]
            T = len(spec["arrays"][0])
            n = sum(N)
            nreg = n + (max(T - 1, 0) if space else 0)
            lines.append("Eval vm_compute in obs_unroll %s %s %s %d %s %d (seq 0 %d)." % (
                coq.coq_list(N), enc_shift(spec["shift"]), coq.coq_bool(space), T, enc_cmds(spec, consts), shots, nreg))
        ok, vals, raw = ctx.coq_eval("cases_unroll_%d" % (si // SH), "\n".join(lines))
        if not ok or len(vals) != len(constss):
            ctx.obligation("correspondence:unroll:shard%d" % (si // SH), False, raw)
            return
        for (spec, space, shots), consts, v in zip(cases[si:si + SH], constss, vals):
            okm, circ = v
            model.append(("ok", dec_ucmds(circ, spec, consts)) if okm else ("err", "raises"))
    ctx.traces += len(cases)
    for (spec, space, shots), ri, rm in zip(cases, impl, model):
        a = (ri[0], canon_impl(ri[1]) if ri[0] == "ok" else "raises")
        if a != rm:
            data = {"check": "unroll", "spec": spec, "space": space, "shots": shots}
            if not judge_unroll(ctx, spec, space, shots, data):
                ctx.disagreement("corr:unroll:%s" % ("space" if space else "shift"),
                                 "model and implementation unroll differently: impl %s model %s" % (str(a)[:300], str(rm)[:300]), data)


def corr_history(ctx):
    rng = ctx.rng
    n_cases = ctx.budget(120, 1200)
    cases = []
    for _ in range(n_cases):
        spec = gen_spec(rng, allow_expr=False, max_T=4, max_N=3, single_band=rng.random() < 0.6, names=HIST_NAMES)
        hist = gen_history(rng, 6)
        cases.append((spec, hist))
    if not ctx.quick:
        # exhaustive small scope: all histories up to length 4 over a fixed alphabet on two programs
        alphabet = [["unroll", 1], ["unroll", 2], ["space_unroll", 1], ["space_unroll", 2], ["roll"], ["lock"]]
        base = [gen_spec(rng, allow_expr=False, max_T=3, max_N=2, single_band=True, names=HIST_NAMES) for _ in range(2)]
        import itertools
        for L in range(1, 5):
            for h in itertools.product(alphabet, repeat=L):
                cases.append((base[len(cases) % 2], [list(x) for x in h]))
    impl = []
    for spec, hist in cases:
        tr, _ = impl_history(spec, hist)
        impl.append(tr)
        T = len(spec["arrays"][0])
        kinds = [c[0] for c in hist]
        alt = any(a in ("unroll", "space_unroll") and b == "roll" for a, b in zip(kinds, kinds[1:]))
        ctx.case({"kind": "history", "spec": spec, "hist": hist}, nontrivial=T >= 2 and alt, bucket="history:len%d" % len(hist))
    SH = 100
    idx = 0
    for si in range(0, len(cases), SH):
        lines = [HEADER]
        constss = []
        for spec, hist in cases[si:si + SH]:
            consts = Consts()
            constss.append(consts)
            N = spec["N"]
            T = len(spec["arrays"][0])
            lines.append("Eval vm_compute in trace %s %s %d %s (init_state %s) %s." % (
                coq.coq_list(N), enc_shift(spec["shift"]), T, enc_cmds(spec, consts), coq.coq_list(N),
                coq.coq_list([enc_call(c) for c in hist])))
        ok, vals, raw = ctx.coq_eval("cases_hist_%d" % (si // SH), "\n".join(lines))
        if not ok or len(vals) != len(constss):
            ctx.obligation("correspondence:history:shard%d" % (si // SH), False, raw)
            return
        for (spec, hist), consts, v, tr in zip(cases[si:si + SH], constss, vals, impl[si:si + SH]):
            mt = [(int(o), dec_state(s, spec, consts)) for o, s in v]
            it = [(o, s) for o, s in tr]
            if mt != it:
                k = next(i for i in range(len(hist)) if i >= len(mt) or mt[i] != it[i])
                data = {"check": "history", "spec": spec, "hist": hist[:k + 1]}
                if not judge_history(ctx, spec, hist[:k + 1], data):
                    diff = {key: (it[k][1][key], mt[k][1][key]) for key in it[k][1] if it[k][1][key] != mt[k][1][key]}
                    ctx.disagreement("corr:history:%s" % hist[k][0],
                                     "state after call %d differs (impl, model): %s" % (k, str(diff)[:400]), data)
    ctx.traces += len(cases)


def corr_options(ctx):
    """BaseEngine.get_tdm_options after a call history, for every combination of run options."""
    from strawberryfields.engine import BaseEngine
    rng = ctx.rng
    n_cases = ctx.budget(150, 1500)
    cases = []
    for _ in range(n_cases):
        spec = gen_spec(rng, allow_expr=False, max_T=4, max_N=3, single_band=True, names=HIST_NAMES, shift_kinds=("default",))
        hist = gen_history(rng, 4) if rng.random() < 0.85 else []
        kw = {"space_unroll": rng.random() < 0.5, "crop": rng.random() < 0.4}
        # shots may come from the kwargs, from program.run_options, from both (kwargs win) or from neither (default 1)
        src = rng.choice(["kw", "kw", "ro", "both", "none"])
        if src in ("kw", "both"):
            kw["shots"] = rng.choice([None, 1, 1, 2, 3])
        ro = {"shots": rng.choice([None, 1, 2, 3])} if src in ("ro", "both") else {}
        kw["_ro"] = ro
        cases.append((spec, hist, kw))
    impl = []
    for spec, hist, kw in cases:
        prog = build_tdm(spec)
        rolled_ids = [id(c) for c in prog.circuit]
        for c in hist:
            try:
                getattr(prog, c[0])(*c[1:])
            except ValueError:
                pass
        try:
            cropv = int(prog.get_crop_value())
        except NotImplementedError:      # nested loops: crop has no value for this program
            cropv = 0
            kw["crop"] = False
        import warnings as _w
        prog.run_options = dict(kw["_ro"])
        with _w.catch_warnings():
            _w.simplefilter("ignore")
            opts = BaseEngine.get_tdm_options(prog, **{k: v for k, v in kw.items() if k != "_ro"})
        m = opts["modes"]
        impl.append((obs_prog_state(prog, rolled_ids), None if m is None else (m.start, m.stop), opts["shots"] is not None, bool(opts["received_rolled"]), cropv))
        pre = [c[0] for c in hist]
        ctx.case({"kind": "options", "spec": spec, "hist": hist, "kw": kw}, nontrivial=len(spec["arrays"][0]) >= 2 and any(x in pre for x in ("unroll", "space_unroll")),
                 bucket="options:%s:%s" % ("space" if kw["space_unroll"] else "shift", ("kw" if "shots" in kw else "") + ("ro" if kw["_ro"] else "") or "default"))
    SH = 150
    for si in range(0, len(cases), SH):
        lines = [HEADER]
        constss = []
        for (spec, hist, kw), im in zip(cases[si:si + SH], impl[si:si + SH]):
            consts = Consts()
            constss.append(consts)
            T = len(spec["arrays"][0])
            lines.append("Eval vm_compute in obs_options %s %s %d %s %s %s %s %s %s %d." % (
                coq.coq_list(spec["N"]), enc_shift(spec["shift"]), T, enc_cmds(spec, consts), coq.coq_list([enc_call(c) for c in hist]),
                coq.coq_bool(kw["space_unroll"]), _optopt(kw, "shots"), _optopt(kw["_ro"], "shots"), coq.coq_bool(kw["crop"]), im[4]))
        ok, vals, raw = ctx.coq_eval("cases_options_%d" % (si // SH), "\n".join(lines))
        if not ok or len(vals) != len(constss):
            ctx.obligation("correspondence:options:shard%d" % (si // SH), False, raw)
            return
        for (spec, hist, kw), consts, v, im in zip(cases[si:si + SH], constss, vals, impl[si:si + SH]):
            stv, (has_m, (lo, hi), truthy, rr) = tuple(v[:6]), v[6]     # Coq prints left-nested tuples flattened
            mm = (dec_state(stv, spec, consts), (int(lo), int(hi)) if has_m else None, bool(truthy), bool(rr))
            ii = (im[0], im[1], im[2], im[3])
            if not _state_close(mm[0], ii[0]) or mm[1:] != ii[1:]:
                kwe = {k: v for k, v in kw.items() if k != "_ro"}
                data = {"check": "runmatrix", "spec": spec, "prior": hist, "kw": kwe, "ro": kw["_ro"], "inj": [0.3, -0.5, 0.8, 0.1, -0.9, 0.4, 0.7, -0.2]}
                c2 = _Collector()
                if run_data(c2, data):
                    for sig, what, d in c2.items:
                        ctx.counterexample(sig, what, d)
                else:
                    diff = {k: (ii[0][k], mm[0][k]) for k in ii[0] if k != "circ" and ii[0][k] != mm[0][k]}
                    ctx.disagreement("corr:options:%s" % ("space" if kw["space_unroll"] else "shift"),
                                     "get_tdm_options differs (impl, model): modes %s vs %s, shots-flag %s vs %s, received_rolled %s vs %s, state %s" % (
                                         ii[1], mm[1], ii[2], mm[2], ii[3], mm[3], str(diff)[:300]), data)
    ctx.traces += len(cases)


def _optopt(d, key):
    """Python dict entry -> Coq option (option nat): absent key / value None / value k."""
    if key not in d:
        return "None"
    return "(Some None)" if d[key] is None else "(Some (Some %d))" % d[key]


def _state_close(a, b):
    for k in a:
        if k == "circ":
            if (a[k] == "rolled") != (b[k] == "rolled"):
                return False
            if a[k] != "rolled" and not circuits_close(a[k], b[k]):
                return False
        elif a[k] != b[k]:
            return False
    return True


def corr_reshape(ctx):
    """_get_mode_order / reshape_samples on abstract samples (integers)."""
    rng = ctx.rng
    n_cases = ctx.budget(150, 1500)
    cases = []
    for _ in range(n_cases):
        nb = rng.choice([1, 1, 2, 3])
        N = [rng.randint(1, 7 if rng.random() < 0.3 else 4) for _ in range(nb)]
        T = rng.randint(1, 6)
        shots = rng.randint(1, 3)
        st = starts_of(N)
        malformed = rng.random() < 0.2
        if malformed:
            modes = [st[b] + rng.randrange(N[b]) for b in range(nb)]
            if rng.random() < 0.3:
                modes = modes[:-1]
        else:
            modes = list(st)
        # raw samples as an unrolled default-shift run would produce them
        sd = {}
        ctr = 0
        for g in range(shots * T):
            for b in range(nb):
                if b < len(modes):
                    m = st[b] + (modes[b] - st[b] + g) % N[b]
                    sd.setdefault(m, []).append(ctr)
                    ctr += 1
        if malformed and rng.random() < 0.4 and sd:
            k = rng.choice(sorted(sd))
            sd[k] = sd[k][:-1] or [0]
        cases.append((N, T, modes, sd))
    lines = [HEADER]
    impl = []
    for N, T, modes, sd in cases:
        try:
            r = tdmprog.reshape_samples({k: [np.array([x]) for x in v] for k, v in sd.items()}, modes, N, T)
            # before the transpose: [timebin][shot]; compare as dict key -> nested lists (shots, timebins)
            ri = ("ok", [[k, np.array(v).tolist()] for k, v in r.items()])
        except Exception as e:
            ri = ("err", type(e).__name__)
        impl.append(ri)
        ctx.case({"kind": "reshape", "N": N, "T": T, "modes": modes, "n": sum(len(v) for v in sd.values())},
                 nontrivial=len(N) >= 2 and T >= 2, bucket="reshape:%dband" % len(N))
        sdl = coq.coq_list(["(%d, %s)" % (k, coq.coq_list(v)) for k, v in sd.items()])
        lines.append("Eval vm_compute in match reshape_samples %s %s %s %d with Some r => (true, r) | None => (false, []) end." % (
            sdl, coq.coq_list(modes), coq.coq_list(N), T))
    ok, vals, raw = ctx.coq_eval("cases_reshape", "\n".join(lines))
    if not ok or len(vals) != len(cases):
        ctx.obligation("correspondence:reshape", False, raw)
        return
    ctx.traces += len(cases)
    for (N, T, modes, sd), ri, v in zip(cases, impl, vals):
        okm, rows = v
        if okm:
            # model gives key -> [timebin][shot]; implementation returns the transpose; ragged rows make numpy raise/produce objects
            try:
                rm = ("ok", [[k, np.array(r).T.tolist()] for k, r in rows])
                for k, r in rows:
                    if len(set(len(x) for x in r)) > 1:
                        rm = ("ragged", None)
            except Exception:
                rm = ("ragged", None)
        else:
            rm = ("err", None)
        same = (ri[0] == "ok" and rm[0] == "ok" and ri[1] == rm[1]) or (ri[0] == "err" and rm[0] in ("err", "ragged")) \
            or (rm[0] == "ragged" and ri[0] == "ok")
        if not same:
            ctx.disagreement("corr:reshape", "reshape_samples differs: impl %s model %s" % (str(ri)[:300], str(rm)[:300]),
                             {"check": "reshape", "N": N, "T": T, "modes": modes, "sd": {str(k): v for k, v in sd.items()}})


def gen_loop_spec(rng, meas="MeasureFock", max_T=7, odd=0.0):
    """Single-band program with 0-3 delay loops in the Borealis layout (loop i couples positions differing by delay i)."""
    nloops = rng.randint(0, 3)
    delays = [rng.randint(1, 4) for _ in range(nloops)]
    Nn = sum(delays) + 1
    T = rng.randint(1, max_T)
    pos = [Nn - 1 - sum(delays[:i]) for i in range(nloops + 1)]
    arrays = [[rng.choice([0, 0, 0.5, 1.1]) for _ in range(T)] for _ in range(max(nloops, 1))]
    if rng.random() < 0.6:
        # vacuum-padded shape: a block of zeros followed by non-zero values
        arrays = [[0] * z + [rng.choice([0.5, 1.1, 0.8]) for _ in range(T - z)] for z in [rng.randint(0, T) if rng.random() < 0.7 else 0 for _ in arrays]]
    if rng.random() < 0.3 and arrays:
        arrays[0] = [0] * T
    cmds = [["Sgate", [0.3, 0.0], [Nn - 1], {"dag": False, "sel": None}]]
    for i in range(nloops):
        a, b = pos[i + 1], pos[i]
        if rng.random() < 0.3:
            a, b = b, a
        second = {"p": i} if rng.random() < 0.2 else 0.0
        first = {"p": i} if rng.random() < 0.8 else 0.4
        cmds.append(["BSgate", [first, second], [a, b], {"dag": False, "sel": None}])
    N = [Nn]
    if rng.random() < odd and Nn >= 2:
        # an extra beamsplitter whose range may overlap all the others ("nested loops" guard), operands in either order
        a, b = rng.sample(range(Nn), 2)
        cmds.append(["BSgate", [0.4, 0.0], [a, b], {"dag": False, "sel": None}])
    if meas:
        cmds.append([meas, [0.0] if meas == "MeasureHomodyne" else [], [0], {"dag": False, "sel": None}])
    if rng.random() < odd / 2:
        # a second spatial mode (guard: delays / crop are not implemented for more than one)
        N = [Nn, rng.randint(1, 2)]
        cmds.append([meas or "MeasureFock", [0.0] if meas == "MeasureHomodyne" else [], [Nn], {"dag": False, "sel": None}])
    return {"N": N, "arrays": arrays, "shift": "default", "cmds": cmds}, nloops


def corr_delays(ctx):
    rng = ctx.rng
    n_cases = ctx.budget(100, 800)
    lines = [HEADER]
    cases, impl = [], []
    for _ in range(n_cases):
        spec, nloops = gen_loop_spec(rng, odd=0.35)
        arrays, cmds = spec["arrays"], spec["cmds"]
        prog = build_tdm(spec)
        try:
            dl = [int(x) for x in prog.get_delays()]
        except NotImplementedError:
            dl = None
        try:
            cv = int(prog.get_crop_value())
        except NotImplementedError:
            cv = None
        ri = (dl, cv)
        bs = [(c[2][0], c[2][1]) for c in cmds if c[0] == "BSgate"]
        arrs = []
        for c in cmds:
            if c[0] == "BSgate":
                for x in c[1]:
                    if isinstance(x, dict):
                        arrs.append([v != 0 for v in arrays[x["p"]]])
                        break
        cases.append((spec, bs, arrs))
        impl.append(ri)
        ctx.case({"kind": "delays", "spec": spec}, nontrivial=nloops >= 2, bucket="delays:%d%s" % (nloops, "" if dl is not None else ":guard"))
        lines.append("Eval vm_compute in obs_delays %d %s %s." % (
            len(spec["N"]), coq.coq_list(["(%d, %d)" % ab for ab in bs]), coq.coq_list([coq.coq_list(a, coq.coq_bool) for a in arrs])))
    ok, vals, raw = ctx.coq_eval("cases_delays", "\n".join(lines))
    if not ok or len(vals) != len(cases):
        ctx.obligation("correspondence:delays", False, raw)
        return
    ctx.traces += len(cases)
    for (spec, bs, arrs), ri, v in zip(cases, impl, vals):
        okm, dm, cm = v
        rm = (list(dm), int(cm)) if okm else (None, None)
        if rm != ri:
            data = {"check": "crop", "spec": spec, "inj": [0.3, -0.5, 0.8, 0.1, -0.9, 0.4, 0.7, -0.2], "space": False}
            c2 = _Collector()
            if ri[1] is not None and len(spec["N"]) == 1 and run_data(c2, data):
                for sig, what, d in c2.items:
                    ctx.counterexample(sig, what, d)
            else:
                ctx.disagreement("corr:delays", "get_delays/get_crop_value (delays, crop; None = NotImplementedError) differ: impl %s model %s" % (ri, rm), {"check": "delays", "spec": spec})


# --------------------------------------------------------------------------------------------
# tdm/utils.py: vacuum_padding

def gen_gate_args(rng, padded_shape=False):
    nloops = rng.randint(1, 3)
    delays = [rng.randint(1, 5) for _ in range(nloops)]
    L = rng.randint(1, 6) if not padded_shape else rng.randint(3, 12)
    def bs_list():
        u = rng.random()
        if u < 0.15:
            return [0] * L
        z = rng.randint(0, L) if rng.random() < 0.6 else 0
        tail = [rng.choice([0.5, 1.1, 0.8, 0.3]) for _ in range(L - z)]
        if not padded_shape and rng.random() < 0.3 and tail:
            tail[rng.randrange(len(tail))] = 0
        return [0] * z + tail
    order = list(range(nloops))
    if rng.random() < 0.4:
        rng.shuffle(order)          # dict insertion order need not be the loop order
    loops = {i: {"Rgate": [round(rng.uniform(-3, 3), 3) if rng.random() < 0.8 else 0 for _ in range(L)], "BSgate": bs_list()} for i in order}
    sg = [rng.choice([0.3, 0.5, -0.4, 0.25]) for _ in range(L)]
    if not padded_shape and rng.random() < 0.1:
        sg = 0.4        # a single number: documented to be left alone
    return {"Sgate": sg, "loops": loops}, delays


def padded_program_spec(ga, delays):
    """The Borealis-layout TDM program driven by (padded) gate arguments."""
    nl = len(delays)
    Nn = sum(delays) + 1
    pos = [Nn - 1 - sum(delays[:i]) for i in range(nl + 1)]
    F = {"dag": False, "sel": None}
    arrays = [list(ga["Sgate"])]
    cmds = [["Sgate", [{"p": 0}, 0.0], [pos[0]], F]]
    for i in range(nl):
        arrays += [list(ga["loops"][i]["Rgate"]), list(ga["loops"][i]["BSgate"])]
        cmds.append(["Rgate", [{"p": 2 * i + 1}], [pos[i]], F])
        cmds.append(["BSgate", [{"p": 2 * i + 2}, math.pi / 2], [pos[i + 1], pos[i]], F])
    cmds.append(["MeasureHomodyne", [0.0], [0], F])
    return {"N": [Nn], "arrays": arrays, "shift": "default", "cmds": cmds}


def vacpad_check(ga, delays):
    """Predicates on tdm.utils.vacuum_padding: input untouched; every list grows by exactly `crop` zeros (all lists keep one
    common length); the program driven by the padded arguments has get_crop_value() == crop; and, for arguments of the
    open-then-coupled shape, `crop` is the time bin in which the first light reaches the detector."""
    from strawberryfields.tdm import utils as tdmutils
    found = []
    before = copy.deepcopy(ga)
    try:
        out = tdmutils.vacuum_padding(ga, delays=list(delays))
    except Exception as e:
        return [("vacuum_padding:raises:" + type(e).__name__, "vacuum_padding raised %r" % e)]
    if ga != before:
        found.append(("vacuum_padding:input-mutated", "vacuum_padding changed its input dictionary"))
    crop = out.get("crop")
    if not isinstance(ga["Sgate"], list):
        return found
    L = len(ga["Sgate"])
    lens = {"Sgate": len(out["Sgate"])}
    for i in ga["loops"]:
        for g in ("Rgate", "BSgate"):
            lens["%s%d" % (g, i)] = len(out["loops"][i][g])
    if any(v != L + crop for v in lens.values()):
        found.append(("vacuum_padding:lengths", "padded lists do not all have length %d + crop %s: %s" % (L, crop, lens)))
        return found
    # the original values must survive as one contiguous block, surrounded by zeros only
    def block_ok(o, new):
        for st in range(len(new) - len(o) + 1):
            if list(new[st:st + len(o)]) == list(o) and all(v == 0 for v in list(new[:st]) + list(new[st + len(o):])):
                return True
        return False
    for name, o, new in [("Sgate", ga["Sgate"], out["Sgate"])] + [("%s%d" % (g, i), ga["loops"][i][g], out["loops"][i][g]) for i in ga["loops"] for g in ("Rgate", "BSgate")]:
        if not block_ok(o, new):
            found.append(("vacuum_padding:values", "%s is not its original surrounded by zeros: %s -> %s" % (name, o, new)))
            return found
    # the Rgate and BSgate lists of one loop must be shifted by the same amount (they act on the same pulses);
    # compared through the position of the original block whenever it is unambiguous
    spec = padded_program_spec(out, delays)
    try:
        c2 = int(build_tdm(spec).get_crop_value())
    except Exception as e:
        return found + [("vacuum_padding:program-raises:" + type(e).__name__, "get_crop_value of the padded program raised %r" % e)]
    if c2 != crop:
        found.append(("vacuum_padding:crop-vs-get_crop_value", "vacuum_padding says crop=%s, the program built from its output says %s" % (crop, c2)))
        return found
    def prefix_zero(a):
        z = next((i for i, v in enumerate(a) if v != 0), len(a))
        return all(v != 0 for v in a[z:])
    zs = [next((k for k, v in enumerate(ga["loops"][i]["BSgate"]) if v != 0), 0) for i in ga["loops"]]
    # (lists long enough that every loop is still fed when the next one starts coupling)
    if (all(prefix_zero(ga["loops"][i]["BSgate"]) for i in ga["loops"]) and all(v != 0 for v in ga["Sgate"])
            and crop + max(zs + [0]) <= L - 1):
        fl = first_light(spec)
        T = L + crop
        if fl != min(crop, T):
            found.append(("vacuum_padding:first-light", "crop=%s but with the padded arguments the first light reaches the detector in time bin %d" % (crop, fl)))
            return found
        # and the padding must not delay the gates of a loop beyond the arrival of the first pulse: with the padded
        # arguments the k-th pulse meets the k-th original Rgate/BSgate value of every loop -- checked physically by
        # comparing with the unpadded arguments applied by hand to the pulses as they arrive
        ref = reference_padding(ga, delays)
        if ref is not None:
            for i in ga["loops"]:
                for g in ("Rgate", "BSgate"):
                    if list(out["loops"][i][g]) != ref["loops"][i][g]:
                        found.append(("vacuum_padding:alignment:%s" % g, "loop %d %s list is padded to %s, expected %s (prologue = arrival time of the first pulse at that loop)" % (
                            i, g, out["loops"][i][g], ref["loops"][i][g])))
                        return found
            if list(out["Sgate"]) != ref["Sgate"]:
                found.append(("vacuum_padding:alignment:Sgate", "Sgate list padded to %s, expected %s" % (out["Sgate"], ref["Sgate"])))
    return found


def reference_padding(ga, delays):
    """Independent computation of the padding from the stated purpose: loop i starts acting when the first pulse arrives
    there; a loop that is open for z bins (z leading zeros) delays the first light by min(z, delay), a loop that stays
    open delays it by its full delay.  Only for arguments of the open-then-coupled shape."""
    arr, pro = 0, []
    for i in sorted(ga["loops"]):
        a = ga["loops"][i]["BSgate"]
        pro.append(arr)
        z = next((k for k, v in enumerate(a) if v != 0), None)
        arr += delays[i] if z is None else min(z, delays[i])
    pad = lambda l, p: [0] * p + list(l) + [0] * (arr - p)
    return {"Sgate": pad(ga["Sgate"], 0), "crop": arr,
            "loops": {i: {"Rgate": pad(ga["loops"][i]["Rgate"], pro[i]), "BSgate": pad(ga["loops"][i]["BSgate"], pro[i])} for i in sorted(ga["loops"])}}


def corr_vacpad(ctx):
    """Model coq/C13/Model.v vacuum_padding vs tdm.utils.vacuum_padding, exact."""
    from strawberryfields.tdm import utils as tdmutils
    rng = ctx.rng
    n_cases = ctx.budget(120, 1000)
    lines = [HEADER, "Open Scope Z_scope."]
    cases, impl, tables = [], [], []
    for _ in range(n_cases):
        ga, delays = gen_gate_args(rng)
        if not isinstance(ga["Sgate"], list):
            ga["Sgate"] = [0.3] * len(ga["loops"][0]["BSgate"])
        tab = {}
        cid = lambda v: 0 if v == 0 else tab.setdefault(repr(float(v)), len(tab) + 1)
        out = tdmutils.vacuum_padding(copy.deepcopy(ga), delays=list(delays))
        enc = lambda l: coq.coq_list([cid(v) for v in l], coq.coq_Z)
        lines.append("Eval vm_compute in vacuum_padding %s %s %s." % (
            enc(ga["Sgate"]), coq.coq_list(["(%s, %s)" % (enc(ga["loops"][i]["Rgate"]), enc(ga["loops"][i]["BSgate"])) for i in sorted(ga["loops"])]),
            coq.coq_list(["%d%%nat" % d for d in delays])))
        impl.append(([cid(v) for v in out["Sgate"]], [([cid(v) for v in out["loops"][i]["Rgate"]], [cid(v) for v in out["loops"][i]["BSgate"]]) for i in sorted(out["loops"])], int(out["crop"])))
        cases.append((ga, delays))
        ctx.case({"kind": "vacpad", "gate_args": {"Sgate": ga["Sgate"], "loops": {str(i): v for i, v in ga["loops"].items()}}, "delays": delays},
                 nontrivial=len(delays) >= 2, bucket="vacpad:%dloops" % len(delays))
    ok, vals, raw = ctx.coq_eval("cases_vacpad", "\n".join(lines))
    if not ok or len(vals) != len(cases):
        ctx.obligation("correspondence:vacuum_padding", False, raw)
        return
    ctx.traces += len(cases)
    for (ga, delays), im, v in zip(cases, impl, vals):
        sgm, loopsm, totm = v
        mm = ([int(x) for x in sgm], [([int(x) for x in a], [int(x) for x in b]) for a, b in loopsm], int(totm))
        if mm != im:
            data = {"check": "vacpad", "gate_args": {"Sgate": ga["Sgate"], "loops": {str(i): v for i, v in ga["loops"].items()}}, "delays": delays}
            f = vacpad_check(copy.deepcopy(ga), delays)
            if f:
                for sig, what in f:
                    ctx.counterexample(sig, what, data)
            else:
                ctx.disagreement("corr:vacuum_padding", "vacuum_padding differs (value ids): impl %s model %s" % (str(im)[:300], str(mm)[:300]), data)


def search_vacpad(ctx):
    rng = ctx.rng
    for _ in range(ctx.budget(60, 600)):
        ga, delays = gen_gate_args(rng, padded_shape=rng.random() < 0.7)
        data = {"check": "vacpad", "gate_args": {"Sgate": ga["Sgate"], "loops": {str(i): v for i, v in ga["loops"].items()}}, "delays": delays}
        ctx.case({"kind": "vacpad-search", **data}, nontrivial=len(delays) >= 2, bucket="search:vacpad")
        for sig, what in vacpad_check(ga, delays):
            ctx.counterexample(sig, what, data)


def first_light(spec, shots=1):
    """Index of the first time bin whose measured pulse is not vacuum in the explicit fresh-mode loop (number of bins if none):
    the physical meaning of the crop value.  Needs a single measured position, homodyne."""
    nm, loop, meas = hand_loop(spec, shots)
    _, rec = run_plain(nm, loop, [0.0])
    for i, r in enumerate(rec):
        if abs(r[1]) > 1e-9 or abs(r[2] - 1.0) > 1e-6:
            return i
    return len(rec)


def crop_check(ctx, spec, inj, space):
    """Engine-side crop handling: crop=True removes exactly the first get_crop_value() time bins from the samples
    (register-shifting run) / keeps exactly modes crop..T-1 of the state (space-unrolled, measurement-free run)."""
    found = []
    T = len(spec["arrays"][0])
    try:
        c = int(build_tdm(spec).get_crop_value())
    except NotImplementedError:
        return found
    # physical meaning of the crop value: the number of vacuum pulses reaching the detector before the first light
    # (meaningful for gate arguments of the vacuum-padded shape: each beamsplitter array is zeros followed by non-zeros)
    def _prefix_zero(a):
        z = next((i for i, v in enumerate(a) if v != 0), len(a))
        return all(v != 0 for v in a[z:])
    bsc = [x for x in spec["cmds"] if x[0] == "BSgate"]
    if (len(spec["N"]) == 1 and all(x[0] in ("Sgate", "BSgate", "Rgate", "MeasureHomodyne") for x in spec["cmds"])
            and all(_prefix_zero(a) for a in spec["arrays"])
            # ... and long enough: every loop must still be fed when the next one starts coupling
            and c + max([next((i for i, v in enumerate(a) if v != 0), 0) for a in spec["arrays"]] + [0]) <= T - 1):
        try:
            fl = first_light(spec)
        except Exception:
            fl = None
        if fl is not None and min(c, T) != fl:
            const_bs = any(not isinstance(x[1][0], dict) for x in bsc)     # transmittivity angle is a constant
            found.append(("crop:first-light%s" % (":constant-beamsplitter" if const_bs else ""),
                          "get_crop_value() = %d but the first non-vacuum pulse reaches the detector in time bin %d (of %d)" % (c, fl, T)))
            return found
    try:
        if not space:
            with Inject(inj):
                r0 = sf.Engine("gaussian").run(build_tdm(spec), shots=2)
            with Inject(inj):
                r1 = sf.Engine("gaussian").run(build_tdm(spec), shots=2, crop=True)
            a, b = np.array(r0.samples), np.array(r1.samples)
            if a[:, :, c:].shape != b.shape or not np.allclose(a[:, :, c:], b, atol=1e-9):
                found.append(("engine:crop:samples", "crop=True samples are not the uncropped samples with the first %d time bins removed: shapes %s vs %s" % (c, a.shape, b.shape)))
            sd = r1.samples_dict
            if list(sd) != [0] or not np.allclose(np.array(sd[0]), a[:, 0, c:], atol=1e-9):
                found.append(("engine:crop:samples_dict", "crop=True samples_dict differs from the cropped samples"))
        else:
            sp = dict(spec)
            sp["cmds"] = [x for x in spec["cmds"] if not OPS[x[0]][2]]
            r1 = sf.Engine("gaussian").run(build_tdm(sp), space_unroll=True, crop=True)
            r0 = sf.Engine("gaussian").run(build_tdm(sp), space_unroll=True)
            nm = sum(sp["N"]) + max(T - 1, 0)
            loop = [[n_, ps, m, False, None] for n_, ps, m, _, _ in space_image(sp, 1)]
            rl, _ = run_plain(nm, loop, [0.0])
            # the documented way to get the joint state of all pulses: the full program (measurements included), shots=None
            r3 = sf.Engine("gaussian").run(build_tdm(spec), space_unroll=True, shots=None, crop=True)
            r2 = sf.Engine("gaussian").run(build_tdm(spec), space_unroll=True, shots=None)
            for res, modes, tag in ((r1, list(range(c, T)), "crop"), (r0, list(range(0, T)), "nocrop"),
                                    (r3, list(range(c, T)), "crop:shots=None"), (r2, list(range(0, T)), "nocrop:shots=None")):
                st = res.state
                if st is None:
                    if modes:
                        found.append(("engine:crop:state-missing:" + tag, "no state returned, expected modes %s" % modes))
                    continue
                if st.num_modes != len(modes):
                    found.append(("engine:crop:state-modes:" + tag, "state has %d modes, expected modes %s" % (st.num_modes, modes)))
                    continue
                if modes:
                    mu, cov = rl.state.reduced_gaussian(modes)
                    if not (np.allclose(st.means(), mu, atol=1e-8) and np.allclose(st.cov(), cov, atol=1e-8)):
                        found.append(("engine:crop:state:" + tag, "returned state is not the explicit loop's state reduced to modes %s" % modes))
    except Exception as e:
        found.append(("engine:crop:raises:%s%s" % (type(e).__name__, ":space" if space else ""), "run with crop raised %r" % e))
    return found


# --------------------------------------------------------------------------------------------
# property predicates on the implementation

def circuits_close(a, b, tol=1e-12):
    if len(a) != len(b):
        return False
    for x, y in zip(a, b):
        if x[0] != y[0] or x[2] != y[2] or x[3] != y[3] or x[4] != y[4] or len(x[1]) != len(y[1]):
            return False
        for u, v in zip(x[1], y[1]):
            if isinstance(u, str) or isinstance(v, str) or abs(u - v) > tol:
                return False
    return True


def rho_image(spec, shots):
    """Image of the hand loop under the renaming fresh mode -> RegRef (default: per band, int s: whole register)."""
    N, shift = spec["N"], spec["shift"]
    T = len(spec["arrays"][0])
    st = starts_of(N)
    n = sum(N)
    out = []
    for g in range(shots * T):
        for name, params, regs, fl in spec["cmds"]:
            if shift == "default":
                modes = []
                for r in regs:
                    b, o = band_of(N, r)
                    modes.append(st[b] + (o + g) % N[b])
            else:
                modes = [(r + int(shift) * g) % n for r in regs]
            out.append([name, [float(param_value(spec, x, g)) for x in params], modes, bool(fl["dag"]), fl["sel"] is not None])
    return out


def space_image(spec, shots):
    T = len(spec["arrays"][0])
    out = []
    for g in range(shots * T):
        for name, params, regs, fl in spec["cmds"]:
            out.append([name, [float(param_value(spec, x, g)) for x in params], [r + g for r in regs], bool(fl["dag"]), fl["sel"] is not None])
    return out


def classify_circuit_diff(spec, got, want):
    """Narrow signature for a structural difference between the implementation's unrolled circuit and the loop image."""
    if len(got) != len(want):
        return "unroll:length-differs"
    if any(g[0] != w[0] for g, w in zip(got, want)):
        return "unroll:ops-differ"
    if any(g[2] != w[2] for g, w in zip(got, want)):
        return "unroll:modes-differ"
    if any(len(g[1]) != len(w[1]) or any(isinstance(u, str) or abs(u - v) > 1e-12 for u, v in zip(g[1], w[1])) for g, w in zip(got, want)):
        return "unroll:params-differ"
    dd = any(g[3] != w[3] for g, w in zip(got, want))
    ss = any(g[4] != w[4] for g, w in zip(got, want))
    if dd and ss:
        return "apply_op:dagger-and-select-dropped"
    if dd:
        return "apply_op:dagger-dropped"
    if ss:
        return "apply_op:select-dropped"
    return "unroll:differs"


def raise_signature(spec, e, where="unroll"):
    if isinstance(e, AttributeError) and "name" in str(e):
        return "apply_op:expr-param" if has_expr(spec) else "apply_op:expr-param:decomposed-gate"
    if isinstance(e, TypeError) and "positional argument" in str(e):
        return "apply_op:rebuild-TypeError"
    return "%s:raises:%s" % (where, type(e).__name__)


def judge_unroll(ctx, spec, space, shots, data):
    """Evaluate the property's structural predicate on the implementation for one (spec, space, shots).
    Emits a counterexample and returns True if it fails."""
    T = len(spec["arrays"][0])
    if space and (len(spec["N"]) != 1 or shots != 1 and False):
        pass
    r, prog = impl_unroll(spec, space, shots)
    if r[0] == "err":
        ctx.counterexample(raise_signature(spec, r[2], "space_unroll" if space else "unroll"), "unrolling raised %r" % r[2], data)
        return True
    got = canon_impl(r[1])
    if space:
        if len(spec["N"]) != 1:
            return False
        if shots > 1 and T > 0:
            want = space_image(spec, shots)
            if not circuits_close(got, want):
                # the property quantifies over shots; a space-unrolled second shot must not wrap onto used modes
                sig = classify_circuit_diff(spec, got, want)
                if sig.startswith("apply_op"):
                    ctx.counterexample(sig, "space-unrolled circuit lost a flag", data)
                else:
                    ctx.counterexample("space_unroll:shots>1", "space_unroll(shots>1) wraps the second shot onto already used modes and drops commands (no fresh modes for its pulses)", data)
                return True
            return False
        want = space_image(spec, shots)
    else:
        if not (spec["shift"] == "default" or isinstance(spec["shift"], int)):
            return False
        if isinstance(spec["shift"], int) and (spec["shift"] < 0 or spec["shift"] > sum(spec["N"])):
            return False
        want = rho_image(spec, shots)
    if not circuits_close(got, want):
        sig = classify_circuit_diff(spec, got, want)
        ctx.counterexample(sig, "unrolled circuit is not the image of the explicit loop (%s): first difference %s" % (
            sig, next(((g, w) for g, w in zip(got, want) if g != w), (len(got), len(want)))), data)
        return True
    return False


def fresh_reference(spec, call):
    prog = build_tdm(spec)
    getattr(prog, call[0])(call[1])
    return canon_impl(obs_circuit(prog.circuit)), int(prog.init_num_subsystems)


def _run_obs(prog, shots, space, inj):
    eng = sf.Engine("gaussian")
    kw = {"shots": shots}
    if space:
        kw["space_unroll"] = True
    try:
        with Inject(inj) as I:
            res = eng.run(prog, **kw)
    except Exception as e:
        return ("err", type(e).__name__, repr(e))
    st = res.state
    return ("ok", np.array(res.samples, float), I.records, st.num_modes, np.array(st.means()), np.array(st.cov()))


def _run_same(a, b):
    if a[0] != b[0]:
        return False
    if a[0] == "err":
        return a[1] == b[1]
    return (a[1].shape == b[1].shape and np.allclose(a[1], b[1], atol=1e-9) and rec_close(a[2], b[2]) and a[3] == b[3]
            and np.allclose(a[4], b[4], atol=1e-8) and np.allclose(a[5], b[5], atol=1e-8))


def judge_history(ctx, spec, hist, data, emit=True):
    """Property predicate for call histories on the implementation:
       (a) after roll(): circuit is the original list of commands, reg_refs (index, active) and
           init_num_subsystems are the original ones;
       (b) the lock flag is what the last lock() (or the initial state) left, whatever was called;
       (c) an unroll/space_unroll that succeeds yields the same circuit and mode count as on a fresh program.
    Returns True iff a violation was reported."""
    prog = build_tdm(spec)
    orig_cmds = list(prog.circuit)
    orig_regs = [(i, bool(r.active)) for i, r in sorted(prog.reg_refs.items())]
    orig_init = prog.init_num_subsystems
    locked = False
    found = []
    failed_unroll_shots = None
    rolled_after_space = False
    for k, c in enumerate(hist):
        err = None
        if c[0] == "roll" and prog.space_unrolled_circuit is not None and prog._num_added_subsystems > 0:
            rolled_after_space = True
        cache_hit = (c[0] == "unroll" and prog.unrolled_circuit is not None and prog._unrolled_shots == c[1]) or \
                    (c[0] == "space_unroll" and prog.space_unrolled_circuit is not None and prog._unrolled_shots == c[1])
        try:
            if c[0] == "run":
                inj = data.get("inj") or [0.3, -0.5, 0.8, 0.1, -0.9, 0.4, 0.7, -0.2]
                regs_before = [(i, bool(r.active)) for i, r in sorted(prog.reg_refs.items())]
                pre = "space-unrolled" if prog.space_unrolled_circuit is not None else ("unrolled" if prog.is_unrolled else "rolled")
                got = _run_obs(prog, c[1], c[2], inj)
                regs_after = [(i, bool(r.active)) for i, r in sorted(prog.reg_refs.items())]
                locked = True if got[0] == "ok" else bool(prog.locked)
                if regs_after != regs_before:
                    kind = "grows" if len(regs_after) > len(regs_before) else "shrinks"
                    found.append(("history:run:user-register-%s" % kind,
                                  "call %d (%s) on a %s program changed the user's register from %s to %s" % (k, c, pre, regs_before, regs_after)))
                    break    # the user's program is corrupted from here on; later calls would only show consequences
                if pre != "rolled":
                    continue    # the engine executes the user's pre-unrolled circuit as is: no agreed expectation for the results
                want = _run_obs(build_tdm(spec), c[1], c[2], inj)
                locked = True
                if not _run_same(got, want):
                    if got[0] == "err":
                        sig = "history:run:raises:%s%s" % (got[1], ":space" if c[2] else "")
                        if got[1] == "IndexError" and c[2] and rolled_after_space:
                            sig = "history:run-space_unroll-after-roll:IndexError"
                        what = "call %d (%s) raised %s although the same run on a fresh program gives %s" % (k, c, got[2], want[0] if want[0] == "ok" else want[2])
                    else:
                        sig = "history:run:differs-from-fresh%s" % (":space" if c[2] else "")
                        what = "call %d (%s) gives different samples / outcome laws / state than the same run on a fresh program" % (k, c)
                    found.append((sig, what))
            elif c[0] == "lock":
                prog.lock()
                locked = True
            elif c[0] == "roll":
                prog.roll()
            else:
                getattr(prog, c[0])(c[1])
        except ValueError as e:
            err = "ValueError"
            if c[0] == "unroll":
                failed_unroll_shots = c[1]
        except Exception as e:
            sig = raise_signature(spec, e, "history:" + c[0])
            found.append((sig, "call %d (%s) raised %r" % (k, c, e)))
            break
        if bool(prog.locked) != locked:
            early = ("early-return" if cache_hit else "normal-return") if err is None else "error"
            found.append(("history:%s:unlocked-%s" % (c[0], early), "after call %d (%s) the program's lock flag is %s although it was %s before" % (k, c, prog.locked, locked)))
            locked = bool(prog.locked)
        if c[0] == "roll":
            failed_unroll_shots = None
            if not (len(prog.circuit) == len(orig_cmds) and all(a is b for a, b in zip(prog.circuit, orig_cmds))):
                found.append(("roll:circuit-not-restored", "after roll() the circuit is not the original one"))
            regs = [(i, bool(r.active)) for i, r in sorted(prog.reg_refs.items())]
            if regs != orig_regs or prog.init_num_subsystems != orig_init:
                found.append(("roll:register-not-restored", "after roll() the register is %s (init_num_subsystems %s), originally %s (%s)" % (
                    regs, prog.init_num_subsystems, orig_regs, orig_init)))
        if c[0] in ("unroll", "space_unroll") and err is None:
            want, want_init = fresh_reference(spec, c)
            got = canon_impl(obs_circuit(prog.circuit))
            if got != want or prog.init_num_subsystems != want_init:
                mx = max([m for g in got for m in g[2]] + [0])
                sig = "history:%s-after-roll:modes" % c[0] if mx >= prog.init_num_subsystems else "history:%s:differs-from-fresh" % c[0]
                if mx < prog.init_num_subsystems and c[0] == "space_unroll" and failed_unroll_shots == c[1]:
                    sig = "history:space_unroll:stale-shots-after-failed-unroll"
                found.append((sig, "call %d (%s) after this history gives a different circuit than on a fresh program (max mode %d, init_num_subsystems %d)" % (
                    k, c, mx, prog.init_num_subsystems)))
            if c[0] == "unroll":
                failed_unroll_shots = None
    seen = set()
    found = [f for f in found if not (f[0] in seen or seen.add(f[0]))]
    if emit:
        for sig, what in found:
            d = dict(data)
            ctx.counterexample(sig, what, d)
    return bool(found)


def physical_check(ctx, spec, shots, inj, data, emit=True):
    """Shifted unrolling vs the explicit loop on the gaussian backend, outcomes injected.
    Returns list of (signature, what)."""
    found = []
    T = len(spec["arrays"][0])
    if spec["shift"] != "default" and not (1 <= int(spec["shift"]) <= sum(spec["N"])):
        return found    # an integer shift outside 1..n has no agreed meaning (Python slicing makes it a no-op)
    prog = build_tdm(spec)
    try:
        prog.unroll(shots)
    except Exception as e:
        found.append((raise_signature(spec, e), "unroll raised %r" % e))
        return found
    circ = obs_circuit(prog.circuit)
    cmds = [[n, ps, m, d, s] for n, ps, m, d, s in circ]
    nm, loop, meas = hand_loop(spec, shots)
    try:
        res_l, rec_l = run_plain(nm, loop, inj)
    except Exception as e:
        return found   # the specification itself is not runnable on this backend: no verdict
    try:
        res_s, rec_s = run_plain(prog.init_num_subsystems, cmds, inj)
    except Exception as e:
        found.append(("unroll:run-raises:" + type(e).__name__, "running the unrolled circuit raised %r" % e))
        return found
    if not rec_close(rec_s, rec_l):
        got = canon_impl(circ)
        want = rho_image(spec, shots)
        sig = classify_circuit_diff(spec, got, want) if not circuits_close(got, want) else "unroll:state-differs"
        k = next((i for i, (a, b) in enumerate(zip(rec_s, rec_l)) if not rec_close([a], [b])), min(len(rec_s), len(rec_l)))
        found.append((sig, "conditional law of measurement %d differs between the shifted unrolling and the explicit loop: %s vs %s (%d vs %d draws)" % (
            k, rec_s[k] if k < len(rec_s) else None, rec_l[k] if k < len(rec_l) else None, len(rec_s), len(rec_l))))
    return found


def engine_check(ctx, spec, shots, inj, space=False):
    """eng.run(prog, shots) end to end: samples[shot, band, bin] must be the outcome of that pulse and the
    conditional laws must be those of the explicit loop."""
    found = []
    N = spec["N"]
    T = len(spec["arrays"][0])
    nm, loop, meas = hand_loop(spec, shots) if not space else (None, None, None)
    if space:
        sp = dict(spec)
        nm = sum(N) + max(shots * T - 1, 0)
        loop = [[n_, ps, m, spec["cmds"][i % len(spec["cmds"])][3]["dag"], spec["cmds"][i % len(spec["cmds"])][3]["sel"]]
                for i, (n_, ps, m, _, _) in enumerate(space_image(spec, shots))]
        meas = [(c[2][0], g) for g in range(shots * T) for c in spec["cmds"] if OPS[c[0]][2]]
    try:
        res_l, rec_l = run_plain(nm, loop, inj)
    except Exception:
        return found
    prog = build_tdm(spec)
    eng = sf.Engine("gaussian")
    kw = {"shots": shots}
    if space:
        kw["space_unroll"] = True
    try:
        with Inject(inj) as I:
            res = eng.run(prog, **kw)
    except Exception as e:
        sig = raise_signature(spec, e, "engine:run%s" % (":space" if space else ""))
        if space and isinstance(e, IndexError) and "reshape_samples" in _tb_functions(e) and shots * T > sum(N):
            # known: _get_mode_order assumes the register-shifting order; fails as soon as timebins > concurrent modes
            sig = "engine:space_unroll:reshape-IndexError"
        elif isinstance(e, NotImplementedError) and "Post-selection" in str(e):
            return found
        found.append((sig, "eng.run(prog, %s) raised %r" % (kw, e)))
        return found
    # flags present in the rolled circuit the engine actually unrolled (after compilation: decompositions use .H)
    compiled = eng.run_progs[-1]
    # Python's own iteration order of the set of measured positions (the known set-order finding applies
    # only when THIS is unsorted, whatever measured_modes returns)
    _ms = set()
    for c in spec["cmds"]:
        if OPS[c[0]][2]:
            _ms.add(c[2][0])
    prog_measured = list(_ms)
    # (only counts as "dropped" when the unrolled circuit that was executed has lost them)
    c_dag = any(getattr(c.op, "dagger", False) for c in compiled.rolled_circuit) and not any(getattr(c.op, "dagger", False) for c in compiled.circuit)
    user_dag = any(c[3]["dag"] for c in spec["cmds"])
    c_sel = any(getattr(c.op, "select", None) is not None for c in compiled.rolled_circuit) and not any(getattr(c.op, "select", None) is not None for c in compiled.circuit)
    flag_sig = None
    if c_dag and c_sel:
        flag_sig = "apply_op:dagger-and-select-dropped"
    elif c_dag:
        flag_sig = "apply_op:dagger-dropped" if user_dag else "apply_op:dagger-dropped:decomposed-gate"
    elif c_sel:
        flag_sig = "apply_op:select-dropped"
    rec_s = I.records
    samples = np.array(res.samples)
    # expected layout: spatial modes in band order (ascending measured position)
    positions = sorted(set(p for p, _ in meas))
    want = np.full((shots, len(positions), T), np.nan)
    it = iter(range(len(meas)))
    vals = []
    j = 0
    for (pos, g), cmd in zip(meas, [c for c in loop if OPS[c[0]][2]]):
        if cmd[4] is not None:
            v = cmd[4]
        else:
            v = inj[j % len(inj)]
            if cmd[0] == "MeasureFock":
                v = fock_value(v)
            j += 1
        want[g // T, positions.index(pos), g % T] = v
    if samples.shape != want.shape:
        found.append(("engine:samples-shape%s" % (":space" if space else ""), "samples shape %s, expected %s" % (samples.shape, want.shape)))
        return found
    bad_layout = not np.allclose(samples, want, atol=1e-9)
    # samples_dict: key = measured position of the band, value[shot, bin]
    sd = res.samples_dict
    try:
        if sorted(sd) != positions or any(not np.allclose(np.array(sd[pos], float), want[:, i, :], atol=1e-9) for i, pos in enumerate(positions)):
            bad_layout = True
    except Exception:
        bad_layout = True
    bad_laws = not rec_close(rec_s, rec_l)
    if not space and any(c[0] == "MeasureFock" for c in spec["cmds"]):
        # the gaussian backend does not reset a mode after a Fock measurement: register shifting is documented not to
        # work with Fock measurements, so only the sample bookkeeping is judged here
        bad_laws = False
    if bad_layout or bad_laws:
        if space and shots > 1:
            sig = "space_unroll:shots>1"
        elif flag_sig is not None:
            sig = flag_sig
        elif bad_layout:
            sig = "engine:samples-layout%s" % (":space" if space else "")
        else:
            sig = "engine:state-differs%s" % (":space" if space else "")
        if bad_layout:
            found.append((sig, "samples[shot, spatial mode, time bin] is not the outcome of that pulse: got %s expected %s" % (samples.tolist(), want.tolist())))
        else:
            found.append((sig, "conditional laws of the outcomes differ between eng.run and the explicit loop: %s vs %s" % (rec_s[:4], rec_l[:4])))
    return found


def _tb_functions(e):
    import traceback
    return [f.name for f in traceback.extract_tb(e.__traceback__)]


def space_state_check(ctx, spec):
    """Single band: the space-unrolled circuit (measurements stripped) prepares the state of the explicit loop."""
    found = []
    T = len(spec["arrays"][0])
    prog = build_tdm(spec)
    try:
        prog.space_unroll(1)
    except Exception as e:
        return [(raise_signature(spec, e, "space_unroll"), "space_unroll raised %r" % e)]
    circ = obs_circuit(prog.circuit)
    nm = sum(spec["N"]) + max(T - 1, 0)
    loop = [[n_, ps, m, spec["cmds"][i % len(spec["cmds"])][3]["dag"], spec["cmds"][i % len(spec["cmds"])][3]["sel"]]
            for i, (n_, ps, m, _, _) in enumerate(space_image(spec, 1))]
    try:
        rl, _ = run_plain(nm, loop, [0.0], strip_meas=True)
    except Exception:
        return found
    try:
        rs, _ = run_plain(prog.init_num_subsystems, [[n_, ps, m, d, s] for n_, ps, m, d, s in circ], [0.0], strip_meas=True)
    except Exception as e:
        return [("space_unroll:run-raises:" + type(e).__name__, "running the space-unrolled circuit raised %r" % e)]
    a, b = rs.state, rl.state
    if a.num_modes != b.num_modes or not (np.allclose(a.means(), b.means(), atol=1e-8) and np.allclose(a.cov(), b.cov(), atol=1e-8)):
        got, want = canon_impl(circ), space_image(spec, 1)
        sig = classify_circuit_diff(spec, got, want) if not circuits_close(got, want) else "space_unroll:state-differs"
        found.append((sig, "state prepared by the space-unrolled circuit differs from the explicit loop"))
    return found


def search(ctx):
    rng = ctx.rng
    # 0. corpus first
    for path in sorted(glob.glob(os.path.join(coq.VERIF, "corpus", "C13-*.json"))):
        d = json.load(open(path))
        ctx2 = _Collector()
        if run_data(ctx2, d["data"]):
            for sig, what, data in ctx2.items:
                ctx.counterexample(sig, what, data)
        ctx.case({"kind": "corpus", "file": os.path.basename(path)}, nontrivial=False, bucket="corpus")
    # 1. structural predicate at scale: unrolled circuit = image of the explicit loop
    for _ in range(ctx.budget(300, 8000)):
        spec = gen_spec(rng, wellformed=True, allow_flags=rng.random() < 0.25, allow_expr=rng.random() < 0.15,
                        single_band=rng.random() < 0.4, max_N=7 if rng.random() < 0.25 else 4)
        space = len(spec["N"]) == 1 and rng.random() < 0.4
        if space:
            spec["shift"] = "default"
        shots = rng.choice([1, 1, 2, 3])
        T = len(spec["arrays"][0])
        data = {"check": "unroll", "spec": spec, "space": space, "shots": shots}
        ctx.case({"kind": "struct", "spec": spec, "space": space, "shots": shots},
                 nontrivial=T >= 2 and (shots >= 2 or len(spec["N"]) >= 2 or spec["shift"] != "default"), bucket="search:struct")
        judge_unroll(ctx, spec, space, shots, data)
    # 2. histories
    for _ in range(ctx.budget(200, 4000)):
        spec = gen_spec(rng, allow_expr=False, allow_flags=False, max_T=4, max_N=3, single_band=rng.random() < 0.6, names=HIST_NAMES,
                        physical=True, shift_kinds=("default",))
        hist = gen_history(rng, 6, with_run=True)
        T = len(spec["arrays"][0])
        kinds = [c[0] for c in hist]
        alt = any(a in ("unroll", "space_unroll") and b == "roll" for a, b in zip(kinds, kinds[1:]))
        ctx.case({"kind": "search-history", "spec": spec, "hist": hist}, nontrivial=T >= 2 and alt, bucket="search:history")
        judge_history(ctx, spec, hist, {"check": "history", "spec": spec, "hist": hist})
    # 3. physics: shifted vs explicit loop (direct execution of the unrolled circuit)
    for _ in range(ctx.budget(40, 1200)):
        spec = gen_spec(rng, physical=True, wellformed=True, allow_flags=rng.random() < 0.2, allow_expr=False,
                        max_N=3, max_T=4, max_bands=2)
        shots = rng.choice([1, 1, 2])
        inj = inj_values(rng)
        T = len(spec["arrays"][0])
        data = {"check": "physical", "spec": spec, "shots": shots, "inj": inj}
        ctx.case({"kind": "physical", "spec": spec, "shots": shots}, nontrivial=T >= 2 and (shots >= 2 or len(spec["N"]) >= 2 or spec["shift"] != "default"),
                 bucket="search:physical")
        for sig, what in physical_check(ctx, spec, shots, inj, data):
            ctx.counterexample(sig, what, data)
    # 4. engine end to end (default shift): sample layout + laws
    for _ in range(ctx.budget(40, 1000)):
        big = rng.random() < 0.3     # band starts beyond 8: set iteration order of measured modes is no longer sorted
        spec = gen_spec(rng, physical=True, wellformed=True, allow_flags=rng.random() < 0.15, allow_expr=rng.random() < 0.1,
                        shift_kinds=("default",), max_N=6 if big else 3, max_T=4, max_bands=3,
                        names=PRIMITIVE * 3 + DECOMPOSED)
        shots = rng.choice([1, 1, 2, 3])
        if has_flags(spec):
            shots = 1
        inj = inj_values(rng)
        if rng.random() < 0.2:       # photon-number measurements: other value type / code path in _run_program and reshape_samples
            for c in spec["cmds"]:
                if c[0] == "MeasureHomodyne":
                    c[0], c[1], c[3] = "MeasureFock", [], {"dag": False, "sel": None}
        T = len(spec["arrays"][0])
        data = {"check": "engine", "spec": spec, "shots": shots, "inj": inj, "space": False}
        ctx.case({"kind": "engine", "spec": spec, "shots": shots}, nontrivial=T >= 2 and (shots >= 2 or len(spec["N"]) >= 2), bucket="search:engine")
        for sig, what in engine_check(ctx, spec, shots, inj):
            ctx.counterexample(sig, what, data)
    # 5. space unrolling, single band: state of the stripped circuit, and engine run with space_unroll=True
    for _ in range(ctx.budget(30, 600)):
        spec = gen_spec(rng, physical=True, wellformed=True, allow_flags=False, allow_expr=False, shift_kinds=("default",),
                        single_band=True, max_N=3, max_T=4)
        T = len(spec["arrays"][0])
        inj = inj_values(rng)
        ctx.case({"kind": "space", "spec": spec}, nontrivial=T >= 2, bucket="search:space")
        data = {"check": "space-state", "spec": spec}
        for sig, what in space_state_check(ctx, spec):
            ctx.counterexample(sig, what, data)
        shots = rng.choice([1, 1, 2])
        data = {"check": "engine", "spec": spec, "shots": shots, "inj": inj, "space": True}
        for sig, what in engine_check(ctx, spec, shots, inj, space=True):
            ctx.counterexample(sig, what, data)
        # space-unrolled run that survives reshape_samples (timebins <= concurrent modes), homodyne or Fock
        sp2 = copy.deepcopy(spec)
        n0 = sp2["N"][0]
        sp2["arrays"] = [a[:n0] for a in sp2["arrays"]]
        if rng.random() < 0.5:
            for c in sp2["cmds"]:
                if c[0] == "MeasureHomodyne":
                    c[0], c[1] = "MeasureFock", []
        data = {"check": "engine", "spec": sp2, "shots": 1, "inj": inj, "space": True}
        for sig, what in engine_check(ctx, sp2, 1, inj, space=True):
            ctx.counterexample(sig, what, data)
    # 6. engine-side crop handling
    search_crop(ctx)
    # 7. run options x prior program states
    search_run_matrix(ctx)
    # 8. tdm.utils.vacuum_padding
    search_vacpad(ctx)


def search_crop(ctx):
    rng = ctx.rng
    for k in range(ctx.budget(16, 160)):
        for _try in range(10):
            spec, nloops = gen_loop_spec(rng, meas="MeasureHomodyne", max_T=6)
            if k % 2:
                break
            try:
                if 0 < build_tdm(spec).get_crop_value() < len(spec["arrays"][0]):
                    break          # every other case: a crop value that is visible
            except NotImplementedError:
                pass
        space = rng.random() < 0.5
        inj = inj_values(rng)
        data = {"check": "crop", "spec": spec, "inj": inj, "space": space}
        ctx.case({"kind": "crop", "spec": spec, "space": space}, nontrivial=nloops >= 1 and len(spec["arrays"][0]) >= 2, bucket="search:crop")
        for sig, what in crop_check(ctx, spec, inj, space):
            ctx.counterexample(sig, what, data)


PRIORS = [
    [], [["lock"]],
    [["unroll", 1]], [["unroll", 2]], [["lock"], ["unroll", 1]], [["unroll", 1], ["lock"]],
    [["space_unroll", 1]], [["lock"], ["space_unroll", 1]],
    [["unroll", 1], ["roll"]], [["unroll", 2], ["roll"]], [["space_unroll", 1], ["roll"]],
    [["unroll", 1], ["unroll", 2]], [["unroll", 1], ["roll"], ["space_unroll", 1]], [["space_unroll", 1], ["roll"], ["unroll", 2]],
]
RUN_OPTS = [{"space_unroll": S, "shots": k, "crop": c} for S in (False, True) for k in (None, 1, 2) for c in (False, True)]


def _apply_calls(prog, calls):
    for c in calls:
        getattr(prog, c[0])(*c[1:])


def _engine_obs(prog, kw, inj):
    import warnings as _w
    eng = sf.Engine("gaussian")
    try:
        with _w.catch_warnings():
            _w.simplefilter("ignore")
            with Inject(inj) as I:
                res = eng.run(prog, **kw)
    except Exception as e:
        return ("err", type(e).__name__, repr(e)[:200])
    st = res.state
    sd = res.samples_dict or {}
    return ("ok", np.array(res.samples, float), I.records, None if st is None else st.num_modes,
            None if st is None else np.array(st.means()), None if st is None else np.array(st.cov()),
            {int(k): np.array(v, float) for k, v in sd.items()})


def _engine_diff(got, want):
    """None if equal, else a short tag naming what differs."""
    if got[0] != want[0]:
        return "raises:" + got[1] if got[0] == "err" else "no-error"
    if got[0] == "err":
        return None if got[1] == want[1] else "raises:" + got[1]
    if got[3] != want[3]:
        return "state-modes"
    if got[3] is not None and not (np.allclose(got[4], want[4], atol=1e-7) and np.allclose(got[5], want[5], atol=1e-7)):
        return "state"
    if got[1].shape != want[1].shape:
        return "samples-shape"
    if not np.allclose(got[1], want[1], atol=1e-9):
        return "samples"
    if sorted(got[6]) != sorted(want[6]) or any(got[6][k].shape != want[6][k].shape or not np.allclose(got[6][k], want[6][k], atol=1e-9) for k in got[6]):
        return "samples_dict"
    if not rec_close(got[2], want[2]):
        return "laws"
    return None


def run_matrix_case(spec, prior, kw, inj, ro=None):
    """eng.run(prog, **kw) on a program brought into a prior state by `prior` must equal the same run on a freshly
    built program brought to the equivalent state by the most direct route:
      * the executed form is space-unrolled iff space_unroll=True or the user space-unrolled it (and did not roll back);
      * the unrolling count is that of the user's cached form if that form is executed, else `shots or 1`;
      * the reference is a fresh rolled program run with the same options when its own unrolling count agrees,
        otherwise a fresh program (space-)unrolled explicitly with that count.
    (Fresh rolled runs are themselves compared with the explicit fresh-mode loop by engine_check / crop_check.)"""
    prog = build_tdm(spec)
    _apply_calls(prog, prior)
    if ro:
        prog.run_options = dict(ro)
    pre_space = prog.space_unrolled_circuit is not None
    pre_unr = prog.unrolled_circuit is not None
    pre = "space-unrolled" if pre_space else ("unrolled" if pre_unr else "rolled")
    given = dict(kw)
    kw = dict(ro or {})
    kw.update(given)            # documented priority: keyword arguments of run() over program.run_options
    kw.setdefault("shots", 1)
    S, k = bool(kw.get("space_unroll")), kw.get("shots")
    if pre_space:
        space_eff, count = True, prog._unrolled_shots
    elif pre_unr and not S:
        space_eff, count = False, prog._unrolled_shots
    else:
        space_eff, count = S, (k or 1)
    ref = build_tdm(spec)
    rkw = dict(kw)
    rkw["space_unroll"] = space_eff
    if (k or 1) != count:
        (ref.space_unroll if space_eff else ref.unroll)(count)
    got = _engine_obs(prog, given, inj)
    want = _engine_obs(ref, rkw, inj)
    d = _engine_diff(got, want)
    if d is None:
        return []
    sig = "engine:run-options:%s:%s:space_unroll=%s:shots=%s%s%s" % (d, pre, S, "None" if k is None else ("1" if k == 1 else "k"), ":crop" if kw.get("crop") else "",
                                                                     "" if not ro else (":via-run_options" if not given else ":run_options-vs-kwargs"))
    if pre == "unrolled" and S and got[0] == "err" and (
            (got[1] == "AttributeError" and "Backend' object has no attribute" in got[2]) or
            (got[1] == "NotImplementedError" and "has not been implemented" in got[2])):
        # the engine's copy rolls back to the user's UNCOMPILED rolled circuit before space-unrolling it
        sig = "engine:run-options:unrolled+space_unroll-kwarg:uncompiled-gate"
    elif space_eff and count > 1 and d in ("state", "samples", "laws", "samples_dict", "samples-shape"):
        # both sides space-unroll for 2+ shots: the wrapped second shot (known finding) depends on how the rolled circuit was split into commands
        sig = "space_unroll:shots>1"
    return [(sig, "eng.run(prog, %s) [program.run_options=%s] on a %s program (prior calls %s) differs from the same run on a fresh program in '%s': got %s, expected %s" % (
        given, ro, pre, prior, d, _engine_brief(got), _engine_brief(want)))]


def _engine_brief(o):
    if o[0] == "err":
        return o[2]
    return "samples%s state-modes=%s draws=%d" % (o[1].shape, o[3], len(o[2]))


def search_run_matrix(ctx):
    """Every run option combination against every prior program state (engine-level histories)."""
    rng = ctx.rng
    for i in range(ctx.budget(3, 24)):
        # time bins <= concurrent modes for every other program: space-unrolled runs with measurements then survive reshape_samples
        loopy = i % 3 == 2
        if loopy:
            # delay-loop layout (Sgate / BSgate / homodyne only): the only programs for which crop has a meaning;
            # prefer programs whose crop value is neither 0 nor all time bins, so that cropping is visible
            for _try in range(30):
                spec, _ = gen_loop_spec(rng, meas="MeasureHomodyne", max_T=5)
                try:
                    cv = build_tdm(spec).get_crop_value()
                except NotImplementedError:
                    continue
                if 0 < cv < len(spec["arrays"][0]):
                    break
        else:
            spec = gen_spec(rng, physical=True, wellformed=True, allow_flags=False, allow_expr=False, shift_kinds=("default",),
                            single_band=True, max_N=3, max_T=4, names=PRIMITIVE * 3 + ["S2gate", "MZgate"])
        if i % 3 == 0:
            n, T = spec["N"][0], len(spec["arrays"][0])
            if T > n:
                spec["arrays"] = [a[:n] for a in spec["arrays"]]
        inj = inj_values(rng, 12)
        cnt = 0
        for prior in PRIORS:
            for kw in RUN_OPTS:
                if kw["crop"] and not loopy:
                    continue
                cnt += 1
                via = cnt % 3        # 0: keyword arguments, 1: program.run_options only, 2: both, run_options carrying the opposite values
                if via:
                    ro = dict(kw) if via == 1 else {"space_unroll": not kw["space_unroll"], "shots": 2 if kw["shots"] != 2 else 1, "crop": False}
                    given = {} if via == 1 else dict(kw)
                    data = {"check": "runmatrix", "spec": spec, "prior": prior, "kw": given, "ro": ro, "inj": inj}
                    ctx.case({"kind": "runmatrix", "spec": spec, "prior": prior, "kw": given, "ro": ro},
                             nontrivial=len(spec["arrays"][0]) >= 2 and any(c[0] in ("unroll", "space_unroll") for c in prior), bucket="search:runmatrix:run_options")
                    for sig, what in run_matrix_case(spec, prior, given, inj, ro=ro):
                        ctx.counterexample(sig, what, data)
                    continue
                data = {"check": "runmatrix", "spec": spec, "prior": prior, "kw": kw, "inj": inj}
                ctx.case({"kind": "runmatrix", "spec": spec, "prior": prior, "kw": kw},
                         nontrivial=len(spec["arrays"][0]) >= 2 and any(c[0] in ("unroll", "space_unroll") for c in prior), bucket="search:runmatrix")
                for sig, what in run_matrix_case(spec, prior, kw, inj):
                    ctx.counterexample(sig, what, data)


class _Collector:
    """Stand-in for ctx when re-running a stored input."""

    def __init__(self):
        self.items = []

    def counterexample(self, sig, what, data=None):
        self.items.append((sig, what, data))

    def disagreement(self, sig, what, data=None):
        pass


def run_data(ctx, d):
    """Re-run one stored input through the property predicate; True iff it fails."""
    chk = d.get("check")
    if chk == "unroll":
        return judge_unroll(ctx, d["spec"], d["space"], d["shots"], d)
    if chk == "history":
        return judge_history(ctx, d["spec"], d["hist"], d)
    if chk == "physical":
        f = physical_check(ctx, d["spec"], d["shots"], d["inj"], d)
    elif chk == "engine":
        f = engine_check(ctx, d["spec"], d["shots"], d["inj"], space=d.get("space", False))
    elif chk == "space-state":
        f = space_state_check(ctx, d["spec"])
    elif chk == "crop":
        f = crop_check(ctx, d["spec"], d["inj"], d["space"])
    elif chk == "vacpad":
        ga = {"Sgate": d["gate_args"]["Sgate"], "loops": {int(i): v for i, v in d["gate_args"]["loops"].items()}}
        f = vacpad_check(ga, d["delays"])
    elif chk == "runmatrix":
        f = run_matrix_case(d["spec"], d["prior"], d["kw"], d["inj"], ro=d.get("ro"))
    else:
        return False
    for sig, what in f:
        ctx.counterexample(sig, what, d)
    return bool(f)


def replay(ctx, data):
    c = _Collector()
    bad = run_data(c, data["data"])
    for sig, what, _ in c.items:
        print("  [%s] %s" % (sig, what[:600]))
    return bool(bad)
