"""FockAxes — exact correspondence between coq/FockAxes/Model.v (axis bookkeeping of the Fock simulator) and
strawberryfields.backends.fockbackend.circuit.Circuit.  Shared by C01 (fock_axes) and C05 (fock_locality / prepare).

The implementation is driven with small Gaussian-integer tensors (binary64 arithmetic is exact on them) and the
model is evaluated by vm_compute on the very same tensors (coq/FockAxes/Exec.v instantiates the abstract matrix
action by the explicit integer contraction).  Comparison is entry by entry and exact.

Public interface (for tools/props/c01.py and c05.py):
    COQ_TARGETS, PROPERTIES_FILE, COQ_DIRS
    correspondence_fock_axes(ctx)          reports via ctx.counterexample / ctx.disagreement / ctx.obligation
    replay_fock_axes(ctx, data) -> bool    for replay files whose data["check"] == "fock-axes"
"""
import itertools
import os
from concurrent.futures import ThreadPoolExecutor

import numpy as np

from vlib import coq

COQ_DIRS = ["FockAxes"]
COQ_TARGETS = ["FockAxes/Model.vo", "FockAxes/Lists.vo", "FockAxes/Proofs.vo", "FockAxes/TwoMode.vo",
               "FockAxes/Channel.vo", "FockAxes/Prepare.vo", "FockAxes/Exec.vo", "FockAxes/ExecFacts.vo"]
PROPERTIES_FILE = "Properties/FockAxes.v"
RULE_FOCK_AXES = ("every ordered choice of 1-2 (thorough: 1-3) target modes of a 1-4 mode register at cutoff 2-3, pure and mixed, "
                  "general and diagonal random integer matrices, random Gaussian-integer states; apply_gate_BLAS, apply_twomode_gate "
                  "(BSgate/MZgate/S2gate kernels), _apply_channel, ops.mix, prepare_multimode, ops.partial_trace, alloc, dealloc; "
                  "non-trivial = some target is not in its natural place (targets != [0..k-1]) or targets are not ascending")
TRUSTED_FOCK_AXES = [
    "hand model coq/FockAxes/Model.v of the axis bookkeeping of fockbackend/circuit.py (+ ops.mix/partial_trace/tensor), tied on every run by exact "
    "entry-by-entry comparison on Gaussian-integer tensors; coq/FockAxes/Exec.v (integer contractions) is execution-only",
]


# ---------------------------------------------------------------------------------------------- arrays <-> JSON / Coq

def enc(a):
    """complex ndarray -> nested lists of [re, im] ints"""
    a = np.asarray(a)
    if a.ndim == 0:
        z = complex(a)
        return [int(round(z.real)), int(round(z.imag))]
    return [enc(x) for x in a]


def dec(l):
    def rec(x):
        if isinstance(x[0], (int, float)):
            return complex(x[0], x[1])
        return [rec(y) for y in x]
    return np.array(rec(l), dtype=np.complex128)


def is_integral(a):
    a = np.asarray(a)
    return bool(np.all(a.real == np.round(a.real)) and np.all(a.imag == np.round(a.imag)) and np.all(np.abs(a) < 2 ** 50))


def coq_tree(a):
    a = np.asarray(a)
    if a.ndim == 0:
        z = complex(a)
        re, im = int(round(z.real)), int(round(z.imag))
        return "L %s %s" % (re if re >= 0 else "(%d)" % re, im if im >= 0 else "(%d)" % im)
    return "Node [" + "; ".join(("%s" if x.ndim == 0 else "%s") % coq_tree(x) for x in a) + "]"


def coq_nats(l):
    return "[" + "; ".join(str(int(x)) for x in l) + "]"


def rand_tensor(rng, shape, lo=-3, hi=3):
    size = int(np.prod(shape)) if len(shape) else 1
    re = [rng.randint(lo, hi) for _ in range(size)]
    im = [rng.randint(lo, hi) for _ in range(size)]
    return (np.array(re, dtype=np.float64) + 1j * np.array(im, dtype=np.float64)).reshape(shape).astype(np.complex128)


def rand_gate_matrix(rng, trunc, size, kind):
    """operator of shape [trunc]*(2*size), axes (out1, in1, out2, in2, ...)"""
    shape = [trunc] * (2 * size)
    if kind == "general":
        m = rand_tensor(rng, shape, -2, 2)
        # make sure it is not accidentally diagonal
        return m
    m = np.zeros(shape, dtype=np.complex128)
    for o in itertools.product(range(trunc), repeat=size):
        ix = tuple(x for pair in zip(o, o) for x in pair)
        v = 0
        while v == 0:
            v = complex(rng.randint(-2, 2), rng.randint(-2, 2))
        m[ix] = v
    return m


# ---------------------------------------------------------------------------------------------- implementation drivers

# The two-mode kernels are numba-jitted without a cache: every (ndim, memory layout) of the state is a separate
# compilation (2-10 s each, ~25 of them).  JIT_MAX_NDIM = k means: states of more than k axes run the *same source*
# through the interpreter (`.py_func`); the jitted kernels are used up to k axes.
JIT_MAX_NDIM = [3]


def _circuit(n, trunc, pure, state):
    from strawberryfields.backends.fockbackend.circuit import Circuit
    c = Circuit(n, trunc, pure=pure)
    c._state = np.array(state, dtype=np.complex128)
    if c._state.ndim > JIT_MAX_NDIM[0]:
        for name in ("_apply_two_mode_passive", "_apply_S2"):
            f = getattr(Circuit, name)
            if hasattr(f, "py_func"):
                setattr(c, name, f.py_func)   # instance attribute shadows the jitted staticmethod
    return c


def run_impl(case, state=None):
    """Run the real code on the case; returns the resulting tensor (complex ndarray)."""
    from strawberryfields.backends.fockbackend import ops
    op = case["op"]
    n, trunc = case["n"], case["trunc"]
    st = dec(case["state"]) if state is None else state
    if op == "gate":
        c = _circuit(n, trunc, case["pure"], st)
        return np.array(c.apply_gate_BLAS(dec(case["mat"]), list(case["modes"])))
    if op == "twomode":
        c = _circuit(n, trunc, case["pure"], st)
        return np.array(c.apply_twomode_gate(dec(case["mat"]), list(case["modes"]), gate=case["gate"]))
    if op == "channel":
        c = _circuit(n, trunc, case["pure"], st)
        c._apply_channel([dec(k) for k in case["kraus"]], list(case["modes"]))
        assert c._pure is False
        return np.array(c._state)
    if op == "mix":
        return np.array(ops.mix(st, n))
    if op == "ptrace":
        return np.array(ops.partial_trace(st, n, list(case["modes"])))
    if op == "prepare":
        c = _circuit(n, trunc, case["pure"], st)
        c.prepare_multimode(dec(case["prep"]), list(case["modes"]))
        return (bool(c._pure), np.array(c._state))
    if op == "alloc":
        c = _circuit(n, trunc, case["pure"], st)
        c.alloc(case["k"])
        assert c._num_modes == n + case["k"]
        return np.array(c._state)
    if op == "dealloc":
        c = _circuit(n, trunc, case["pure"], st)
        c.dealloc(list(case["modes"]))
        assert c._num_modes == n - len(case["modes"]) and c._pure is False
        return np.array(c._state)
    raise ValueError(op)


# ---------------------------------------------------------------------------------------------- independent reference + locality predicate

def _effective_matrix(case):
    """the operator the kernel applies, as a full [out1,in1,out2,in2] tensor"""
    mat = dec(case["mat"])
    if case["op"] == "gate":
        return mat
    trunc = case["trunc"]
    eff = np.zeros_like(mat)
    for o1, i1, o2, i2 in itertools.product(range(trunc), repeat=4):
        if case["gate"] in ("BSgate", "MZgate"):
            keep = (i1 + i2 == o1 + o2)        # photon number conserved
        else:
            keep = (i1 - o1 == i2 - o2)        # S2gate: photon-number difference conserved
        if keep:
            eff[o1, i1, o2, i2] = mat[o1, i1, o2, i2]
    return eff


def _apply_on_axes(mat, state, axes):
    """contract the 'in' axes of mat (odd positions) with `axes` of state; put the 'out' axes there, in that order"""
    k = len(axes)
    res = np.tensordot(mat, state, axes=([2 * i + 1 for i in range(k)], list(axes)))
    return np.moveaxis(res, list(range(k)), list(axes))


def reference(case, state=None):
    """'mat on those modes in that order' computed independently of Circuit (tensordot + moveaxis)."""
    st = dec(case["state"]) if state is None else state
    n = case["n"]
    modes = list(case["modes"])
    if case["op"] in ("gate", "twomode"):
        m = _effective_matrix(case)
        if case["pure"]:
            return _apply_on_axes(m, st, modes)
        r = _apply_on_axes(m, st, [2 * x for x in modes])
        return _apply_on_axes(m.conj(), r, [2 * x + 1 for x in modes])
    if case["op"] == "channel":
        if case["pure"]:
            st = _ref_mix(st, n)
        out = np.zeros_like(st)
        for kk in case["kraus"]:
            m = dec(kk)
            r = _apply_on_axes(m, st, [2 * x for x in modes])
            out = out + _apply_on_axes(m.conj(), r, [2 * x + 1 for x in modes])
        return out
    raise ValueError(case["op"])


def _ref_ptrace(rho, n, modes):
    """trace out `modes` of a 2n-axis density tensor, highest mode first (np.trace on the (row, col) axis pair)"""
    for m in sorted(set(modes), reverse=True):
        if 0 <= m < n:
            rho = np.trace(rho, axis1=2 * m, axis2=2 * m + 1)
    return rho


def reference_other(case):
    """independent references for mix / ptrace / prepare / alloc / dealloc; returns (flag_or_None, array)"""
    op = case["op"]
    n, trunc = case["n"], case["trunc"]
    st = dec(case["state"])
    if op == "mix":
        return None, _ref_mix(st, n)
    if op == "ptrace":
        return None, _ref_ptrace(st, n, case["modes"])
    if op == "dealloc":
        rho = _ref_mix(st, n) if case["pure"] else st
        return None, _ref_ptrace(rho, n, case["modes"])
    if op == "alloc":
        k = case["k"]
        vac = np.zeros([trunc] * (k if case["pure"] else 2 * k), dtype=np.complex128)
        vac[(0,) * vac.ndim] = 1
        return None, np.multiply.outer(st, vac)
    if op == "prepare":
        modes = list(case["modes"])
        k = len(modes)
        prep = dec(case["prep"])
        if n == k:
            pure_out = bool(case["prep_pure"])
            src = modes if pure_out else [x for m in modes for x in (2 * m, 2 * m + 1)]
            return pure_out, np.moveaxis(prep, list(range(prep.ndim)), src)
        rho = _ref_mix(st, n) if case["pure"] else st
        pm = _ref_mix(prep, k) if case["prep_pure"] else prep
        red = _ref_ptrace(rho, n, modes)
        spect = [x for x in range(n) if x not in modes]
        outer = np.multiply.outer(red, pm)
        dest = [x for m in spect + modes for x in (2 * m, 2 * m + 1)]
        return False, np.moveaxis(outer, list(range(2 * n)), dest)
    raise ValueError(op)


def wrong_other(case):
    try:
        o = run_impl(case)
    except Exception as ex:
        return "raises %s: %s" % (type(ex).__name__, ex)
    flag, out = o if isinstance(o, tuple) else (None, o)
    rflag, ref = reference_other(case)
    if flag != rflag:
        return "purity flag %s instead of %s" % (flag, rflag)
    if out.shape != ref.shape:
        return "shape %s instead of %s" % (out.shape, ref.shape)
    if not np.array_equal(out, ref):
        bad = np.argwhere(out != ref)
        return "%d of %d entries differ from the independent reference (first at %s)" % (len(bad), out.size, bad[0].tolist())
    return None


def _ref_mix(st, n):
    out = np.multiply.outer(st, st.conj())  # axes a1..an b1..bn
    order = [x for i in range(n) for x in (i, n + i)]
    return np.transpose(out, order)


def target_axes(case):
    if case.get("pure", True) and case["op"] != "channel":
        return list(case["modes"])
    return [2 * x for x in case["modes"]] + [2 * x + 1 for x in case["modes"]]


def locality_violation(case, rng_seed=0, probes=8):
    """C05 predicate on the implementation: feed basis tensors delta_e; every non-zero output entry must agree with e
    on every non-target axis (so the output at idx depends only on inputs agreeing with idx off the targets, and
    spectator axes are not permuted).  Returns a description or None."""
    import random
    rng = random.Random(rng_seed)
    pure_in = case["pure"]
    n, trunc = case["n"], case["trunc"]
    rank = n if pure_in else 2 * n
    if case["op"] == "channel" and pure_in:
        return None  # quadratic in psi; the mixed-input form is probed instead
    tax = set(target_axes(case))
    allidx = list(itertools.product(range(trunc), repeat=rank))
    es = rng.sample(allidx, min(probes, len(allidx)))
    for e in es:
        d = np.zeros([trunc] * rank, dtype=np.complex128)
        d[e] = 1 + 2j
        try:
            out = run_impl(case, state=d)
        except Exception as ex:  # pragma: no cover
            return "raises %s on a basis tensor" % type(ex).__name__
        for idx in zip(*np.nonzero(out)):
            off = [a for a in range(rank) if a not in tax and idx[a] != e[a]]
            if off:
                return "input entry %s influences output entry %s which differs on non-target axes %s" % (list(e), [int(x) for x in idx], off)
    return None


def wrong_action(case):
    """C01 predicate: does the implementation differ from the independent reference on the case's own state?"""
    try:
        out = run_impl(case)
    except Exception as ex:
        return "raises %s: %s" % (type(ex).__name__, ex)
    ref = reference(case)
    if out.shape != ref.shape:
        return "shape %s instead of %s" % (out.shape, ref.shape)
    if not np.array_equal(out, ref):
        bad = np.argwhere(out != ref)
        return "%d of %d entries differ from the operator applied to modes %s in that order (first at %s)" % (
            len(bad), out.size, case["modes"], bad[0].tolist())
    return None


# ---------------------------------------------------------------------------------------------- case generation

def gen_cases(ctx):
    rng = ctx.rng
    thorough = not ctx.quick
    cases = []

    def entries(n, trunc, pure):
        return trunc ** (n if pure else 2 * n)

    cap = 6600 if thorough else 800
    # apply_gate_BLAS
    for trunc in (2, 3):
        for n in (1, 2, 3, 4):
            for size in (1, 2, 3):
                if size > n or (size == 3 and (trunc == 3 or not thorough)):
                    continue
                for modes in itertools.permutations(range(n), size):
                    for pure in (True, False):
                        if entries(n, trunc, pure) > cap:
                            continue
                        if entries(n, trunc, pure) > 800 and rng.random() < 0.75:
                            continue
                        for kind in ("general", "diag"):
                            cases.append({"op": "gate", "pure": pure, "n": n, "trunc": trunc, "modes": list(modes), "matkind": kind,
                                          "mat": enc(rand_gate_matrix(rng, trunc, size, kind)),
                                          "state": enc(rand_tensor(rng, [trunc] * (n if pure else 2 * n)))})
    # apply_twomode_gate
    for trunc in (2, 3):
        for n in (2, 3, 4):
            for modes in itertools.permutations(range(n), 2):
                for pure in (True, False):
                    if entries(n, trunc, pure) > cap:
                        continue
                    if entries(n, trunc, pure) > 800 and rng.random() < 0.75:
                        continue
                    gates = ["BSgate", "S2gate"] + (["MZgate"] if thorough else [])
                    for gate in gates:
                        cases.append({"op": "twomode", "pure": pure, "n": n, "trunc": trunc, "modes": list(modes), "gate": gate,
                                      "mat": enc(rand_tensor(rng, [trunc] * 4, -2, 2)),
                                      "state": enc(rand_tensor(rng, [trunc] * (n if pure else 2 * n)))})
    # _apply_channel (two Kraus operators, one general one diagonal; plus the empty list)
    for trunc in (2, 3):
        for n in (1, 2, 3):
            for size in (1, 2):
                if size > n:
                    continue
                for modes in itertools.permutations(range(n), size):
                    for pure in (True, False):
                        if trunc ** (2 * n) > cap or (trunc == 3 and size == 2 and not thorough and rng.random() < 0.5):
                            continue
                        kraus = [enc(rand_gate_matrix(rng, trunc, size, kd)) for kd in ("general", "diag")]
                        if rng.random() < 0.1:
                            kraus = []
                        cases.append({"op": "channel", "pure": pure, "n": n, "trunc": trunc, "modes": list(modes), "kraus": kraus,
                                      "state": enc(rand_tensor(rng, [trunc] * (n if pure else 2 * n), -2, 2))})
    # ops.mix
    for trunc in (2, 3):
        for n in (1, 2, 3):
            cases.append({"op": "mix", "n": n, "trunc": trunc, "state": enc(rand_tensor(rng, [trunc] * n))})
    # ops.partial_trace / dealloc
    for trunc in (2, 3):
        for n in (1, 2, 3):
            if trunc ** (2 * n) > cap:
                continue
            for size in range(0, n + 1):
                for modes in itertools.permutations(range(n), size):
                    if list(modes) != sorted(modes) and rng.random() < 0.5:
                        continue
                    cases.append({"op": "ptrace", "n": n, "trunc": trunc, "modes": list(modes),
                                  "state": enc(rand_tensor(rng, [trunc] * (2 * n)))})
                    if size >= 1:
                        pure = rng.random() < 0.5
                        cases.append({"op": "dealloc", "pure": pure, "n": n, "trunc": trunc, "modes": list(modes),
                                      "state": enc(rand_tensor(rng, [trunc] * (n if pure else 2 * n), -2, 2))})
    # alloc
    for trunc in (2, 3):
        for n in (1, 2):
            for k in (1, 2):
                for pure in (True, False):
                    cases.append({"op": "alloc", "pure": pure, "n": n, "k": k, "trunc": trunc,
                                  "state": enc(rand_tensor(rng, [trunc] * (n if pure else 2 * n)))})
    # prepare_multimode
    for trunc in (2, 3):
        for n in (1, 2, 3):
            if trunc ** (2 * n) > cap:
                continue
            for size in range(1, n + 1):
                for modes in itertools.permutations(range(n), size):
                    for pure in (True, False):
                        for prep_pure in (True, False):
                            if trunc == 3 and not thorough and rng.random() < 0.5:
                                continue
                            cases.append({"op": "prepare", "pure": pure, "prep_pure": prep_pure, "n": n, "trunc": trunc, "modes": list(modes),
                                          "prep": enc(rand_tensor(rng, [trunc] * (size if prep_pure else 2 * size), -2, 2)),
                                          "state": enc(rand_tensor(rng, [trunc] * (n if pure else 2 * n), -2, 2))})
    return cases


def nontrivial(case):
    m = list(case.get("modes", []))
    return m != list(range(len(m)))


# ---------------------------------------------------------------------------------------------- model side

HEADER = """From Coq Require Import List Arith Bool ZArith.
Import ListNotations.
From SFV Require Import FockAxes.Model FockAxes.Exec.
Definition L (a b : Z) : tree := Leaf (a, b).
"""


def coq_case(case, i, out, flag=None):
    """Coq text defining r<i> : list (list nat * C) = positions where the model differs from `out`."""
    op = case["op"]
    n, trunc = case["n"], case["trunc"]
    t = ["Definition st%d : tree := %s." % (i, coq_tree(dec(case["state"])))]
    t.append("Definition ex%d : tree := %s." % (i, coq_tree(out)))
    rank = out.ndim
    modes = coq_nats(case.get("modes", []))
    if op == "gate":
        size = len(case["modes"])
        t.append("Definition mat%d : tree := %s." % (i, coq_tree(dec(case["mat"]))))
        if case["pure"]:
            model = "apply_gate_pure (F_gate (tget mat%d) %d %d) %d %s (tget st%d)" % (i, size, trunc, n, modes, i)
        else:
            model = "apply_gate_mixed (G_gate (tget mat%d) %d %d) %d %s (tget st%d)" % (i, size, trunc, n, modes, i)
    elif op == "twomode":
        t.append("Definition mat%d : tree := %s." % (i, coq_tree(dec(case["mat"]))))
        kern = "F_S2" if case["gate"] == "S2gate" else "F_passive"
        a, b = case["modes"]
        if case["pure"]:
            model = "apply_twomode_pure (%s (tget mat%d) %d) %d %d %d (tget st%d)" % (kern, i, trunc, n, a, b, i)
        else:
            model = "apply_twomode_mixed (%s (tget mat%d) %d) (%s (conj_tensor (tget mat%d)) %d) %d %d %d (tget st%d)" % (
                kern, i, trunc, kern, i, trunc, n, a, b, i)
    elif op == "channel":
        size = len(case["modes"])
        gs = []
        for q, kk in enumerate(case["kraus"]):
            t.append("Definition k%d_%d : tree := %s." % (i, q, coq_tree(dec(kk))))
            gs.append("G_gate (tget k%d_%d) %d %d" % (i, q, size, trunc))
        gl = "[" + "; ".join(gs) + "]"
        if case["pure"]:
            model = "apply_channel_from_pure cmul cadd cconj czero %s %d %s (tget st%d)" % (gl, n, modes, i)
        else:
            model = "apply_channel cadd czero %s %d %s (tget st%d)" % (gl, n, modes, i)
    elif op == "mix":
        model = "mix cmul cconj %d (tget st%d)" % (n, i)
    elif op == "ptrace":
        model = "partial_trace %d %d %s (tget st%d)" % (trunc, n, modes, i)
    elif op == "dealloc":
        model = "dealloc %s %d %d %s (tget st%d)" % (coq.coq_bool(case["pure"]), trunc, n, modes, i)
    elif op == "alloc":
        model = "alloc %s %d (tget st%d)" % (coq.coq_bool(case["pure"]), n, i)
    elif op == "prepare":
        t.append("Definition pr%d : tree := %s." % (i, coq_tree(dec(case["prep"]))))
        t.append("Definition m%d := prepare_multimode %s %s %d %d %s (tget st%d) (tget pr%d)." % (
            i, coq.coq_bool(case["pure"]), coq.coq_bool(case["prep_pure"]), trunc, n, modes, i, i))
        t.append("Definition r%d := if Bool.eqb (fst m%d) %s then mismatches (snd m%d) ex%d %d %d else [([], czero)]." % (
            i, i, coq.coq_bool(flag), i, i, trunc, rank))
        return "\n".join(t)
    else:
        raise ValueError(op)
    t.append("Definition r%d := mismatches (%s) ex%d %d %d." % (i, model, i, trunc, rank))
    return "\n".join(t)


def signature(case):
    op = case["op"]
    if op == "gate":
        return "fock-axes:apply_gate_BLAS:%s" % ("pure" if case["pure"] else "mixed")
    if op == "twomode":
        return "fock-axes:twomode:%s" % ("pure" if case["pure"] else "mixed")
    if op == "channel":
        return "fock-axes:apply_channel:%s" % ("pure" if case["pure"] else "mixed")
    return "fock-axes:%s" % op


def small(case):
    return {k: v for k, v in case.items()}


def correspondence_fock_axes(ctx):
    JIT_MAX_NDIM[0] = 2 if ctx.quick else 4
    cases = gen_cases(ctx)
    outs = []
    for c in cases:
        ctx.case({k: c[k] for k in c if k not in ("state", "mat", "kraus", "prep")}, nontrivial=nontrivial(c),
                 bucket="fock-axes:%s:%s" % (c["op"], "pure" if c.get("pure", True) else "mixed"))
        try:
            o = run_impl(c)
            if not is_integral(o[1] if isinstance(o, tuple) else o):
                raise ArithmeticError("non-integral output")
        except Exception as ex:
            ctx.counterexample(signature(c) + ":raises:" + type(ex).__name__, "%s raised %r on %s" % (c["op"], ex, {k: c[k] for k in ("n", "trunc", "modes") if k in c}),
                               {"check": "fock-axes", "case": small(c)})
            o = None
        outs.append(o)
    # model evaluation, sharded by cost
    todo = [(i, c, o) for i, (c, o) in enumerate(zip(cases, outs)) if o is not None]
    flags = {i: o[0] for i, c, o in todo if isinstance(o, tuple)}
    todo = [(i, c, o[1] if isinstance(o, tuple) else o) for i, c, o in todo]
    todo.sort(key=lambda x: -x[2].size)
    nshards = 12
    shards = [[] for _ in range(nshards)]
    load = [0] * nshards
    for item in todo:
        k = load.index(min(load))
        shards[k].append(item)
        load[k] += item[2].size * (40 if not item[1].get("pure", True) else 10) + 200 + (item[2].size * 30 if item[1]["op"] in ("prepare", "dealloc", "ptrace") else 0)
    shards = [s for s in shards if s]

    def run_shard(si):
        sh = shards[si]
        text = [HEADER]
        for i, c, o in sh:
            text.append(coq_case(c, i, o, flags.get(i)))
        text.append("Eval vm_compute in [%s]." % "; ".join("r%d" % i for i, _, _ in sh))
        return coq.eval_file(ctx.work, "fockaxes_%d" % si, "\n".join(text), timeout=900)

    with ThreadPoolExecutor(max_workers=min(12, len(shards) or 1)) as ex:
        results = list(ex.map(run_shard, range(len(shards))))
    for si, (ok, vals, raw) in enumerate(results):
        ctx.checker_cmds.append("coqc -Q coq SFV .work/%s/fockaxes_%d.v" % (ctx.prop, si))
        if not ok or not vals or len(vals[0]) != len(shards[si]):
            ctx.obligation("correspondence:fock-axes:shard%d" % si, False, raw[-2500:])
            continue
        for (i, c, o), mism in zip(shards[si], vals[0]):
            ctx.traces += 1
            if mism:
                report_mismatch(ctx, c, mism)
    ctx.obligation("correspondence:fock-axes", all(r[0] for r in results), "")


def report_mismatch(ctx, c, mism):
    """model != implementation: evaluate the properties' own predicates on the implementation first"""
    sig = signature(c)
    data = {"check": "fock-axes", "case": small(c), "model_differs_at": [[list(m[0]), list(m[1])] for m in mism[:5]]}
    found = False
    if c["op"] in ("gate", "twomode", "channel"):
        loc = locality_violation(c)
        if loc:
            found = True
            ctx.counterexample(sig + ":nonlocal", "%s on modes %s of a %d-mode %s register (cutoff %d) is not local: %s" % (
                c["op"], c["modes"], c["n"], "pure" if c["pure"] else "mixed", c["trunc"], loc), dict(data, predicate="locality"))
        wa = wrong_action(c)
        if wa:
            found = True
            ctx.counterexample(sig + ":wrong-axes", "%s on modes %s of a %d-mode %s register (cutoff %d): %s" % (
                c["op"], c["modes"], c["n"], "pure" if c["pure"] else "mixed", c["trunc"], wa), dict(data, predicate="reference"))
    else:
        wo = wrong_other(c)
        if wo:
            found = True
            ctx.counterexample(sig + ":wrong-axes", "%s (modes %s, n=%d, cutoff %d): %s" % (c["op"], c.get("modes"), c["n"], c["trunc"], wo),
                               dict(data, predicate="reference"))
    if not found:
        ctx.disagreement(sig, "model and implementation of %s differ on modes %s, n=%d, cutoff %d (%d entries)" % (
            c["op"], c.get("modes"), c["n"], c["trunc"], len(mism)), data)


def replay_fock_axes(ctx, data):
    d = data.get("data", data)
    if d.get("check") != "fock-axes":
        return False
    c = d["case"]
    pred = d.get("predicate")
    if pred == "locality":
        r = locality_violation(c)
    elif pred == "reference":
        r = wrong_action(c) if c["op"] in ("gate", "twomode", "channel") else wrong_other(c)
    else:
        r = None
        if c["op"] in ("gate", "twomode", "channel"):
            r = locality_violation(c) or wrong_action(c)
        else:
            r = wrong_other(c)
    print(r)
    return bool(r)
