"""C18 — programs reported equal or equivalent really compute the same thing."""
import copy
import math

import numpy as np

from vlib import coq, sfgen

PROP = "C18"
LEVEL = "proof"
COQ_TARGETS = ["Base/Reorder.vo", "C18/Model.vo", "C18/Proofs.vo"]
PROPERTIES_FILE = "Properties/C18.v"
ALLOWED_AXIOMS = set()
RULE = ("pairs (p, q): q derived from a random Gaussian program p by identity / prefix / extension / dagger flip / "
        "parameter change / mode change / class change / swap of adjacent independent commands / mode relabelling; "
        "non-trivial = q differs from p only in length, dagger, or order of commuting commands")
TRUSTED_BASE = [
    "Coq 8.16.1 kernel; vm_compute for evaluating the model on cases",
    "hand-written model coq/C18/Model.v of Program.__eq__ and coq/C18/Equiv.v of program_equivalence's labelling, tied by exact correspondence on generated pairs",
    "harness: tools/props/c18.py, tools/vlib/sfgen.py; gaussian backend used as the oracle for 'computes the same thing'",
    "networkx is_isomorphic (library) is observed, not modelled",
]
MANIFEST_TEXT = ("Proved: Program.__eq__ (model of the repaired comparison) returns True only for structurally identical programs (every command, class, "
                 "parameters, modes, dagger flag, lengths), is reflexive and symmetric; swapping adjacent independent commands leaves the dependency DAG — hence "
                 "program_equivalence's verdict — unchanged. That 'equivalent' implies 'same state' is checked by search (two recorded findings: mode relabelling).")
ASSUMPTIONS = ["parameters are numeric in generated pairs; '==' on them is modelled by equality of value ids"]

NAMES = sorted(sfgen.ALL)


SPECIAL_BS = [[math.pi / 4, 0.0], [math.pi / 4, math.pi / 2], [math.pi / 4, 0.3], [0.3, math.pi / 2], [math.pi / 4, math.pi], [3 * math.pi / 4, 0.0]]


def mutate(rng, spec):
    """Return (kind, q) with q a variant of spec."""
    q = copy.deepcopy(spec)
    cm = q["cmds"]
    # sprinkle beamsplitters at / near the parameter values the equivalence test treats specially
    if q["n"] >= 2 and rng.random() < 0.35:
        a, b = rng.sample(range(q["n"]), 2)
        c = ["BSgate", list(rng.choice(SPECIAL_BS)), [a, b], False]
        cm.insert(rng.randint(0, len(cm)), c)
        spec["cmds"].insert(cm.index(c), copy.deepcopy(c))
    kinds = ["same", "prefix", "extend", "dagger", "param", "modes", "class", "swap", "relabel", "dropmid"]
    kind = rng.choice(kinds)
    if kind == "prefix" and cm:
        del cm[rng.randrange(len(cm)):]
    elif kind == "extend":
        cm.append(sfgen.random_cmd(rng, q["n"], list(sfgen.GAUSSIAN_GATES)))
    elif kind == "dagger" and cm:
        i = rng.randrange(len(cm))
        cm[i][3] = not cm[i][3]
    elif kind == "param" and cm:
        idx = [i for i, c in enumerate(cm) if c[1]]
        if idx:
            i = rng.choice(idx)
            j = rng.randrange(len(cm[i][1]))
            # large and tiny perturbations: comparison must not round parameters
            cm[i][1][j] = cm[i][1][j] + rng.choice([0.5, -0.25, 1e-3, 2e-5, 3e-6, -4e-6])
        else:
            kind = "same"
    elif kind == "modes" and cm and q["n"] >= 2:
        two = [k for k, c in enumerate(cm) if len(c[2]) == 2]
        i = rng.choice(two) if two and rng.random() < 0.6 else rng.randrange(len(cm))
        if len(cm[i][2]) == 2 and rng.random() < 0.7:
            cm[i][2] = list(reversed(cm[i][2]))
            return kind, q
        nm = len(cm[i][2])
        new = rng.sample(range(q["n"]), nm)
        if new == cm[i][2]:
            new = list(reversed(new)) if nm == 2 else [(new[0] + 1) % q["n"]]
        cm[i][2] = new
    elif kind == "class" and cm:
        i = rng.randrange(len(cm))
        nm, np_ = len(cm[i][2]), len(cm[i][1])
        alts = [n for n, (m, ks) in sfgen.GAUSSIAN_GATES.items() if m == nm and len(ks) == np_ and n != cm[i][0]]
        if alts:
            cm[i][0] = rng.choice(alts)
        else:
            kind = "same"
    elif kind == "swap" and len(cm) >= 2:
        cand = [i for i in range(len(cm) - 1) if not set(cm[i][2]) & set(cm[i + 1][2])]
        if cand:
            i = rng.choice(cand)
            cm[i], cm[i + 1] = cm[i + 1], cm[i]
        else:
            kind = "same"
    elif kind == "relabel" and q["n"] >= 2:
        perm = list(range(q["n"]))
        rng.shuffle(perm)
        for c in cm:
            c[2] = [perm[m] for m in c[2]]
    elif kind == "dropmid" and len(cm) >= 2:
        del cm[rng.randrange(len(cm) - 1)]
    else:
        kind = "same"
    return kind, q


def enc_prog(spec, pid):
    def enc_cmd(c):
        name, params, modes, dag = c
        return "mkCmd %d %s %s %s" % (
            NAMES.index(name), coq.coq_list([pid(p) for p in params], coq.coq_Z),
            coq.coq_list(modes, str), coq.coq_bool(dag))
    reg = coq.coq_list(["(%d, true)" % i for i in range(spec["n"])])
    return "(mkProg None %s %s)" % (reg, coq.coq_list([enc_cmd(c) for c in spec["cmds"]], lambda s: "(%s)" % s))


def same_state(p, q):
    try:
        return sfgen.states_close(sfgen.run_gaussian(p), sfgen.run_gaussian(q))
    except Exception:
        return None


def classify(kind, p, q):
    return kind


def correspondence(ctx):
    rng = ctx.rng
    n_cases = ctx.budget(400, 4000)
    pairs = []
    for _ in range(n_cases):
        p = sfgen.random_spec(rng, max_n=3, max_cmds=6, exact=rng.random() < 0.5)
        kind, q = mutate(rng, p)
        pairs.append((kind, p, q))
    # implementation
    impl_eq = []
    for kind, p, q in pairs:
        P, Q = sfgen.build_program(p), sfgen.build_program(q)
        r1, r2 = bool(P == Q), bool(Q == P)
        rr = bool(P == P)
        impl_eq.append((r1, r2, rr))
        ctx.case({"kind": kind, "p": p, "q": q, "impl_eq": r1}, nontrivial=kind in ("prefix", "extend", "dagger", "swap", "dropmid"), bucket=kind)
    # model
    shards = [pairs[i:i + 400] for i in range(0, len(pairs), 400)]
    model_eq = []
    for si, sh in enumerate(shards):
        lines = ["From Coq Require Import List ZArith Bool.", "Import ListNotations.", "From SFV Require Import C18.Model.",
                 "Definition cases : list (prog * prog) := ["]
        items = []
        for kind, p, q in sh:
            table = {}
            pid = lambda v: table.setdefault(repr(v), len(table))
            items.append("(%s, %s)" % (enc_prog(p, pid), enc_prog(q, pid)))
        lines.append(";\n".join(items) + "].")
        lines.append("Eval vm_compute in map (fun c => (prog_eq (fst c) (snd c), prog_eq (snd c) (fst c), prog_eq (fst c) (fst c))) cases.")
        ok, vals, raw = ctx.coq_eval("cases_eq_%d" % si, "\n".join(lines))
        if not ok:
            ctx.obligation("correspondence:prog_eq:shard%d" % si, False, raw)
            return
        model_eq.extend(vals[0])
    ctx.traces += len(pairs)
    for (kind, p, q), ie, me in zip(pairs, impl_eq, model_eq):
        if tuple(ie) != tuple(me):
            # tie broken; decide whether the implementation violates the property on this pair
            sig = "eq:" + kind
            if ie[0] or ie[1]:
                ss = same_state(p, q)
                if ss is False or (ie[0] != ie[1]):
                    ctx.counterexample(sig, "Program.__eq__ reports equal (p==q: %s, q==p: %s) for programs that differ by '%s' and give different states" % (ie[0], ie[1], kind),
                                       {"check": "eq", "kind": kind, "p": p, "q": q, "impl": list(ie), "model": list(me)})
                    continue
            if not ie[2]:
                ctx.counterexample("eq:irreflexive", "p == p is False", {"check": "eq", "kind": "same", "p": p, "q": p})
                continue
            ctx.disagreement("corr:" + sig, "model prog_eq %s vs implementation %s on a '%s' pair" % (list(me), list(ie), kind),
                             {"check": "eq", "kind": kind, "p": p, "q": q, "impl": list(ie), "model": list(me)})


def search(ctx):
    """Property predicate on the implementation: reported equal/equivalent => same state;
    reflexive, symmetric; swapping adjacent independent commands preserves equivalence."""
    rng = ctx.rng
    n_cases = ctx.budget(250, 2500)
    for _ in range(n_cases):
        p = sfgen.random_spec(rng, max_n=3, max_cmds=6, exact=rng.random() < 0.3)
        kind, q = mutate(rng, p)
        P, Q = sfgen.build_program(p), sfgen.build_program(q)
        data = {"check": "equiv", "kind": kind, "p": p, "q": q}
        try:
            e1, e2 = bool(P.equivalence(Q)), bool(Q.equivalence(P))
            er = bool(P.equivalence(sfgen.build_program(p)))
        except Exception as e:
            ctx.counterexample("equiv:raises:" + type(e).__name__, "equivalence raised %r" % e, data)
            continue
        ctx.case({"kind": kind, "p": p, "q": q, "impl_equiv": e1}, nontrivial=kind in ("prefix", "extend", "dagger", "swap", "dropmid", "relabel"), bucket="equiv-" + kind)
        if e1 != e2:
            ctx.counterexample("equiv:asymmetric", "equivalence is not symmetric on a '%s' pair" % kind, data)
        if not er:
            ctx.counterexample("equiv:irreflexive", "a program is not equivalent to a rebuilt copy of itself", data)
        if kind == "swap" and not e1:
            ctx.counterexample("equiv:swap-breaks", "swapping adjacent commands on disjoint modes made programs inequivalent", data)
        if e1 and kind != "same":
            ss = same_state(p, q)
            if ss is False:
                sig = kind
                if kind == "modes":
                    diff = [(a, b) for a, b in zip(p["cmds"], q["cmds"]) if a != b]
                    if diff and sorted(diff[0][0][2]) == sorted(diff[0][1][2]):
                        sig = "modes-order"  # same mode set, order reversed: the labelling is meant to see this
                ctx.counterexample("equiv:" + sig, "equivalence reports True for programs that differ by '%s' and give different states" % kind, data)


_search_random = search


def search(ctx):
    """Random pairs, plus a sweep over two-mode gates at the parameter values the equivalence test treats specially:
    the same program with the gate's modes reversed must not be reported equivalent unless the states agree."""
    _search_random(ctx)
    rng = ctx.rng
    specials = [["BSgate", p_] for p_ in SPECIAL_BS] + [["CXgate", [0.0]], ["CXgate", [0.4]], ["MZgate", [0.3, 0.2]], ["S2gate", [0.3, 0.1]], ["CZgate", [0.3]]]
    for name, params in specials:
        for rep in range(ctx.budget(2, 8)):
            n = rng.randint(2, 3)
            a, b = rng.sample(range(n), 2)
            pre = [sfgen.random_cmd(rng, n, list(sfgen.GAUSSIAN_GATES)) for _ in range(rng.randint(1, 3))]
            post = [sfgen.random_cmd(rng, n, list(sfgen.GAUSSIAN_GATES)) for _ in range(rng.randint(0, 2))]
            p = {"n": n, "cmds": pre + [[name, list(params), [a, b], False]] + post}
            q = {"n": n, "cmds": pre + [[name, list(params), [b, a], False]] + post}
            data = {"check": "equiv", "kind": "modes", "p": p, "q": q}
            try:
                e1 = bool(sfgen.build_program(p).equivalence(sfgen.build_program(q)))
            except Exception as e:
                ctx.counterexample("equiv:raises:" + type(e).__name__, "equivalence raised %r" % e, data)
                continue
            ctx.case({"sweep": name, "params": params, "equiv": e1}, nontrivial=True, bucket="sweep-" + name)
            if e1 and same_state(p, q) is False:
                ctx.counterexample("equiv:modes-order", "equivalence reports True although %s%s acts on reversed modes and the states differ" % (name, params), data)


def replay(ctx, data):
    d = data["data"]
    p, q = d["p"], d["q"]
    P, Q = sfgen.build_program(p), sfgen.build_program(q)
    if d.get("check") == "eq":
        r = bool(P == Q) or bool(Q == P)
        print("impl p==q:", bool(P == Q), "q==p:", bool(Q == P))
    else:
        r = bool(P.equivalence(Q))
        print("impl equivalence:", r)
    ss = same_state(p, q)
    print("same gaussian state:", ss)
    return bool(r and ss is False)
