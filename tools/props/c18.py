"""C18 — programs reported equal or equivalent really compute the same thing."""
import copy
import math

import numpy as np

from vlib import coq, sfgen

PROP = "C18"
LEVEL = "proof"
COQ_TARGETS = ["Base/Reorder.vo", "C18/Model.vo", "C18/Proofs.vo"]
PROPERTIES_FILE = "Properties/C18.v"
ALLOWED_AXIOMS = set()
RULE = ("pairs (p, q): q derived from a random Gaussian program p by identity / prefix / extension / dagger flip / "
        "parameter change / mode change / class change / swap of adjacent independent commands / mode relabelling; "
        "non-trivial = q differs from p only in length, dagger, or order of commuting commands")
TRUSTED_BASE = [
    "Coq 8.16.1 kernel; vm_compute for evaluating the model on cases",
    "hand-written model coq/C18/Model.v of Program.__eq__ and coq/C18/Equiv.v of program_equivalence's labelling, tied by exact correspondence on generated pairs",
    "harness: tools/props/c18.py, tools/vlib/sfgen.py; gaussian backend used as the oracle for 'computes the same thing'",
    "networkx is_isomorphic (library) is observed, not modelled",
]
MANIFEST_TEXT = ("Proved: Program.__eq__ (model of the repaired comparison) returns True only for structurally identical programs (every command, class, "
                 "parameters, modes, dagger flag, lengths), is reflexive and symmetric; swapping adjacent independent commands leaves the dependency DAG — hence "
                 "program_equivalence's verdict — unchanged. That 'equivalent' implies 'same state' is checked by search (two recorded findings: mode relabelling).")
ASSUMPTIONS = ["parameters are numeric in generated pairs; '==' on them is modelled by equality of value ids"]

NAMES = sorted(sfgen.ALL)


SPECIAL_BS = [[math.pi / 4, 0.0], [math.pi / 4, math.pi / 2], [math.pi / 4, 0.3], [0.3, math.pi / 2], [math.pi / 4, math.pi], [3 * math.pi / 4, 0.0]]


def mutate(rng, spec):
    """Return (kind, q) with q a variant of spec."""
    q = copy.deepcopy(spec)
    cm = q["cmds"]
    # sprinkle beamsplitters at / near the parameter values the equivalence test treats specially
    if q["n"] >= 2 and rng.random() < 0.35:
        a, b = rng.sample(range(q["n"]), 2)
        c = ["BSgate", list(rng.choice(SPECIAL_BS)), [a, b], False]
        cm.insert(rng.randint(0, len(cm)), c)
        spec["cmds"].insert(cm.index(c), copy.deepcopy(c))
    # a post-selected measurement somewhere (its select value is not in op.p: both comparisons must still see it)
    if rng.random() < 0.3:
        c = sfgen.random_cmd(rng, q["n"], list(sfgen.MEASURE_SEL), 0.0)
        pos = rng.randint(0, len(cm))
        cm.insert(pos, c)
        spec["cmds"].insert(pos, copy.deepcopy(c))
    kinds = ["same", "prefix", "extend", "dagger", "param", "modes", "class", "swap", "relabel", "dropmid", "select"]
    kind = rng.choice(kinds)
    if kind == "select":
        idx = [i for i, c in enumerate(cm) if c[0] in sfgen.MEASURE_SEL]
        if not idx:
            kind = "same"
        else:
            i = rng.choice(idx)
            cm[i][1][-1] = cm[i][1][-1] + rng.choice([0.5, -0.3, 1e-3])
        return kind, q
    if kind == "prefix" and cm:
        del cm[rng.randrange(len(cm)):]
    elif kind == "extend":
        cm.append(sfgen.random_cmd(rng, q["n"], list(sfgen.GAUSSIAN_GATES)))
    elif kind == "dagger" and [c for c in cm if c[0] in sfgen.GAUSSIAN_GATES]:
        i = rng.choice([k for k, c in enumerate(cm) if c[0] in sfgen.GAUSSIAN_GATES])  # only gates have an inverse form
        cm[i][3] = not cm[i][3]
    elif kind == "param" and cm:
        idx = [i for i, c in enumerate(cm) if c[1]]
        if idx:
            i = rng.choice(idx)
            j = rng.randrange(len(cm[i][1]))
            # large and tiny perturbations: comparison must not round parameters
            cm[i][1][j] = cm[i][1][j] + rng.choice([0.5, -0.25, 1e-3, 2e-5, 3e-6, -4e-6])
        else:
            kind = "same"
    elif kind == "modes" and cm and q["n"] >= 2:
        two = [k for k, c in enumerate(cm) if len(c[2]) == 2]
        i = rng.choice(two) if two and rng.random() < 0.6 else rng.randrange(len(cm))
        if len(cm[i][2]) == 2 and rng.random() < 0.7:
            cm[i][2] = list(reversed(cm[i][2]))
            return kind, q
        nm = len(cm[i][2])
        new = rng.sample(range(q["n"]), nm)
        if new == cm[i][2]:
            new = list(reversed(new)) if nm == 2 else [(new[0] + 1) % q["n"]]
        cm[i][2] = new
    elif kind == "class" and cm:
        i = rng.randrange(len(cm))
        nm, np_ = len(cm[i][2]), len(cm[i][1])
        alts = [n for n, (m, ks) in sfgen.GAUSSIAN_GATES.items() if m == nm and len(ks) == np_ and n != cm[i][0]]
        if alts:
            cm[i][0] = rng.choice(alts)
        else:
            kind = "same"
    elif kind == "swap" and len(cm) >= 2:
        cand = [i for i in range(len(cm) - 1) if not set(cm[i][2]) & set(cm[i + 1][2])]
        if cand:
            i = rng.choice(cand)
            cm[i], cm[i + 1] = cm[i + 1], cm[i]
        else:
            kind = "same"
    elif kind == "relabel" and q["n"] >= 2:
        perm = list(range(q["n"]))
        rng.shuffle(perm)
        for c in cm:
            c[2] = [perm[m] for m in c[2]]
    elif kind == "dropmid" and len(cm) >= 2:
        del cm[rng.randrange(len(cm) - 1)]
    else:
        kind = "same"
    return kind, q


def enc_prog(spec, pid):
    def enc_cmd(c):
        name, params, modes, dag = c
        opts = []
        if name == "MeasureHomodyneSel":      # MeasureHomodyne(phi, select=v): p = [phi], option select
            params, opts = params[:1], [pid(("select", params[1]))]
        elif name == "MeasureHeterodyneSel":  # MeasureHeterodyne(select=re + i im): p = [], option select
            params, opts = [], [pid(("select", params[0], params[1]))]
        return "mkCmd %d %s %s %s %s" % (
            NAMES.index(name), coq.coq_list([pid(p) for p in params], coq.coq_Z),
            coq.coq_list(modes, str), coq.coq_bool(dag), coq.coq_list(opts, coq.coq_Z))
    reg = coq.coq_list(["(%d, true)" % i for i in range(spec["n"])])
    return "(mkProg None %s %s)" % (reg, coq.coq_list([enc_cmd(c) for c in spec["cmds"]], lambda s: "(%s)" % s))


def same_state(p, q):
    meas = any(c[0] in sfgen.MEASURE_SEL for c in p["cmds"] + q["cmds"])
    try:
        # post-selected homodyne draws the conjugate quadrature from numpy's global generator and uses a finitely squeezed projector
        np.random.seed(4321)
        a = sfgen.run_gaussian(p)
        np.random.seed(4321)
        b = sfgen.run_gaussian(q)
        return sfgen.states_close(a, b, 1e-5 if meas else 1e-8)
    except Exception:
        return None


def classify(kind, p, q):
    return kind


def correspondence(ctx):
    rng = ctx.rng
    n_cases = ctx.budget(400, 4000)
    pairs = []
    for _ in range(n_cases):
        p = sfgen.random_spec(rng, max_n=3, max_cmds=6, exact=rng.random() < 0.5)
        kind, q = mutate(rng, p)
        pairs.append((kind, p, q))
    # implementation
    impl_eq = []
    for kind, p, q in pairs:
        P, Q = sfgen.build_program(p), sfgen.build_program(q)
        r1, r2 = bool(P == Q), bool(Q == P)
        rr = bool(P == P)
        impl_eq.append((r1, r2, rr))
        ctx.case({"kind": kind, "p": p, "q": q, "impl_eq": r1}, nontrivial=kind in ("prefix", "extend", "dagger", "swap", "dropmid"), bucket=kind)
    # model
    shards = [pairs[i:i + 400] for i in range(0, len(pairs), 400)]
    model_eq = []
    for si, sh in enumerate(shards):
        lines = ["From Coq Require Import List ZArith Bool.", "Import ListNotations.", "From SFV Require Import C18.Model.",
                 "Definition cases : list (prog * prog) := ["]
        items = []
        for kind, p, q in sh:
            table = {}
            pid = lambda v: table.setdefault(repr(v), len(table))
            items.append("(%s, %s)" % (enc_prog(p, pid), enc_prog(q, pid)))
        lines.append(";\n".join(items) + "].")
        lines.append("Eval vm_compute in map (fun c => (prog_eq (fst c) (snd c), prog_eq (snd c) (fst c), prog_eq (fst c) (fst c))) cases.")
        ok, vals, raw = ctx.coq_eval("cases_eq_%d" % si, "\n".join(lines))
        if not ok:
            ctx.obligation("correspondence:prog_eq:shard%d" % si, False, raw)
            return
        model_eq.extend(vals[0])
    ctx.traces += len(pairs)
    for (kind, p, q), ie, me in zip(pairs, impl_eq, model_eq):
        if tuple(ie) != tuple(me):
            # tie broken; decide whether the implementation violates the property on this pair
            sig = "eq:" + kind
            if ie[0] or ie[1]:
                ss = same_state(p, q)
                if ss is False or (ie[0] != ie[1]):
                    ctx.counterexample(sig, "Program.__eq__ reports equal (p==q: %s, q==p: %s) for programs that differ by '%s' and give different states" % (ie[0], ie[1], kind),
                                       {"check": "eq", "kind": kind, "p": p, "q": q, "impl": list(ie), "model": list(me)})
                    continue
            if not ie[2]:
                ctx.counterexample("eq:irreflexive", "p == p is False", {"check": "eq", "kind": "same", "p": p, "q": p})
                continue
            ctx.disagreement("corr:" + sig, "model prog_eq %s vs implementation %s on a '%s' pair" % (list(me), list(ie), kind),
                             {"check": "eq", "kind": kind, "p": p, "q": q, "impl": list(ie), "model": list(me)})


def search(ctx):
    """Property predicate on the implementation: reported equal/equivalent => same state;
    reflexive, symmetric; swapping adjacent independent commands preserves equivalence."""
    rng = ctx.rng
    n_cases = ctx.budget(250, 2500)
    for _ in range(n_cases):
        p = sfgen.random_spec(rng, max_n=3, max_cmds=6, exact=rng.random() < 0.3)
        kind, q = mutate(rng, p)
        P, Q = sfgen.build_program(p), sfgen.build_program(q)
        data = {"check": "equiv", "kind": kind, "p": p, "q": q}
        try:
            e1, e2 = bool(P.equivalence(Q)), bool(Q.equivalence(P))
            er = bool(P.equivalence(sfgen.build_program(p)))
        except Exception as e:
            ctx.counterexample("equiv:raises:" + type(e).__name__, "equivalence raised %r" % e, data)
            continue
        ctx.case({"kind": kind, "p": p, "q": q, "impl_equiv": e1}, nontrivial=kind in ("prefix", "extend", "dagger", "swap", "dropmid", "relabel"), bucket="equiv-" + kind)
        if e1 != e2:
            ctx.counterexample("equiv:asymmetric", "equivalence is not symmetric on a '%s' pair" % kind, data)
        if not er:
            ctx.counterexample("equiv:irreflexive", "a program is not equivalent to a rebuilt copy of itself", data)
        if kind == "swap" and not e1:
            ctx.counterexample("equiv:swap-breaks", "swapping adjacent commands on disjoint modes made programs inequivalent", data)
        if e1 and kind != "same":
            ss = same_state(p, q)
            if ss is False:
                sig = kind
                if kind == "modes":
                    diff = [(a, b) for a, b in zip(p["cmds"], q["cmds"]) if a != b]
                    if diff and sorted(diff[0][0][2]) == sorted(diff[0][1][2]):
                        sig = "modes-order"  # same mode set, order reversed: the labelling is meant to see this
                ctx.counterexample("equiv:" + sig, "equivalence reports True for programs that differ by '%s' and give different states" % kind, data)


_search_random = search


def search(ctx):
    """Random pairs, plus a sweep over two-mode gates at the parameter values the equivalence test treats specially:
    the same program with the gate's modes reversed must not be reported equivalent unless the states agree."""
    _search_random(ctx)
    search_feedforward(ctx)
    search_registers(ctx)
    rng = ctx.rng
    specials = [["BSgate", p_] for p_ in SPECIAL_BS] + [["CXgate", [0.0]], ["CXgate", [0.4]], ["MZgate", [0.3, 0.2]], ["S2gate", [0.3, 0.1]], ["CZgate", [0.3]]]
    for name, params in specials:
        for rep in range(ctx.budget(2, 8)):
            n = rng.randint(2, 3)
            a, b = rng.sample(range(n), 2)
            pre = [sfgen.random_cmd(rng, n, list(sfgen.GAUSSIAN_GATES)) for _ in range(rng.randint(1, 3))]
            post = [sfgen.random_cmd(rng, n, list(sfgen.GAUSSIAN_GATES)) for _ in range(rng.randint(0, 2))]
            p = {"n": n, "cmds": pre + [[name, list(params), [a, b], False]] + post}
            q = {"n": n, "cmds": pre + [[name, list(params), [b, a], False]] + post}
            data = {"check": "equiv", "kind": "modes", "p": p, "q": q}
            try:
                e1 = bool(sfgen.build_program(p).equivalence(sfgen.build_program(q)))
            except Exception as e:
                ctx.counterexample("equiv:raises:" + type(e).__name__, "equivalence raised %r" % e, data)
                continue
            ctx.case({"sweep": name, "params": params, "equiv": e1}, nontrivial=True, bucket="sweep-" + name)
            if e1 and same_state(p, q) is False:
                ctx.counterexample("equiv:modes-order", "equivalence reports True although %s%s acts on reversed modes and the states differ" % (name, params), data)


# ---- feed-forward programs: measurements (post-selected, so deterministic), re-preparations, gates fed by outcomes, deletions ----------
def ff_program(rng):
    """A valid program in which modes are measured (possibly twice, with different selected outcomes), re-prepared, used as
    controls of gates on other modes, and possibly deleted at the end."""
    n = rng.randint(2, 3)
    cmds = [["Squeezed", [round(rng.uniform(0.2, 0.5), 3), 0.0], [m], False] for m in range(n)]
    if n >= 2:
        cmds.append(["BSgate", [0.5, 0.2], [0, n - 1], False])
    measured = {}
    if rng.random() < 0.5:
        # a control mode measured twice with different selected outcomes, gates fed by it in between and after
        ctl = rng.randrange(n)
        others = [x for x in range(n) if x != ctl]
        for val in (round(rng.uniform(0.2, 0.8), 2), -round(rng.uniform(0.2, 0.8), 2)):
            cmds.append(["MeasureHomodyneSel", [0.0, val], [ctl], False])
            measured[ctl] = val
            for _ in range(rng.randint(0, 2)):
                cmds.append([rng.choice(["Xgate", "Zgate"]), [{"par": ctl, "mul": rng.choice([1.0, 0.5])}], [rng.choice(others)], False])
            if rng.random() < 0.7:
                cmds.append(["Squeezed", [round(rng.uniform(0.2, 0.5), 3), 0.0], [ctl], False])
    for _ in range(rng.randint(1, 5)):
        r = rng.random()
        m = rng.randrange(n)
        if r < 0.35:
            val = round(rng.uniform(-0.8, 0.8), 2)
            cmds.append(["MeasureHomodyneSel", [rng.choice([0.0, math.pi / 2]), val], [m], False])
            measured[m] = val
        elif r < 0.5 and m in measured:
            cmds.append(["Squeezed", [round(rng.uniform(0.2, 0.5), 3), 0.0], [m], False])
        elif r < 0.85 and measured:
            ctl = rng.choice(sorted(measured))
            tgt = rng.choice([x for x in range(n) if x != ctl])
            cmds.append([rng.choice(["Xgate", "Zgate", "Rgate"]), [{"par": ctl, "mul": rng.choice([1.0, 0.5, -1.0])}], [tgt], False])
        else:
            cmds.append(sfgen.random_cmd(rng, n, ["Rgate", "Sgate", "Dgate", "BSgate"], 0.0))
    dels = [m for m in sorted(measured) if rng.random() < 0.5][: n - 1]
    cmds += [["Del", [], [m], False] for m in dels]
    return {"n": n, "cmds": cmds}


def ff_valid(spec):
    """front-end validity of a command order: a measured parameter needs an earlier measurement, nothing after Del on that mode"""
    measured, dead = set(), set()
    for name, params, modes, _ in spec["cmds"]:
        if set(modes) & dead:
            return False
        for p in params:
            if isinstance(p, dict) and "par" in p and (p["par"] not in measured or p["par"] in dead):
                return False
        if name.startswith("Measure"):
            measured.update(modes)
        if name == "Del":
            dead.update(modes)
    return True


def ff_variant(rng, spec):
    """Another valid ORDER of the same commands (not necessarily dependency-respecting): move one command somewhere else;
    half of the time a gate fed by a measurement outcome is moved across another measurement of its controlling mode."""
    cm0 = spec["cmds"]
    if rng.random() < 0.5:
        ffs = [i for i, c in enumerate(cm0) if any(isinstance(x, dict) and "par" in x for x in c[1])]
        rng.shuffle(ffs)
        for i in ffs:
            ctl = [x["par"] for x in cm0[i][1] if isinstance(x, dict)][0]
            targets = [j for j, c in enumerate(cm0) if c[0].startswith("Measure") and ctl in c[2]]
            rng.shuffle(targets)
            for j in targets:
                q = copy.deepcopy(spec)
                c = q["cmds"].pop(i)
                # re-insert right after (if it was before) or right before (if it was after) that measurement
                q["cmds"].insert(j if i < j else j, c) if i > j else q["cmds"].insert(j, c)
                if q["cmds"] != cm0 and ff_valid(q):
                    return q
    for _ in range(30):
        q = copy.deepcopy(spec)
        cm = q["cmds"]
        i = rng.randrange(len(cm))
        c = cm.pop(i)
        j = rng.randrange(len(cm) + 1)
        cm.insert(j, c)
        if j != i and ff_valid(q):
            return q
    return None


def run_ff(spec):
    np.random.seed(12345)  # the conjugate quadrature of a post-selected homodyne is drawn from numpy's global generator
    return sfgen.run_gaussian(spec)


def ff_judge(p, q):
    """Run both programs (so that measured parameters have values and the default, parameter-comparing equivalence test applies),
    then ask == and equivalence.  -> ("ok", p~q, q~p, p==q, states differ) or ("raises", kind, text).  A ParameterError of the
    comparison itself means "no claim" (None)."""
    import strawberryfields as sf
    from strawberryfields.parameters import ParameterError
    P, Q = sfgen.build_program(p), sfgen.build_program(q)
    try:
        np.random.seed(12345)
        sa = sf.Engine("gaussian").run(P).state
        np.random.seed(12345)
        sb = sf.Engine("gaussian").run(Q).state
    except Exception as e:
        return ("raises", "run:" + type(e).__name__, repr(e))
    differ = not sfgen.states_close((np.array(sa.means()), np.array(sa.cov())), (np.array(sb.means()), np.array(sb.cov())), 1e-6)
    out = []
    for X, Y in ((P, Q), (Q, P)):
        try:
            out.append(bool(X.equivalence(Y)))
        except ParameterError:
            out.append(None)
        except Exception as e:
            return ("raises", type(e).__name__, repr(e))
    try:
        eq = bool(P == Q)
    except Exception as e:
        return ("raises", "eq:" + type(e).__name__, repr(e))
    return ("ok", out[0], out[1], eq, differ)


def search_feedforward(ctx):
    """reported equivalent / equal  =>  same state, on programs with measurements, feed-forward, re-preparation and deletions;
    a re-ordering that keeps every wire's sequence (adjacent independent commands swapped) must stay equivalent."""
    rng = ctx.rng
    for _ in range(ctx.budget(150, 1500)):
        p = ff_program(rng)
        q = ff_variant(rng, p)
        if q is None:
            continue
        data = {"check": "ff", "p": p, "q": q}
        r = ff_judge(p, q)
        if r[0] == "raises":
            ctx.counterexample("equiv:ff:raises:" + r[1], "equivalence / == raised on feed-forward programs: " + r[2], data)
            continue
        _, e1, e2, eq, differ = r
        has_del = any(c[0] == "Del" for c in p["cmds"])
        ctx.case({"p": p, "q": q, "equiv": e1}, nontrivial=True, bucket="ff-%s-%s" % ("del" if has_del else "nodel", "equiv" if e1 else "inequiv" if e1 is not None else "nocomparison"))
        if e1 is not None and e2 is not None and e1 != e2:
            ctx.counterexample("equiv:ff:asymmetric", "equivalence is not symmetric on feed-forward programs", data)
        if e1 or e2 or eq:
            if differ:
                what = "measured-control-of-deleted-mode" if has_del else "measured-control"
                ctx.counterexample("equiv:ff:%s" % what, "programs reported %s compute different states (same commands, one moved across a command it depends on)" % ("equal" if eq else "equivalent"), data)


# ---- registers: second segments built on a parent that deleted modes ---------------------------------------------------------------------
def build_child(spec):
    """spec: n0 modes, `deleted` removed by a parent program, commands of the child on the surviving indices."""
    import strawberryfields as sf
    from strawberryfields import ops
    parent = sf.Program(spec["n0"])
    with parent.context as q:
        for d in spec["deleted"]:
            ops.Del | q[d]
    child = sf.Program(parent)
    with child.context as q:
        regs = {r.ind: r for r in q}
        for name, params, modes, dag in spec["cmds"]:
            sfgen.make_op(name, params, dag) | tuple(regs[m] for m in modes)
    return parent, child


def run_child(spec):
    import strawberryfields as sf
    parent, child = build_child(spec)
    eng = sf.Engine("gaussian")
    eng.run(parent)
    st = eng.run(child).state
    return np.array(st.means()), np.array(st.cov())


def search_registers(ctx):
    """== must see WHICH subsystems a program acts on: the same command list on registers with different surviving indices
    (after a parent segment deleted modes) is a different computation."""
    rng = ctx.rng
    cases = []
    for _ in range(ctx.budget(60, 600)):
        n0 = rng.randint(3, 5)
        k = rng.randint(1, n0 - 2)
        d1 = sorted(rng.sample(range(n0), k))
        d2 = sorted(rng.sample(range(n0), k)) if rng.random() < 0.8 else d1
        common = [m for m in range(n0) if m not in d1 and m not in d2]
        if len(common) < 1:
            continue
        cmds = []
        for _ in range(rng.randint(1, 4)):
            c = sfgen.random_cmd(rng, len(common), [x for x in sfgen.GAUSSIAN_GATES], 0.2)
            c[2] = [common[m] for m in c[2]]
            cmds.append(c)
        cases.append(({"n0": n0, "deleted": d1, "cmds": cmds}, {"n0": n0, "deleted": d2, "cmds": copy.deepcopy(cmds)}))
    impl = []
    for p, q in cases:
        data = {"check": "reg", "p": p, "q": q}
        try:
            (_, P), (_, Q) = build_child(p), build_child(q)
            impl.append((bool(P == Q), bool(Q == P)))
        except Exception as e:
            impl.append(None)
            ctx.counterexample("eq:register:raises:" + type(e).__name__, "== raised %r on second-segment programs" % e, data)
    lines = ["From Coq Require Import List ZArith Bool.", "Import ListNotations.", "From SFV Require Import C18.Model.", "Definition cases : list (prog * prog) := ["]
    items = []
    for p, q in cases:
        table = {}
        pid = lambda v: table.setdefault(repr(v), len(table))

        def enc(sp):
            reg = coq.coq_list(["(%d, true)" % i for i in range(sp["n0"]) if i not in sp["deleted"]])
            body = enc_prog({"n": 0, "cmds": sp["cmds"]}, pid)
            return body.replace("(mkProg None [] ", "(mkProg None %s " % reg, 1)
        items.append("(%s, %s)" % (enc(p), enc(q)))
    if not items:
        return
    lines.append(";\n".join(items) + "].")
    lines.append("Eval vm_compute in map (fun c => (prog_eq (fst c) (snd c), prog_eq (snd c) (fst c))) cases.")
    ok, vals, raw = ctx.coq_eval("cases_reg", "\n".join(lines))
    if not ok:
        ctx.obligation("correspondence:prog_eq:registers", False, raw)
        return
    for (p, q), ie, me in zip(cases, impl, vals[0]):
        if ie is None:
            continue
        same_reg = p["deleted"] == q["deleted"]
        ctx.case({"p": p, "q": q, "impl_eq": ie[0]}, nontrivial=not same_reg, bucket="reg-" + ("same" if same_reg else "differ"))
        data = {"check": "reg", "p": p, "q": q}
        if tuple(ie) != tuple(me):
            if ie[0] or ie[1]:
                try:
                    a, b = run_child(p), run_child(q)
                    differ = not sfgen.states_close(a, b, 1e-8)
                except Exception:
                    differ = False
                if differ or ie[0] != ie[1]:
                    ctx.counterexample("eq:register", "Program.__eq__ reports equal for the same commands on registers %s and %s (different subsystems): the states differ" % (
                        [i for i in range(p["n0"]) if i not in p["deleted"]], [i for i in range(q["n0"]) if i not in q["deleted"]]), data)
                    continue
            ctx.disagreement("corr:eq:register", "model prog_eq %s vs implementation %s on second-segment programs" % (list(me), list(ie)), data)


def replay(ctx, data):
    d = data["data"]
    p, q = d["p"], d["q"]
    if d.get("check") == "ff":
        r = ff_judge(p, q)
        print("feed-forward pair:", r)
        return r[0] == "raises" or bool((r[1] or r[2] or r[3]) and r[4])
    if d.get("check") == "reg":
        (_, P), (_, Q) = build_child(p), build_child(q)
        r = bool(P == Q) or bool(Q == P)
        differ = not sfgen.states_close(run_child(p), run_child(q), 1e-8)
        print("reported equal:", r, "states differ:", differ)
        return bool(r and differ)
    P, Q = sfgen.build_program(p), sfgen.build_program(q)
    if d.get("check") == "eq":
        r = bool(P == Q) or bool(Q == P)
        print("impl p==q:", bool(P == Q), "q==p:", bool(Q == P))
    else:
        r = bool(P.equivalence(Q))
        print("impl equivalence:", r)
    ss = same_state(p, q)
    print("same gaussian state:", ss)
    return bool(r and ss is False)
