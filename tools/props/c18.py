"""C18 — programs reported equal or equivalent really compute the same thing."""
import copy
import json
import math

import numpy as np

from vlib import coq, sfgen

PROP = "C18"
LEVEL = "proof"
COQ_TARGETS = ["Base/Reorder.vo", "C18/Model.vo", "C18/Proofs.vo"]
PROPERTIES_FILE = "Properties/C18.v"
ALLOWED_AXIOMS = set()
RULE = ("pairs (p, q): q derived from a random program p (Gaussian gates, interferometers / passive channels with array parameters, measurements with "
        "post-selection / dark counts, New / Del, free and measured parameters, compile targets, TDM programs) by identity / prefix / extension / duplication / "
        "dagger flip / parameter change (0.5 ... 5e-9) / mode change or permutation / class change / swap of adjacent independent or dependent commands / mode "
        "relabelling / option change; plus deterministic sweeps over every multi-mode operation class on permuted modes and over the tolerance edges; "
        "non-trivial = q differs from p only in length, dagger, order of commands, mode order or options")
TRUSTED_BASE = [
    "Coq 8.16.1 kernel; vm_compute for evaluating the model on cases",
    "hand-written model coq/C18/Model.v of Program.__eq__ (prog_eq), tied by exact correspondence on generated pairs of every family (correspondence + the extended batch of search)",
    "harness: tools/props/c18.py, tools/vlib/sfgen.py; gaussian backend used as the oracle for 'computes the same thing'",
    "networkx is_isomorphic (library) is observed, not modelled in Coq",
    "reference model of program_equivalence in tools/props/c18.py (ref_equiv: dependency DAG from the spec, node labels name/dagger/wires/parameters/options, "
    "brute-force isomorphism), written against the documented behaviour; every verdict of the implementation is compared with it",
]
MANIFEST_TEXT = ("Proved: Program.__eq__ (model of the repaired comparison) returns True only for structurally identical programs (every command, class, "
                 "parameters, modes, dagger flag, lengths), is reflexive and symmetric; swapping adjacent independent commands leaves the dependency DAG — hence "
                 "program_equivalence's verdict — unchanged. That 'equivalent' implies 'same state' is checked by search: every verdict of == / equivalence (default, compare_params=False, user atol / rtol) "
                 "on random and swept pairs (arrays, symbolic parameters, multi-mode operations on permuted modes, measurement options, New / Del, second segments, compile "
                 "targets, TDM programs) is compared with a reference model and, when True, with the final states. Recorded findings: mode relabelling (2), array parameters in "
                 "==, ragged parameter lists, symbolic CXgate / unbound BSgate parameters, asymmetric rtol, per-mode measurement options vs mode order, TDM time-bin arrays.")
ASSUMPTIONS = ["'==' on parameters is modelled by equality of value ids (numbers by value, free parameters by name and expression, measured parameters by program and "
               "mode, arrays by content)", "'computes the same thing' = same final state on the gaussian (or fock, cutoff 5) backend under a fixed numpy seed; for TDM programs the same samples"]

NAMES = sorted(sfgen.ALL)


SPECIAL_BS = [[math.pi / 4, 0.0], [math.pi / 4, math.pi / 2], [math.pi / 4, 0.3], [0.3, math.pi / 2], [math.pi / 4, math.pi], [3 * math.pi / 4, 0.0]]


def mutate(rng, spec):
    """Return (kind, q) with q a variant of spec."""
    q = copy.deepcopy(spec)
    cm = q["cmds"]
    # sprinkle beamsplitters at / near the parameter values the equivalence test treats specially
    if q["n"] >= 2 and rng.random() < 0.35:
        a, b = rng.sample(range(q["n"]), 2)
        c = ["BSgate", list(rng.choice(SPECIAL_BS)), [a, b], False]
        cm.insert(rng.randint(0, len(cm)), c)
        spec["cmds"].insert(cm.index(c), copy.deepcopy(c))
    # a post-selected measurement somewhere (its select value is not in op.p: both comparisons must still see it)
    if rng.random() < 0.3:
        c = sfgen.random_cmd(rng, q["n"], list(sfgen.MEASURE_SEL), 0.0)
        pos = rng.randint(0, len(cm))
        cm.insert(pos, c)
        spec["cmds"].insert(pos, copy.deepcopy(c))
    kinds = ["same", "prefix", "extend", "dagger", "param", "modes", "class", "swap", "relabel", "dropmid", "select"]
    kind = rng.choice(kinds)
    if kind == "select":
        idx = [i for i, c in enumerate(cm) if c[0] in sfgen.MEASURE_SEL]
        if not idx:
            kind = "same"
        else:
            i = rng.choice(idx)
            cm[i][1][-1] = cm[i][1][-1] + rng.choice([0.5, -0.3, 1e-3])
        return kind, q
    if kind == "prefix" and cm:
        del cm[rng.randrange(len(cm)):]
    elif kind == "extend":
        cm.append(sfgen.random_cmd(rng, q["n"], list(sfgen.GAUSSIAN_GATES)))
    elif kind == "dagger" and [c for c in cm if c[0] in sfgen.GAUSSIAN_GATES]:
        i = rng.choice([k for k, c in enumerate(cm) if c[0] in sfgen.GAUSSIAN_GATES])  # only gates have an inverse form
        cm[i][3] = not cm[i][3]
    elif kind == "param" and cm:
        idx = [i for i, c in enumerate(cm) if c[1]]
        if idx:
            i = rng.choice(idx)
            j = rng.randrange(len(cm[i][1]))
            # large and tiny perturbations: comparison must not round parameters
            cm[i][1][j] = cm[i][1][j] + rng.choice([0.5, -0.25, 1e-3, 2e-5, 3e-6, -4e-6, 2e-6, 4e-7, -3e-8, 5e-9])
        else:
            kind = "same"
    elif kind == "modes" and cm and q["n"] >= 2:
        two = [k for k, c in enumerate(cm) if len(c[2]) == 2]
        i = rng.choice(two) if two and rng.random() < 0.6 else rng.randrange(len(cm))
        if len(cm[i][2]) == 2 and rng.random() < 0.7:
            cm[i][2] = list(reversed(cm[i][2]))
            return kind, q
        nm = len(cm[i][2])
        new = rng.sample(range(q["n"]), nm)
        if new == cm[i][2]:
            new = list(reversed(new)) if nm == 2 else [(new[0] + 1) % q["n"]]
        cm[i][2] = new
    elif kind == "class" and cm:
        i = rng.randrange(len(cm))
        nm, np_ = len(cm[i][2]), len(cm[i][1])
        alts = [n for n, (m, ks) in sfgen.GAUSSIAN_GATES.items() if m == nm and len(ks) == np_ and n != cm[i][0]]
        if alts:
            cm[i][0] = rng.choice(alts)
        else:
            kind = "same"
    elif kind == "swap" and len(cm) >= 2:
        cand = [i for i in range(len(cm) - 1) if not set(cm[i][2]) & set(cm[i + 1][2])]
        if cand:
            i = rng.choice(cand)
            cm[i], cm[i + 1] = cm[i + 1], cm[i]
        else:
            kind = "same"
    elif kind == "relabel" and q["n"] >= 2:
        perm = list(range(q["n"]))
        rng.shuffle(perm)
        for c in cm:
            c[2] = [perm[m] for m in c[2]]
    elif kind == "dropmid" and len(cm) >= 2:
        del cm[rng.randrange(len(cm) - 1)]
    else:
        kind = "same"
    return kind, q


def enc_prog(spec, pid):
    def enc_cmd(c):
        name, params, modes, dag = c
        opts = []
        if name == "MeasureHomodyneSel":      # MeasureHomodyne(phi, select=v): p = [phi], option select
            params, opts = params[:1], [pid(("select", params[1]))]
        elif name == "MeasureHeterodyneSel":  # MeasureHeterodyne(select=re + i im): p = [], option select
            params, opts = [], [pid(("select", params[0], params[1]))]
        return "mkCmd %d %s %s %s %s" % (
            NAMES.index(name), coq.coq_list([pid(p) for p in params], coq.coq_Z),
            coq.coq_list(modes, str), coq.coq_bool(dag), coq.coq_list(opts, coq.coq_Z))
    reg = coq.coq_list(["(%d, true)" % i for i in range(spec["n"])])
    return "(mkProg None %s %s)" % (reg, coq.coq_list([enc_cmd(c) for c in spec["cmds"]], lambda s: "(%s)" % s))


def same_state(p, q):
    meas = any(c[0] in sfgen.MEASURE_SEL for c in p["cmds"] + q["cmds"])
    try:
        # post-selected homodyne draws the conjugate quadrature from numpy's global generator and uses a finitely squeezed projector
        np.random.seed(4321)
        a = sfgen.run_gaussian(p)
        np.random.seed(4321)
        b = sfgen.run_gaussian(q)
        return sfgen.states_close(a, b, 1e-5 if meas else 1e-8)
    except Exception:
        return None


def classify(kind, p, q):
    return kind


def correspondence(ctx):
    rng = ctx.rng
    n_cases = ctx.budget(400, 4000)
    pairs = []
    for _ in range(n_cases):
        p = sfgen.random_spec(rng, max_n=3, max_cmds=6, exact=rng.random() < 0.5)
        kind, q = mutate(rng, p)
        pairs.append((kind, p, q))
    # implementation
    impl_eq = []
    for kind, p, q in pairs:
        P, Q = sfgen.build_program(p), sfgen.build_program(q)
        r1, r2 = bool(P == Q), bool(Q == P)
        rr = bool(P == P)
        impl_eq.append((r1, r2, rr))
        ctx.case({"kind": kind, "p": p, "q": q, "impl_eq": r1}, nontrivial=kind in ("prefix", "extend", "dagger", "swap", "dropmid"), bucket=kind)
    # model
    shards = [pairs[i:i + 400] for i in range(0, len(pairs), 400)]
    model_eq = []
    for si, sh in enumerate(shards):
        lines = ["From Coq Require Import List ZArith Bool.", "Import ListNotations.", "From SFV Require Import C18.Model.",
                 "Definition cases : list (prog * prog) := ["]
        items = []
        for kind, p, q in sh:
            table = {}
            pid = lambda v: table.setdefault(repr(v), len(table))
            items.append("(%s, %s)" % (enc_prog(p, pid), enc_prog(q, pid)))
        lines.append(";\n".join(items) + "].")
        lines.append("Eval vm_compute in map (fun c => (prog_eq (fst c) (snd c), prog_eq (snd c) (fst c), prog_eq (fst c) (fst c))) cases.")
        ok, vals, raw = ctx.coq_eval("cases_eq_%d" % si, "\n".join(lines))
        if not ok:
            ctx.obligation("correspondence:prog_eq:shard%d" % si, False, raw)
            return
        model_eq.extend(vals[0])
    ctx.traces += len(pairs)
    for (kind, p, q), ie, me in zip(pairs, impl_eq, model_eq):
        if tuple(ie) != tuple(me):
            # tie broken; decide whether the implementation violates the property on this pair
            sig = "eq:" + kind
            if ie[0] or ie[1]:
                ss = same_state(p, q)
                if ss is False or (ie[0] != ie[1]):
                    ctx.counterexample(sig, "Program.__eq__ reports equal (p==q: %s, q==p: %s) for programs that differ by '%s' and give different states" % (ie[0], ie[1], kind),
                                       {"check": "eq", "kind": kind, "p": p, "q": q, "impl": list(ie), "model": list(me)})
                    continue
            if not ie[2]:
                ctx.counterexample("eq:irreflexive", "p == p is False", {"check": "eq", "kind": "same", "p": p, "q": p})
                continue
            ctx.disagreement("corr:" + sig, "model prog_eq %s vs implementation %s on a '%s' pair" % (list(me), list(ie), kind),
                             {"check": "eq", "kind": kind, "p": p, "q": q, "impl": list(ie), "model": list(me)})


def search(ctx):
    """Property predicate on the implementation: reported equal/equivalent => same state;
    reflexive, symmetric; swapping adjacent independent commands preserves equivalence."""
    rng = ctx.rng
    n_cases = ctx.budget(250, 2500)
    for _ in range(n_cases):
        p = sfgen.random_spec(rng, max_n=3, max_cmds=6, exact=rng.random() < 0.3)
        kind, q = mutate(rng, p)
        P, Q = sfgen.build_program(p), sfgen.build_program(q)
        data = {"check": "equiv", "kind": kind, "p": p, "q": q}
        try:
            e1, e2 = bool(P.equivalence(Q)), bool(Q.equivalence(P))
            er = bool(P.equivalence(sfgen.build_program(p)))
        except Exception as e:
            ctx.counterexample("equiv:raises:" + type(e).__name__, "equivalence raised %r" % e, data)
            continue
        ctx.case({"kind": kind, "p": p, "q": q, "impl_equiv": e1}, nontrivial=kind in ("prefix", "extend", "dagger", "swap", "dropmid", "relabel"), bucket="equiv-" + kind)
        if e1 != e2:
            ctx.counterexample("equiv:asymmetric", "equivalence is not symmetric on a '%s' pair" % kind, data)
        if not er:
            ctx.counterexample("equiv:irreflexive", "a program is not equivalent to a rebuilt copy of itself", data)
        if kind == "swap" and not e1:
            ctx.counterexample("equiv:swap-breaks", "swapping adjacent commands on disjoint modes made programs inequivalent", data)
        if e1 and kind != "same":
            ss = same_state(p, q)
            if ss is False:
                sig = kind
                if kind == "modes":
                    diff = [(a, b) for a, b in zip(p["cmds"], q["cmds"]) if a != b]
                    if diff and sorted(diff[0][0][2]) == sorted(diff[0][1][2]):
                        sig = "modes-order"  # same mode set, order reversed: the labelling is meant to see this
                ctx.counterexample("equiv:" + sig, "equivalence reports True for programs that differ by '%s' and give different states" % kind, data)


_search_random = search


# ---- feed-forward programs: measurements (post-selected, so deterministic), re-preparations, gates fed by outcomes, deletions ----------
def ff_program(rng):
    """A valid program in which modes are measured (possibly twice, with different selected outcomes), re-prepared, used as
    controls of gates on other modes, and possibly deleted at the end."""
    n = rng.randint(2, 3)
    cmds = [["Squeezed", [round(rng.uniform(0.2, 0.5), 3), 0.0], [m], False] for m in range(n)]
    if n >= 2:
        cmds.append(["BSgate", [0.5, 0.2], [0, n - 1], False])
    measured = {}
    if rng.random() < 0.5:
        # a control mode measured twice with different selected outcomes, gates fed by it in between and after
        ctl = rng.randrange(n)
        others = [x for x in range(n) if x != ctl]
        for val in (round(rng.uniform(0.2, 0.8), 2), -round(rng.uniform(0.2, 0.8), 2)):
            cmds.append(["MeasureHomodyneSel", [0.0, val], [ctl], False])
            measured[ctl] = val
            for _ in range(rng.randint(0, 2)):
                cmds.append([rng.choice(["Xgate", "Zgate"]), [{"par": ctl, "mul": rng.choice([1.0, 0.5])}], [rng.choice(others)], False])
            if rng.random() < 0.7:
                cmds.append(["Squeezed", [round(rng.uniform(0.2, 0.5), 3), 0.0], [ctl], False])
    for _ in range(rng.randint(1, 5)):
        r = rng.random()
        m = rng.randrange(n)
        if r < 0.35:
            val = round(rng.uniform(-0.8, 0.8), 2)
            cmds.append(["MeasureHomodyneSel", [rng.choice([0.0, math.pi / 2]), val], [m], False])
            measured[m] = val
        elif r < 0.5 and m in measured:
            cmds.append(["Squeezed", [round(rng.uniform(0.2, 0.5), 3), 0.0], [m], False])
        elif r < 0.85 and measured:
            ctl = rng.choice(sorted(measured))
            tgt = rng.choice([x for x in range(n) if x != ctl])
            cmds.append([rng.choice(["Xgate", "Zgate", "Rgate"]), [{"par": ctl, "mul": rng.choice([1.0, 0.5, -1.0])}], [tgt], False])
        else:
            cmds.append(sfgen.random_cmd(rng, n, ["Rgate", "Sgate", "Dgate", "BSgate"], 0.0))
    dels = [m for m in sorted(measured) if rng.random() < 0.5][: n - 1]
    cmds += [["Del", [], [m], False] for m in dels]
    return {"n": n, "cmds": cmds}


def ff_valid(spec):
    """front-end validity of a command order: a measured parameter needs an earlier measurement, nothing after Del on that mode"""
    measured, dead = set(), set()
    for name, params, modes, _ in spec["cmds"]:
        if set(modes) & dead:
            return False
        for p in params:
            if isinstance(p, dict) and "par" in p and (p["par"] not in measured or p["par"] in dead):
                return False
        if name.startswith("Measure"):
            measured.update(modes)
        if name == "Del":
            dead.update(modes)
    return True


def ff_variant(rng, spec):
    """Another valid ORDER of the same commands (not necessarily dependency-respecting): move one command somewhere else;
    half of the time a gate fed by a measurement outcome is moved across another measurement of its controlling mode."""
    cm0 = spec["cmds"]
    if rng.random() < 0.5:
        ffs = [i for i, c in enumerate(cm0) if any(isinstance(x, dict) and "par" in x for x in c[1])]
        rng.shuffle(ffs)
        for i in ffs:
            ctl = [x["par"] for x in cm0[i][1] if isinstance(x, dict)][0]
            targets = [j for j, c in enumerate(cm0) if c[0].startswith("Measure") and ctl in c[2]]
            rng.shuffle(targets)
            for j in targets:
                q = copy.deepcopy(spec)
                c = q["cmds"].pop(i)
                # re-insert right after (if it was before) or right before (if it was after) that measurement
                q["cmds"].insert(j if i < j else j, c) if i > j else q["cmds"].insert(j, c)
                if q["cmds"] != cm0 and ff_valid(q):
                    return q
    for _ in range(30):
        q = copy.deepcopy(spec)
        cm = q["cmds"]
        i = rng.randrange(len(cm))
        c = cm.pop(i)
        j = rng.randrange(len(cm) + 1)
        cm.insert(j, c)
        if j != i and ff_valid(q):
            return q
    return None


def run_ff(spec):
    np.random.seed(12345)  # the conjugate quadrature of a post-selected homodyne is drawn from numpy's global generator
    return sfgen.run_gaussian(spec)


def ff_judge(p, q):
    """Run both programs (so that measured parameters have values and the default, parameter-comparing equivalence test applies),
    then ask == and equivalence.  -> ("ok", p~q, q~p, p==q, states differ) or ("raises", kind, text).  A ParameterError of the
    comparison itself means "no claim" (None)."""
    import strawberryfields as sf
    from strawberryfields.parameters import ParameterError
    P, Q = sfgen.build_program(p), sfgen.build_program(q)
    try:
        np.random.seed(12345)
        sa = sf.Engine("gaussian").run(P).state
        np.random.seed(12345)
        sb = sf.Engine("gaussian").run(Q).state
    except Exception as e:
        return ("raises", "run:" + type(e).__name__, repr(e))
    differ = not sfgen.states_close((np.array(sa.means()), np.array(sa.cov())), (np.array(sb.means()), np.array(sb.cov())), 1e-6)
    out = []
    for X, Y in ((P, Q), (Q, P)):
        try:
            out.append(bool(X.equivalence(Y)))
        except ParameterError:
            out.append(None)
        except Exception as e:
            return ("raises", type(e).__name__, repr(e))
    try:
        eq = bool(P == Q)
    except Exception as e:
        return ("raises", "eq:" + type(e).__name__, repr(e))
    return ("ok", out[0], out[1], eq, differ)


def search_feedforward(ctx):
    """reported equivalent / equal  =>  same state, on programs with measurements, feed-forward, re-preparation and deletions;
    a re-ordering that keeps every wire's sequence (adjacent independent commands swapped) must stay equivalent."""
    rng = ctx.rng
    for _ in range(ctx.budget(150, 1500)):
        p = ff_program(rng)
        q = ff_variant(rng, p)
        if q is None:
            continue
        data = {"check": "ff", "p": p, "q": q}
        r = ff_judge(p, q)
        if r[0] == "raises":
            ctx.counterexample("equiv:ff:raises:" + r[1], "equivalence / == raised on feed-forward programs: " + r[2], data)
            continue
        _, e1, e2, eq, differ = r
        has_del = any(c[0] == "Del" for c in p["cmds"])
        ctx.case({"p": p, "q": q, "equiv": e1}, nontrivial=True, bucket="ff-%s-%s" % ("del" if has_del else "nodel", "equiv" if e1 else "inequiv" if e1 is not None else "nocomparison"))
        if e1 is not None and e2 is not None and e1 != e2:
            ctx.counterexample("equiv:ff:asymmetric", "equivalence is not symmetric on feed-forward programs", data)
        if e1 or e2 or eq:
            if differ:
                what = "measured-control-of-deleted-mode" if has_del else "measured-control"
                ctx.counterexample("equiv:ff:%s" % what, "programs reported %s compute different states (same commands, one moved across a command it depends on)" % ("equal" if eq else "equivalent"), data)


# ---- registers: second segments built on a parent that deleted modes ---------------------------------------------------------------------
def build_child(spec):
    """spec: n0 modes, `deleted` removed by a parent program, commands of the child on the surviving indices."""
    import strawberryfields as sf
    from strawberryfields import ops
    parent = sf.Program(spec["n0"])
    with parent.context as q:
        for d in spec["deleted"]:
            ops.Del | q[d]
    child = sf.Program(parent)
    with child.context as q:
        regs = {r.ind: r for r in q}
        for name, params, modes, dag in spec["cmds"]:
            sfgen.make_op(name, params, dag) | tuple(regs[m] for m in modes)
    return parent, child


def run_child(spec):
    import strawberryfields as sf
    parent, child = build_child(spec)
    eng = sf.Engine("gaussian")
    eng.run(parent)
    st = eng.run(child).state
    return np.array(st.means()), np.array(st.cov())


def search_registers(ctx):
    """== must see WHICH subsystems a program acts on: the same command list on registers with different surviving indices
    (after a parent segment deleted modes) is a different computation."""
    rng = ctx.rng
    cases = []
    for _ in range(ctx.budget(60, 600)):
        n0 = rng.randint(3, 5)
        k = rng.randint(1, n0 - 2)
        d1 = sorted(rng.sample(range(n0), k))
        d2 = sorted(rng.sample(range(n0), k)) if rng.random() < 0.8 else d1
        common = [m for m in range(n0) if m not in d1 and m not in d2]
        if len(common) < 1:
            continue
        cmds = []
        for _ in range(rng.randint(1, 4)):
            c = sfgen.random_cmd(rng, len(common), [x for x in sfgen.GAUSSIAN_GATES], 0.2)
            c[2] = [common[m] for m in c[2]]
            cmds.append(c)
        cases.append(({"n0": n0, "deleted": d1, "cmds": cmds}, {"n0": n0, "deleted": d2, "cmds": copy.deepcopy(cmds)}))
    impl = []
    for p, q in cases:
        data = {"check": "reg", "p": p, "q": q}
        try:
            (_, P), (_, Q) = build_child(p), build_child(q)
            impl.append((bool(P == Q), bool(Q == P)))
        except Exception as e:
            impl.append(None)
            ctx.counterexample("eq:register:raises:" + type(e).__name__, "== raised %r on second-segment programs" % e, data)
    lines = ["From Coq Require Import List ZArith Bool.", "Import ListNotations.", "From SFV Require Import C18.Model.", "Definition cases : list (prog * prog) := ["]
    items = []
    for p, q in cases:
        table = {}
        pid = lambda v: table.setdefault(repr(v), len(table))

        def enc(sp):
            reg = coq.coq_list(["(%d, true)" % i for i in range(sp["n0"]) if i not in sp["deleted"]])
            body = enc_prog({"n": 0, "cmds": sp["cmds"]}, pid)
            return body.replace("(mkProg None [] ", "(mkProg None %s " % reg, 1)
        items.append("(%s, %s)" % (enc(p), enc(q)))
    if not items:
        return
    lines.append(";\n".join(items) + "].")
    lines.append("Eval vm_compute in map (fun c => (prog_eq (fst c) (snd c), prog_eq (snd c) (fst c))) cases.")
    ok, vals, raw = ctx.coq_eval("cases_reg", "\n".join(lines))
    if not ok:
        ctx.obligation("correspondence:prog_eq:registers", False, raw)
        return
    for (p, q), ie, me in zip(cases, impl, vals[0]):
        if ie is None:
            continue
        same_reg = p["deleted"] == q["deleted"]
        ctx.case({"p": p, "q": q, "impl_eq": ie[0]}, nontrivial=not same_reg, bucket="reg-" + ("same" if same_reg else "differ"))
        data = {"check": "reg", "p": p, "q": q}
        if tuple(ie) != tuple(me):
            if ie[0] or ie[1]:
                try:
                    a, b = run_child(p), run_child(q)
                    differ = not sfgen.states_close(a, b, 1e-8)
                except Exception:
                    differ = False
                if differ or ie[0] != ie[1]:
                    ctx.counterexample("eq:register", "Program.__eq__ reports equal for the same commands on registers %s and %s (different subsystems): the states differ" % (
                        [i for i in range(p["n0"]) if i not in p["deleted"]], [i for i in range(q["n0"]) if i not in q["deleted"]]), data)
                    continue
            ctx.disagreement("corr:eq:register", "model prog_eq %s vs implementation %s on second-segment programs" % (list(me), list(ie)), data)


def replay_old(ctx, data):
    d = data["data"]
    p, q = d["p"], d["q"]
    if d.get("check") == "ff":
        r = ff_judge(p, q)
        print("feed-forward pair:", r)
        return r[0] == "raises" or bool((r[1] or r[2] or r[3]) and r[4])
    if d.get("check") == "reg":
        (_, P), (_, Q) = build_child(p), build_child(q)
        r = bool(P == Q) or bool(Q == P)
        differ = not sfgen.states_close(run_child(p), run_child(q), 1e-8)
        print("reported equal:", r, "states differ:", differ)
        return bool(r and differ)
    P, Q = sfgen.build_program(p), sfgen.build_program(q)
    if d.get("check") == "eq":
        r = bool(P == Q) or bool(Q == P)
        print("impl p==q:", bool(P == Q), "q==p:", bool(Q == P))
    else:
        r = bool(P.equivalence(Q))
        print("impl equivalence:", r)
    ss = same_state(p, q)
    print("same gaussian state:", ss)
    return bool(r and ss is False)


# =====================================================================================================================================
# Hardening round: extended program family (array / symbolic parameters, multi-mode operations, measurements with options, New / Del,
# compile targets, TDM programs), a reference model of program_equivalence evaluated on the SPEC (independent of the implementation's
# Command / DAG code), and one judge used by every new stream and by replay.
#
# extended command: [name, params, modes, dagger] (+ optional 5th element {"select": [...], "dark_counts": [...]});
# parameters: number | {"re","im"} | {"par": mode, "mul", "add"} (measured) | {"free": name, "mul", "add"} (free parameter);
# Interferometer / PassiveChannel: params = [Re U, Im U] (ONE array parameter); Gaussian: params = [V, r] (two array parameters);
# spec keys: n, cmds, bind {name: value} (free-parameter values, missing = unbound), compile (compiler name);
# child programs: {"n0", "deleted", "cmds"}; TDM programs: {"tdm": {...}}.
# =====================================================================================================================================
XNAMES = NAMES + [x for x in ["Interferometer", "sMZgate", "MeasureFock", "MeasureThreshold", "MeasureHomodyne", "MeasureHeterodyne", "_New_modes", "_Delete", "Gaussian", "GraphEmbed"] if x not in NAMES]
ARRAY_OPS = ("Interferometer", "PassiveChannel")
SYMMETRIC_2 = ("S2gate", "CZgate", "CKgate")
FOCK_ONLY = ("CKgate", "Kgate", "Vgate", "Fock", "MeasureThreshold")
COMPILERS = [None, "gaussian", "fock", "bosonic"]
PERTURB = [0.5, -0.25, 1e-3, 2e-5, 3e-6, -4e-6, 2e-6, 1.5e-6, 4e-7, -3e-8, 5e-9]


def _cmd_opts(c):
    return c[4] if len(c) > 4 and c[4] else {}


def _is_sym(x):
    return isinstance(x, dict) and ("par" in x or "free" in x)


def x_param(p, regs, prog):
    if isinstance(p, dict):
        if "re" in p:
            return complex(p["re"], p["im"])
        if "par" in p:
            return p.get("mul", 1.0) * regs[p["par"]].par + p.get("add", 0.0)
        if "free" in p:
            e = prog.params(p["free"])
            if p.get("mul", 1.0) != 1.0:
                e = p["mul"] * e
            if p.get("add", 0.0) != 0.0:
                e = e + p["add"]
            return e
    return p


def x_make_op(name, params, dagger, regs, prog, opts):
    from strawberryfields import ops
    if name in ("MeasureFock", "MeasureThreshold"):
        kw = {k: list(v) for k, v in (opts or {}).items() if v is not None}
        return getattr(ops, name)(**kw)
    if name == "Interferometer":
        return ops.Interferometer(np.array(params[0], dtype=float) + 1j * np.array(params[1], dtype=float))
    if name == "Gaussian":
        return ops.Gaussian(np.array(params[0], dtype=float), np.array(params[1], dtype=float), decomp=False)
    if name in sfgen.MEASURE_SEL or name == "PassiveChannel":
        return sfgen.make_op(name, params, dagger, regs)
    op = getattr(ops, name)(*[x_param(p, regs, prog) for p in params])
    return op.H if dagger else op


def free_names(spec):
    return sorted({x["free"] for c in spec.get("cmds", []) for x in c[1] if isinstance(x, dict) and "free" in x})


def x_bind(prog, spec):
    """FreeParameter objects are sympy symbols and therefore shared by name between ALL programs: set (or clear) the value explicitly."""
    bind = spec.get("bind") or {}
    for nm in free_names(spec):
        prog.free_params[nm].val = bind.get(nm)


def x_build(spec, name="p"):
    import strawberryfields as sf
    from strawberryfields import ops
    if "tdm" in spec:
        return tdm_build(spec)
    if "n0" in spec:
        return build_child(spec)[1]
    prog = sf.Program(spec["n"], name=name)
    with prog.context as q:
        regs = list(q)
        for c in spec["cmds"]:
            nm, params, modes, dag = c[:4]
            if nm == "New":
                (r,) = ops.New(1)
                assert r.ind == modes[0] == len(regs), (r.ind, modes, len(regs))
                regs.append(r)
                continue
            if nm == "Del":
                ops.Del | regs[modes[0]]
                continue
            x_make_op(nm, params, dag, regs, prog, _cmd_opts(c)) | tuple(regs[m] for m in modes)
    x_bind(prog, spec)
    if spec.get("compile"):
        prog = prog.compile(compiler=spec["compile"])
    return prog


def spec_needs_fock(spec):
    for c in spec["cmds"]:
        if c[0] in FOCK_ONLY or (c[0] == "MeasureFock" and _cmd_opts(c).get("select") is not None):
            return True
    return False


def spec_has_measurement(spec):
    return any(c[0].startswith("Measure") for c in spec.get("cmds", []))


def x_state(spec, P=None):
    """What the program computes: the final state (under a fixed seed of numpy's global generator, which post-selected homodyne uses)."""
    import strawberryfields as sf
    if "tdm" in spec:
        return tdm_run(spec)
    if "n0" in spec:
        return ("gaussian",) + tuple(run_child(spec))
    s = dict(spec)
    s.pop("compile", None)  # a compile target does not change the computation; engines re-compile for their own backend anyway
    prog = P if P is not None and not spec.get("compile") else x_build(s)
    x_bind(prog, s)
    np.random.seed(4321)
    if spec_needs_fock(s):
        st = sf.Engine("fock", backend_options={"cutoff_dim": 5}).run(prog).state
        return ("fock", np.array(st.dm()))
    st = sf.Engine("gaussian").run(prog).state
    return ("gaussian", np.array(st.means()), np.array(st.cov()))


def x_differ(p, q, tol, P=None, Q=None):
    """True / False, or None when a program cannot be run (unbound parameters, unsupported operation, ...)."""
    try:
        a = x_state(p, P)
        b = x_state(q, Q)
    except Exception:
        return None
    if a[0] != b[0] or any(np.shape(x) != np.shape(y) for x, y in zip(a[1:], b[1:])):
        return True
    return not all(np.allclose(x, y, atol=tol, rtol=0) for x, y in zip(a[1:], b[1:]))


# ---- canonical view of a spec ---------------------------------------------------------------------------------------------------------
def _z(x):
    """-0.0 -> 0.0 (equal as numbers, different when printed)"""
    if isinstance(x, complex):
        return complex(x.real + 0.0, x.imag + 0.0)
    return x + 0.0 if isinstance(x, float) else x


def canon_op(c):
    """-> (class name as the implementation sees it, list of parameters (op.p), measurement options (select, dark_counts))"""
    nm, params = c[0], c[1]
    o = _cmd_opts(c)
    if nm == "MeasureHomodyneSel":
        return "MeasureHomodyne", [params[0]], ((_z(float(params[1])),), None)
    if nm == "MeasureHeterodyneSel":
        return "MeasureHeterodyne", [], ((_z(complex(params[0], params[1])),), None)
    if nm in ("MeasureFock", "MeasureThreshold"):
        sel, dc = o.get("select"), o.get("dark_counts")
        return nm, [], (tuple(_z(v) for v in sel) if sel is not None else None, tuple(_z(v) for v in dc) if dc is not None else None)
    if nm in ARRAY_OPS:
        return nm, [{"arr": [params[0], params[1]]}], (None, None)
    if nm == "Gaussian":
        return nm, [{"arr": [params[0], None]}, {"arr": [params[1], None]}], (None, None)
    if nm == "New":
        return "_New_modes", [], (None, None)
    if nm == "Del":
        return "_Delete", [], (None, None)
    return nm, list(params), (None, None)


def canon_param(x, side):
    if isinstance(x, dict):
        if "arr" in x:
            return ("arr", repr([(np.array(a, dtype=float) + 0.0).tolist() if a is not None else None for a in x["arr"]]))
        if "re" in x:
            return ("c", _z(float(x["re"])), _z(float(x["im"])))
        if "par" in x:
            return ("par", side, x["par"], _z(float(x.get("mul", 1.0))), _z(float(x.get("add", 0.0))))  # measured parameters of different programs are different symbols
        if "free" in x:
            return ("free", x["free"], _z(float(x.get("mul", 1.0))), _z(float(x.get("add", 0.0))))
    return ("num", _z(float(x)))


def final_register(spec):
    if "n0" in spec:
        live = [i for i in range(spec["n0"]) if i not in spec["deleted"]]
    else:
        live = list(range(spec["n"]))
    for c in spec["cmds"]:
        if c[0] == "New":
            live.append(c[2][0])
        elif c[0] == "Del":
            live.remove(c[2][0])
    return live


def canon_cmd(c, side):
    cls, plist, options = canon_op(c)
    return {"class": cls, "params": [canon_param(x, side) for x in plist], "modes": list(c[2]), "dagger": bool(c[3]), "options": options}


def ref_eq(p, q, same_object=False):
    """Reference verdict for `==` (the statement proved about coq/C18/Model.v: structural identity) and the first aspect that differs."""
    if p.get("compile") != q.get("compile"):
        return False, "target"
    if final_register(p) != final_register(q):
        return False, "register"
    if len(p["cmds"]) != len(q["cmds"]):
        return False, "length"
    for a, b in zip(p["cmds"], q["cmds"]):
        ca, cb = canon_cmd(a, "L"), canon_cmd(b, "L" if same_object else "R")
        for k in ("class", "params", "modes", "dagger", "options"):
            if ca[k] != cb[k]:
                return False, k
    return True, None


# ---- reference model of program_equivalence ---------------------------------------------------------------------------------------------
class Unbound(Exception):
    pass


def last_selects(spec):
    out = {}
    for c in spec["cmds"]:
        if c[0] == "MeasureHomodyneSel":
            out[c[2][0]] = float(c[1][1])
    return out


def ref_value(x, env):
    if isinstance(x, dict):
        if "arr" in x:
            re_, im_ = x["arr"]
            return np.array(re_, dtype=float) + (1j * np.array(im_, dtype=float) if im_ is not None else 0.0)
        if "re" in x:
            return complex(x["re"], x["im"])
        key, table = ("par", env["measured"]) if "par" in x else ("free", env["bind"])
        v = table.get(x[key])
        if v is None:
            raise Unbound(x[key])
        return x.get("mul", 1.0) * v + x.get("add", 0.0)
    return x


def ref_graph(spec, compare_params, ran, relax):
    env = {"bind": spec.get("bind") or {}, "measured": last_selects(spec) if ran else {}}
    nodes = []
    for c in spec["cmds"]:
        cls, plist, options = canon_op(c)
        deps = set(c[2])
        if "deps" not in relax:
            deps |= {x["par"] for x in c[1] if isinstance(x, dict) and "par" in x}
        try:
            pv = [ref_value(x, env) for x in plist]
        except Unbound:
            if compare_params:
                raise
            pv = None
        nodes.append({"cls": cls, "dag": bool(c[3]), "modes": list(c[2]), "deps": deps, "pv": pv, "opts": options,
                      "symbolic": any(_is_sym(x) for x in plist)})
    for nd in nodes:
        nd["w"] = ref_wire(nd, relax)
    grid = {}
    for i, nd in enumerate(nodes):
        for m_ in sorted(nd["deps"]):
            grid.setdefault(m_, []).append(i)
    edges = {(w[k - 1], w[k]) for w in grid.values() for k in range(1, len(w))}
    return nodes, edges


def ref_wire(nd, relax):
    """the node attribute `w`: the ordered wires for operations that are not symmetric under permuting their modes, else 0"""
    if "wires" in relax:
        return 0
    cls, modes = nd["cls"], list(nd["modes"])
    if "strict" in relax or ("strict-gates" in relax and not cls.startswith("Measure")):
        return modes  # every operation made sensitive to the labels (and order) of its modes
    if "strict-measure" in relax and cls.startswith("Measure") and len(modes) > 1 and nd["opts"] != (None, None):
        return modes
    if cls == "CXgate":
        if nd["pv"] is None:
            return modes  # value unknown: the order has to count
        return 0 if np.allclose(nd["pv"][0], 0) else modes
    if cls == "BSgate":
        if nd["pv"] is None:
            return modes
        bs = [x % np.pi for x in nd["pv"]]
        return 0 if np.allclose(bs, [np.pi / 4, np.pi / 2]) else modes
    if len(modes) > 1 and cls not in SYMMETRIC_2 and not cls.startswith("Measure"):
        return modes
    return 0


def ref_match(a, b, compare_params, atol, rtol, relax):
    if "class" not in relax and a["cls"] != b["cls"]:
        return False
    if "dagger" not in relax and a["dag"] != b["dag"]:
        return False
    if a["w"] != b["w"]:
        return False
    if compare_params:
        if "params" not in relax:
            if len(a["pv"]) != len(b["pv"]):
                return False
            for x, y in zip(a["pv"], b["pv"]):
                if np.shape(x) != np.shape(y) or not np.allclose(x, y, atol=atol, rtol=rtol):
                    return False
        if "options" not in relax and a["opts"] != b["opts"]:
            return False
    return True


def _iso(n1, e1, n2, e2, match):
    if len(n1) != len(n2) or len(e1) != len(e2):
        return False
    N = len(n1)
    cand = [[j for j in range(N) if match(n1[i], n2[j])] for i in range(N)]
    if any(not c for c in cand):
        return False
    order = sorted(range(N), key=lambda i: len(cand[i]))
    f, used = {}, set()

    def rec(t):
        if t == N:
            return True
        i = order[t]
        for j in cand[i]:
            if j in used:
                continue
            if all((((i, k) in e1) == ((j, fk) in e2)) and (((k, i) in e1) == ((fk, j) in e2)) for k, fk in f.items()):
                f[i] = j
                used.add(j)
                if rec(t + 1):
                    return True
                del f[i]
                used.discard(j)
        return False
    return rec(0)


def ref_equiv(p, q, cfg=None, ran=False, relax=()):
    """Reference verdict of prog_p.equivalence(prog_q, **cfg): True / False, or None when a parameter has no value (the comparison of
    parameter values is then impossible: ParameterError is the legitimate answer)."""
    cfg = cfg or {}
    cp = cfg.get("compare_params", True)
    atol, rtol = cfg.get("atol", 1e-6), cfg.get("rtol", 0)
    try:
        n1, e1 = ref_graph(p, cp, ran, relax)
        n2, e2 = ref_graph(q, cp, ran, relax)
    except Unbound:
        return None
    return _iso(n1, e1, n2, e2, lambda a, b: ref_match(a, b, cp, atol, rtol, relax))


def equiv_aspect(p, q, cfg, ran):
    """which single aspect the implementation must have ignored to call p and q equivalent"""
    for r in ("dagger", "options", "params", "wires", "deps", "class"):
        if ref_equiv(p, q, cfg, ran, relax=(r,)):
            if r == "wires":
                # name the operation whose wires differ (position by position when the programs have the same shape)
                if len(p["cmds"]) == len(q["cmds"]):
                    for a, b in zip(p["cmds"], q["cmds"]):
                        if a[2] != b[2] and len(a[2]) > 1:
                            return "wires:" + canon_op(a)[0]
                return "wires"
            return r
    if len(p["cmds"]) != len(q["cmds"]):
        return "length"
    return "structure"


def raise_site(p, q, exc, cfg):
    cmds = p.get("cmds", []) + q.get("cmds", [])
    if cfg is None and isinstance(exc, ValueError) and any(c[0] in ARRAY_OPS + ("Gaussian",) for c in cmds):
        return "array-parameter"
    if isinstance(exc, TypeError) and any(c[0] == "CXgate" and any(_is_sym(x) for x in c[1]) for c in cmds):
        return "CXgate-symbolic"
    if type(exc).__name__ == "ParameterError" and cfg and cfg.get("compare_params") is False and any(c[0] == "BSgate" and any(_is_sym(x) for x in c[1]) for c in cmds):
        return "BSgate-unbound"
    if isinstance(exc, ValueError) and any(c[0] == "Gaussian" for c in cmds):
        return "ragged-array-parameters"
    if isinstance(exc, ValueError) and any(c[0] in ARRAY_OPS for c in cmds):
        return "array-parameter"
    return "other"


def cfg_tag(cfg):
    return ",".join("%s=%s" % (k, cfg[k]) for k in sorted(cfg)) if cfg else "default"


def judge_pair(d, want_info=False):
    """d = {"check": "x", "kind", "p", "q", "ran": bool, "calls": [kwargs of equivalence, ...], "skip_eq": bool}
    -> list of (severity 'cex' | 'dis', signature, text): every way in which ==, equivalence fail the property (or leave the reference) on this pair."""
    import strawberryfields as sf
    from strawberryfields.parameters import ParameterError
    p, q, kind, ran = d["p"], d["q"], d.get("kind", "?"), bool(d.get("ran"))
    calls = d.get("calls") or [{}]
    issues = []
    info = {"eq": None, "equiv": {}}
    P, Q, P2 = x_build(p), x_build(q), x_build(p)
    for X, s in ((P, p), (Q, q), (P2, p)):
        x_bind(X, s)
    has_meas = spec_has_measurement(p) or spec_has_measurement(q)
    strict_tol = 1e-6 if has_meas else 1e-10
    state_cache = {}

    def differ(tol):
        if "d" not in state_cache:
            try:
                state_cache["d"] = (x_state(p), x_state(q))
            except Exception:
                state_cache["d"] = None
        if state_cache["d"] is None:
            return None
        a, b = state_cache["d"]
        if a[0] != b[0] or any(np.shape(x) != np.shape(y) for x, y in zip(a[1:], b[1:])):
            return True
        return not all(np.allclose(x, y, atol=tol, rtol=0) for x, y in zip(a[1:], b[1:]))

    def differ_rel(rtol_):
        r = differ(0.0)
        if not r:
            return r
        a, b = state_cache["d"]
        if a[0] != b[0] or any(np.shape(x) != np.shape(y) for x, y in zip(a[1:], b[1:])):
            return True
        return not all(np.allclose(x, y, atol=rtol_ * (1.0 + float(np.max(np.abs(x))) if np.size(x) else 1.0), rtol=0) for x, y in zip(a[1:], b[1:]))

    if ran:
        # run both (post-selected measurements: deterministic) so that measured parameters have values
        try:
            for X in (P, Q, P2):
                np.random.seed(4321)
                sf.Engine("gaussian").run(X)
        except Exception as e:
            issues = [("cex", "run:raises:" + type(e).__name__, "running a generated feed-forward program raised %r" % e)]
            return (issues, info) if want_info else issues

    # ---- == -------------------------------------------------------------------------------------------------------------
    if not d.get("skip_eq"):
        want, aspect = ref_eq(p, q)
        try:
            r1, r2, rr = bool(P == Q), bool(Q == P), bool(P == P)
            rc = bool(P == P2)
        except Exception as e:
            r1 = None
            issues.append(("cex", "eq:raises:%s:%s" % (type(e).__name__, raise_site(p, q, e, None)), "== raised %r (it must answer; p == p is not even True)" % e))
        if r1 is not None:
            info["eq"] = (r1, r2, rr)
            if r1 != r2:
                issues.append(("cex", "eq:asymmetric", "p == q is %s but q == p is %s ('%s' pair)" % (r1, r2, kind)))
            if not rr:
                issues.append(("cex", "eq:irreflexive", "p == p is False"))
            if (r1 or r2) and not want:
                dd = differ(strict_tol)
                issues.append(("cex" if dd else "dis", ("eq:accepts:" if dd else "corr:eq:accepts:") + aspect,
                               "Program.__eq__ reports equal although the programs differ in %s%s" % (aspect, " and compute different states" if dd else " (reference: not equal)")))
            if want and not (r1 and r2):
                issues.append(("dis", "corr:eq:rejects:" + kind, "Program.__eq__ reports different for structurally identical programs ('%s' pair)" % kind))
            if rc != ref_eq(p, p)[0]:
                issues.append(("dis", "corr:eq:rebuilt-copy", "p == (rebuilt copy of p) is %s, reference %s" % (rc, ref_eq(p, p)[0])))

    # ---- equivalence -----------------------------------------------------------------------------------------------------
    for cfg in calls:
        tag = cfg_tag(cfg)
        sfx = "" if not cfg else ":" + ("noparams" if cfg.get("compare_params") is False else "tolerance")
        w12, w21, wpp = ref_equiv(p, q, cfg, ran), ref_equiv(q, p, cfg, ran), ref_equiv(p, p, cfg, ran)
        got = []
        bad = False
        for X, Y, want in ((P, Q, w12), (Q, P, w21), (P, P2, wpp)):
            try:
                got.append(bool(X.equivalence(Y, **cfg)))
            except ParameterError as e:
                got.append(None)
                if want is not None:
                    bad = True
                    issues.append(("cex", "equiv:raises:ParameterError:%s" % raise_site(p, q, e, cfg), "equivalence(%s) raised %r although no parameter value is needed for the comparison" % (tag, e)))
                    break
            except Exception as e:
                bad = True
                issues.append(("cex", "equiv:raises:%s:%s" % (type(e).__name__, raise_site(p, q, e, cfg)), "equivalence(%s) raised %r" % (tag, e)))
                break
        if bad:
            continue
        e1, e2, er = got
        info["equiv"][tag] = [e1, e2, er]
        if (e1 is None) != (w12 is None) or (e2 is None) != (w21 is None):
            issues.append(("dis", "corr:equiv:parameter-error" + sfx, "equivalence(%s) answered %s / %s where the reference says %s / %s (None = parameter without value)" % (tag, e1, e2, w12, w21)))
            continue
        if e1 is None or e2 is None:
            continue
        if w12 != w21 and e1 is False and e2 is False:
            continue  # a symmetrised tolerance test answers False in both directions here
        if e1 != e2:
            if w12 != w21 and (e1, e2) == (w12, w21):
                issues.append(("cex", "equiv:asymmetric:rtol", "equivalence(%s) is not symmetric: p~q %s, q~p %s (the tolerance rtol*|b| uses the second program's value)" % (tag, e1, e2)))
            else:
                issues.append(("cex", "equiv:asymmetric" + sfx, "equivalence(%s) is not symmetric on a '%s' pair: p~q %s, q~p %s" % (tag, kind, e1, e2)))
        if er is False and wpp:
            issues.append(("cex", "equiv:irreflexive" + sfx, "a program is not equivalent(%s) to a rebuilt copy of itself" % tag))
        for e, w, a_, b_ in ((e1, w12, p, q), (e2, w21, q, p)):
            if e and not w:
                asp = equiv_aspect(a_, b_, cfg, ran)
                # parameters are not meant to be looked at with compare_params=False: a difference in them is no evidence
                dd = differ(strict_tol) if not (cfg.get("compare_params") is False and not ref_eq_params_same(p, q)) else None
                issues.append(("cex" if dd else "dis", ("equiv:accepts:" if dd else "corr:equiv:accepts:") + asp + sfx,
                               "equivalence(%s) reports True although the programs differ in %s%s" % (tag, asp, " and compute different states" if dd else " (reference: not equivalent)")))
                break
            if w and not e:
                if measure_options_order_differs(a_, b_, cfg, ran):
                    break  # stricter than the reference, and sound: the i-th select / dark-count value belongs to the i-th listed mode
                if kind == "swap":
                    issues.append(("cex", "equiv:swap-breaks" + sfx, "swapping adjacent independent commands made the programs inequivalent (%s)" % tag))
                else:
                    issues.append(("dis", "corr:equiv:rejects:" + kind + sfx, "equivalence(%s) reports False on a '%s' pair where the reference says True" % (tag, kind)))
                break
        if not cfg and e1 and w12 and p != q and kind not in ("param", "tolerance", "sym-param", "nmodes"):
            # implementation and reference agree on 'equivalent': the states must agree (parameters may differ within atol: loose comparison)
            if differ_rel(1e-4):
                sig = classify_both_true(p, q, kind, ran)
                issues.append(("cex", sig, "equivalence reports True for programs that differ by '%s' and give different states" % kind))
    return (issues, info) if want_info else issues


def measure_options_order_differs(p, q, cfg, ran):
    """p ~ q only because multi-mode measurements with per-mode options are matched regardless of the order of their modes"""
    multi = any(c[0] in ("MeasureFock", "MeasureThreshold") and len(c[2]) > 1 and any(v is not None for v in _cmd_opts(c).values()) for c in p["cmds"] + q["cmds"])
    return multi and not ref_equiv(p, q, cfg, ran, relax=("strict-measure",))


def ref_eq_params_same(p, q):
    """the two specs carry the same parameters position by position (so that a state difference cannot come from the parameters)"""
    if len(p["cmds"]) != len(q["cmds"]):
        return True
    return sorted(repr(c[1]) for c in p["cmds"]) == sorted(repr(c[1]) for c in q["cmds"])


def report(ctx, issues, data):
    for sev, sig, what in issues:
        (ctx.counterexample if sev == "cex" else ctx.disagreement)(sig, what, dict(data, signature=sig))


def classify_both_true(p, q, kind, ran):
    """p and q are reported equivalent by implementation AND reference although their states differ.  The recorded weakness is exactly:
    operations that are symmetric under permuting their modes are matched regardless of which modes they act on.  With every operation
    made label-sensitive the reference must then say 'not equivalent'; otherwise this is something else and gets its own signature."""
    if ref_equiv(p, q, {}, ran, relax=("strict",)):
        return "equiv:same-labelled-dag-different-states:" + kind
    if any(c[0] in ("MeasureFock", "MeasureThreshold") and len(c[2]) > 1 and any(v is not None for v in _cmd_opts(c).values()) for c in p["cmds"] + q["cmds"]) and \
            ref_equiv(p, q, {}, ran, relax=("strict-gates",)):
        return "equiv:measure-options-mode-order"
    return "equiv:modes" if kind in ("modes", "modes-order") else "equiv:relabel"


# ---- generators ------------------------------------------------------------------------------------------------------------------------
def rand_unitary(rng, k):
    rs = np.random.RandomState(rng.randrange(2 ** 31))
    qm, r = np.linalg.qr(rs.randn(k, k) + 1j * rs.randn(k, k))
    U = qm * (np.diag(r) / np.abs(np.diag(r)))
    return [U.real.tolist(), U.imag.tolist()]


def arr_times_phase(params, j, delta):
    """U -> U . diag(1, .., e^{i delta} at j, .., 1): still unitary / still a contraction"""
    U = np.array(params[0], dtype=float) + 1j * np.array(params[1], dtype=float)
    D = np.eye(U.shape[0], dtype=complex)
    D[j % U.shape[0], j % U.shape[0]] = np.exp(1j * delta)
    V = U @ D
    return [V.real.tolist(), V.imag.tolist()]


def x_extra_cmd(rng, n):
    r = rng.random()
    if r < 0.25 and n >= 2:
        k = rng.randint(2, min(3, n))
        return ["Interferometer", rand_unitary(rng, k), rng.sample(range(n), k), False]
    if r < 0.4:
        return sfgen.random_cmd(rng, n, ["PassiveChannel"])
    if r < 0.55 and n >= 2:
        return ["sMZgate", [sfgen.draw_param(rng, "a"), sfgen.draw_param(rng, "a")], rng.sample(range(n), 2), False]
    k = min(n, 2 if rng.random() < 0.7 else 1)
    return ["MeasureFock", [], rng.sample(range(n), k), False, {"select": None, "dark_counts": [rng.choice([0.0, 0.1, 0.5, 0.9]) for _ in range(k)]}]


def x_random_spec(rng, max_n=3, max_cmds=6):
    p = sfgen.random_spec(rng, max_n=max_n + (rng.random() < 0.25), max_cmds=max_cmds, exact=rng.random() < 0.3)
    if rng.random() < 0.35:
        for _ in range(rng.randint(1, 2)):
            p["cmds"].insert(rng.randint(0, len(p["cmds"])), x_extra_cmd(rng, p["n"]))
    return p


def touched(c):
    return set(c[2]) | {x["par"] for x in c[1] if isinstance(x, dict) and "par" in x}


X_KINDS = ["same", "prefix", "extend", "dagger", "param", "param", "modes", "modes", "class", "swap", "swap", "swap", "swap", "swap", "relabel", "dropmid", "select", "swapdep", "dup", "dark", "measure-order",
           "param-neg", "param-shift", "param-swap", "select-drop", "measure-subset", "nmodes"]


def x_mutate(rng, spec, kinds=None):
    """(kind, q): q a variant of spec (spec itself may get commands inserted, as in `mutate`); a kind that does not apply is re-drawn"""
    n = spec.get("n", 0)
    plain = "live" not in spec  # programs with New / Del: no insertions
    cm = spec["cmds"]
    if plain and n >= 2 and rng.random() < 0.35:
        a, b = rng.sample(range(n), 2)
        cm.insert(rng.randint(0, len(cm)), ["BSgate", list(rng.choice(SPECIAL_BS)), [a, b], False])
    if plain and rng.random() < 0.3:
        cm.insert(rng.randint(0, len(cm)), sfgen.random_cmd(rng, n, list(sfgen.MEASURE_SEL), 0.0))
    for _ in range(4):
        want = rng.choice(kinds or X_KINDS)
        kind, q = x_variant(rng, spec, want)
        if kind != "same" or want == "same":
            break
    return kind, q


def x_variant(rng, spec, kind):
    q = copy.deepcopy(spec)
    cm = q["cmds"]
    n = q.get("n", 0)
    plain = "live" not in spec
    gates = [i for i, c in enumerate(cm) if c[0] in sfgen.GAUSSIAN_GATES]
    if kind == "select":
        idx = [i for i, c in enumerate(cm) if c[0] in sfgen.MEASURE_SEL]
        if not idx:
            return "same", q
        i = rng.choice(idx)
        cm[i][1][-1] = cm[i][1][-1] + rng.choice([0.5, -0.3, 1e-3, 1e-5])
    elif kind == "select-drop":  # the same measurement without post-selection
        idx = [i for i, c in enumerate(cm) if c[0] == "MeasureHomodyneSel"]
        if not idx:
            return "same", q
        i = rng.choice(idx)
        if rng.random() < 0.5:
            spec["cmds"][i][1][1] = 0.0  # post-selecting on the value 0 is still a post-selection
        cm[i] = ["MeasureHomodyne", [cm[i][1][0]], cm[i][2], False]
    elif kind in ("param-neg", "param-shift", "param-swap"):
        idx = [i for i, c in enumerate(cm) if c[1] and c[0] not in ARRAY_OPS and all(not isinstance(x, dict) for x in c[1]) and (kind != "param-swap" or len(c[1]) == 2)]
        if not idx:
            return "same", q
        i = rng.choice(idx)
        j = rng.randrange(len(cm[i][1]))
        if kind == "param-neg":
            if cm[i][1][j] == 0:
                return "same", q
            cm[i][1][j] = -cm[i][1][j]
        elif kind == "param-shift":
            cm[i][1][j] = cm[i][1][j] + rng.choice([math.pi, -math.pi, 2 * math.pi, math.pi / 2])
        else:
            cm[i][1] = [cm[i][1][1], cm[i][1][0]]
        if cm[i][0] in ("Dgate",) and cm[i][1][0] < 0:
            return "same", q
    elif kind == "dark":
        idx = [i for i, c in enumerate(cm) if c[0] == "MeasureFock" and _cmd_opts(c).get("dark_counts") is not None]
        if not idx:
            return "same", q
        i = rng.choice(idx)
        dc = cm[i][4]["dark_counts"]
        if len(dc) > 1 and dc[0] != dc[-1] and rng.random() < 0.5:
            dc.reverse()
        else:
            j = rng.randrange(len(dc))
            dc[j] = round(dc[j] + rng.choice([0.05, 0.3, 1e-3]), 6)
    elif kind == "nmodes" and plain:  # the same commands in a larger register (== looks at the register; equivalence never does)
        q["n"] = n + 1
    elif kind == "measure-subset":  # a multi-mode measurement on fewer modes
        idx = [i for i, c in enumerate(cm) if c[0].startswith("Measure") and len(c[2]) > 1]
        if not idx:
            return "same", q
        i = rng.choice(idx)
        cm[i][2] = cm[i][2][:-1]
        if len(cm[i]) > 4 and cm[i][4]:
            cm[i][4] = {k: (v[:-1] if v is not None else None) for k, v in cm[i][4].items()}
    elif kind == "measure-order":
        idx = [i for i, c in enumerate(cm) if c[0].startswith("Measure") and len(c[2]) > 1]
        if not idx:
            return "same", q
        i = rng.choice(idx)
        cm[i][2] = list(reversed(cm[i][2]))
    elif kind == "prefix" and cm:
        del cm[rng.randrange(len(cm)):]
    elif kind == "extend":
        live = spec.get("live") or list(range(n))
        c = sfgen.random_cmd(rng, len(live), list(sfgen.GAUSSIAN_GATES))
        c[2] = [live[m] for m in c[2]]
        cm.append(c)
    elif kind == "dup" and cm:
        i = rng.randrange(len(cm))
        if cm[i][0] in ("New", "Del"):
            return "same", q
        cm.insert(i, copy.deepcopy(cm[i]))
    elif kind == "dagger" and gates:
        i = rng.choice(gates)
        cm[i][3] = not cm[i][3]
    elif kind == "param" and cm:
        idx = [i for i, c in enumerate(cm) if c[1]]
        if not idx:
            return "same", q
        i = rng.choice(idx)
        delta = rng.choice(PERTURB)
        if cm[i][0] in ARRAY_OPS:
            r = rng.random()
            im = np.array(cm[i][1][1], dtype=float)
            if r < 0.25 and np.abs(im).max() > 1e-3:      # complex conjugate: only the imaginary parts change
                cm[i][1] = [cm[i][1][0], (-im).tolist()]
            elif r < 0.4 and len(cm[i][1][0]) > 1:        # transpose: the same entries in other places
                cm[i][1] = [np.array(cm[i][1][0], dtype=float).T.tolist(), im.T.tolist()]
                if cm[i][1] == spec["cmds"][i][1]:
                    return "same", q
            else:
                cm[i][1] = arr_times_phase(cm[i][1], rng.randrange(3), delta)
        else:
            j = rng.randrange(len(cm[i][1]))
            x = cm[i][1][j]
            if isinstance(x, dict):
                x["add"] = x.get("add", 0.0) + delta
            else:
                cm[i][1][j] = x + delta
    elif kind == "modes" and cm and n >= 2:
        multi = [k for k, c in enumerate(cm) if len(c[2]) >= 2]
        cand = [k for k, c in enumerate(cm) if c[0] not in ("New", "Del")]
        if not cand:
            return "same", q
        i = rng.choice(multi) if multi and rng.random() < 0.6 else rng.choice(cand)
        nm = len(cm[i][2])
        live = spec.get("live") or list(range(n))
        r = rng.random()
        if nm >= 2 and r < 0.55:
            old = list(cm[i][2])
            new = list(reversed(old)) if nm == 2 or rng.random() < 0.5 else old[1:] + old[:1]
            cm[i][2] = new
            return kind, q
        free = [m for m in live if m not in cm[i][2]]
        if nm >= 2 and r < 0.8 and free:  # exactly one of the modes replaced
            cm[i][2][rng.randrange(nm)] = rng.choice(free)
            return kind, q
        new = rng.sample(live, nm) if len(live) >= nm else list(cm[i][2])
        if new == cm[i][2]:
            new = new[1:] + new[:1] if nm >= 2 else [live[(live.index(new[0]) + 1) % len(live)]]
        if new == cm[i][2]:
            return "same", q
        cm[i][2] = new
    elif kind == "class" and cm:
        i = rng.randrange(len(cm))
        if cm[i][0] not in sfgen.GAUSSIAN_GATES:
            return "same", q
        nm, np_ = len(cm[i][2]), len(cm[i][1])
        alts = [x for x, (m_, ks) in sfgen.GAUSSIAN_GATES.items() if m_ == nm and len(ks) == np_ and x != cm[i][0]]
        if not alts:
            return "same", q
        cm[i][0] = rng.choice(alts)
    elif kind == "swap" and len(cm) >= 3 and rng.random() < 0.4:
        # a chain of swaps of adjacent independent commands: one command moved to the front of the commands it is independent of
        cand = []
        for j in range(1, len(cm)):
            i = j
            while i > 0 and not (touched(cm[j]) & touched(cm[i - 1])) and "New" not in (cm[j][0], cm[i - 1][0]):
                i -= 1
            if i < j and any(cm[k] != cm[j] for k in range(i, j)):
                cand.append((i, j))
        if not cand:
            return "same", q
        i, j = rng.choice(cand)
        i = rng.randint(i, j - 1)
        cm.insert(i, cm.pop(j))
    elif kind in ("swap", "swapdep") and len(cm) >= 2:
        indep = kind == "swap"
        cand = [i for i in range(len(cm) - 1) if (not (touched(cm[i]) & touched(cm[i + 1]))) == indep and cm[i] != cm[i + 1]
                and "New" not in (cm[i][0], cm[i + 1][0])]
        if not cand:
            return "same", q
        i = rng.choice(cand)
        cm[i], cm[i + 1] = cm[i + 1], cm[i]
    elif kind == "relabel" and n >= 2 and plain:
        perm = list(range(n))
        rng.shuffle(perm)
        if perm == list(range(n)):
            return "same", q
        for c in cm:
            c[2] = [perm[m] for m in c[2]]
            for x in c[1]:
                if isinstance(x, dict) and "par" in x:
                    x["par"] = perm[x["par"]]
    elif kind == "dropmid" and len(cm) >= 2:
        del cm[rng.randrange(len(cm) - 1)]
    else:
        kind = "same"
    if q == spec:
        kind = "same"
    return kind, q


TOL_CFGS = [{"atol": 1e-3}, {"atol": 1e-9}, {"atol": 0.0, "rtol": 1e-2}, {"atol": 1e-4, "rtol": 1e-3}]
NONTRIVIAL_KINDS = ("prefix", "extend", "dagger", "swap", "dropmid", "relabel", "swapdep", "dup", "modes-order", "measure-order", "dark", "select-drop", "param-swap")


def buildable(*specs):
    try:
        for s in specs:
            x_build(s)
        return True
    except Exception:
        return False


def run_pairs(ctx, pairs, bucket, eq_batch=None):
    """pairs: iterable of judge_pair inputs; records cases, reports issues; collects (p, q, impl ==) for the Coq model batch."""
    for d in pairs:
        if not buildable(d["p"], d["q"]):
            ctx.case({"skipped": "not buildable", "kind": d.get("kind")}, bucket=bucket + "-unbuildable")
            continue
        try:
            issues, info = judge_pair(d, want_info=True)
        except Exception as e:  # a harness error must not pass silently
            import traceback
            ctx.obligation("judge:%s:%s" % (bucket, d.get("kind")), False, "%r\n%s\n%s" % (e, traceback.format_exc()[-1500:], json.dumps(d, default=repr)[:1500]))
            continue
        ctx.case({"kind": d["kind"], "p": d["p"], "q": d["q"], "verdicts": info}, nontrivial=d["kind"] in NONTRIVIAL_KINDS or bool(d.get("nontrivial")),
                 bucket="%s-%s" % (bucket, d["kind"]))
        report(ctx, issues, d)
        if eq_batch is not None and info.get("eq") is not None:
            eq_batch.append((d["p"], d["q"], info["eq"], d))


def search_random2(ctx, eq_batch):
    """random pairs from the extended family through ==, equivalence (default, compare_params=False, a user tolerance) and the reference"""
    rng = ctx.rng

    def gen():
        for _ in range(ctx.budget(260, 2600)):
            p = x_random_spec(rng)
            kind, q = x_mutate(rng, p)
            yield {"check": "x", "kind": kind, "p": p, "q": q, "calls": [{}, {"compare_params": False}, dict(rng.choice(TOL_CFGS))]}
    run_pairs(ctx, gen(), "x", eq_batch)


PI = math.pi
BS_VALUES = [[PI / 4, PI / 2], [PI / 4, PI / 2 + 1e-3], [PI / 4 + 1e-3, PI / 2], [PI / 4, PI / 2 + 0.04], [PI / 4 - 0.03, PI / 2 - 0.04], [5 * PI / 4, PI / 2], [PI / 4, 3 * PI / 2],
             [PI / 4, -PI / 2], [-3 * PI / 4, -PI / 2], [-PI / 4, PI / 2], [3 * PI / 4, PI / 2], [PI / 4, 0.0], [PI / 4, PI], [3 * PI / 4, 0.0], [0.3, PI / 2], [PI / 4, 0.3],
             [PI / 2, PI / 2], [3 * PI / 4, PI], [0.0, 0.0], [PI / 4 + PI / 2, PI / 2 + PI / 2], [0.4, 0.2]]


def multimode_families(rng):
    fam = [("BSgate", v, 2) for v in BS_VALUES]
    fam += [("BSgate", v, 2) for v in ([PI / 2, PI / 4], [PI / 4 + PI, PI / 2 + PI], [PI / 4, PI / 2 + 3e-5])]
    fam += [("CXgate", [s], 2) for s in (0.0, 1e-9, 1e-3, 0.4, -0.7, PI, 2 * PI)]
    fam += [("CZgate", [0.3], 2), ("S2gate", [0.3, 0.1], 2), ("MZgate", [0.3, 0.2], 2), ("MZgate", [PI / 2, PI / 2], 2), ("sMZgate", [0.3, 0.2], 2), ("CKgate", [0.3], 2)]
    fam += [("Interferometer", None, 2), ("Interferometer", None, 3), ("PassiveChannel", None, 2), ("PassiveChannel", None, 3), ("Gaussian", None, 2)]
    return fam


def search_multimode(ctx, eq_batch):
    """every multi-mode operation class, at the parameter values the comparison treats specially (and near them, and shifted by pi), on
    permuted modes inside a random context: `equivalent` must agree with the reference and, when True, with the states"""
    rng = ctx.rng

    def gen():
        for name, params, k in multimode_families(rng):
            for rep in range(ctx.budget(2, 6)):
                n = rng.randint(k, 3) if k < 3 else rng.randint(3, 4)
                modes = rng.sample(range(n), k)
                perm = list(reversed(modes)) if k == 2 or rep % 2 == 0 else modes[1:] + modes[:1]
                free = [m for m in range(n) if m not in modes]
                if free and rng.random() < 0.3:  # one mode replaced instead of a permutation
                    perm = list(modes)
                    perm[rng.randrange(k)] = rng.choice(free)
                if name == "Gaussian":  # a two-mode covariance matrix (xxpp, hbar = 2) and mean vector: two array parameters of different shapes
                    vx = [round(rng.uniform(0.6, 2.0), 3) for _ in range(2)]
                    pr = [np.diag(vx + [round(1.0 / v + rng.uniform(0.0, 0.5), 3) for v in vx]).tolist(), [round(rng.uniform(-1, 1), 3) for _ in range(4)]]
                elif params is None:
                    pr = rand_unitary(rng, k) if name == "Interferometer" else sfgen.passive_T(rng, k)
                else:
                    pr = list(params)
                dag = name in sfgen.GAUSSIAN_GATES and rng.random() < 0.25
                ctxgates = [x for x in sfgen.GAUSSIAN_GATES if not (name == "CKgate" and x in ("MZgate",))]
                pre = [sfgen.random_cmd(rng, n, ctxgates) for _ in range(rng.randint(1, 3))]
                post = [sfgen.random_cmd(rng, n, ctxgates) for _ in range(rng.randint(0, 2))]
                p = {"n": n, "cmds": pre + [[name, copy.deepcopy(pr), modes, dag]] + post}
                q = {"n": n, "cmds": copy.deepcopy(pre) + [[name, copy.deepcopy(pr), perm, dag]] + copy.deepcopy(post)}
                yield {"check": "x", "kind": "modes-order", "p": p, "q": q, "calls": [{}, {"compare_params": False}], "family": name}
        for name, k in (("Interferometer", 2), ("Interferometer", 3), ("PassiveChannel", 2)):
            for rep in range(ctx.budget(2, 6)):
                n = 3
                modes = rng.sample(range(n), k)
                pr = rand_unitary(rng, k) if name == "Interferometer" else sfgen.passive_T(rng, k)
                re_, im_ = np.array(pr[0], dtype=float), np.array(pr[1], dtype=float)
                qr = [re_.tolist(), (-im_).tolist()] if rep % 2 == 0 else [re_.T.tolist(), im_.T.tolist()]
                pre = [sfgen.random_cmd(rng, n, list(sfgen.GAUSSIAN_GATES)) for _ in range(rng.randint(1, 3))]
                p = {"n": n, "cmds": pre + [[name, pr, modes, False]]}
                q = {"n": n, "cmds": copy.deepcopy(pre) + [[name, qr, list(modes), False]]}
                if p != q:
                    yield {"check": "x", "kind": "param", "p": p, "q": q, "calls": [{}], "family": name, "nontrivial": True}
        # degenerate lengths: the empty program against a non-empty one, a single command against two
        for _ in range(ctx.budget(3, 12)):
            n = rng.randint(1, 3)
            c = sfgen.random_cmd(rng, n, list(sfgen.GAUSSIAN_GATES))
            c2 = sfgen.random_cmd(rng, n, list(sfgen.GAUSSIAN_GATES))
            yield {"check": "x", "kind": "extend", "p": {"n": n, "cmds": []}, "q": {"n": n, "cmds": [c]}, "calls": [{}, {"compare_params": False}]}
            yield {"check": "x", "kind": "extend", "p": {"n": n, "cmds": [c]}, "q": {"n": n, "cmds": [copy.deepcopy(c), c2]}, "calls": [{}, {"compare_params": False}]}
    run_pairs(ctx, gen(), "mm", eq_batch)


TOL_SITES = [("Dgate", [0.4, 0.3], 0), ("Dgate", [0.4, 0.3], 1), ("Sgate", [0.3, 0.2], 0), ("Sgate", [0.3, 0.2], 1), ("Rgate", [0.3], 0), ("Xgate", [0.3], 0), ("Zgate", [0.3], 0),
             ("Pgate", [0.3], 0), ("BSgate", [0.4, 0.2], 0), ("BSgate", [0.4, 0.2], 1), ("S2gate", [0.3, 0.2], 0), ("S2gate", [0.3, 0.2], 1), ("MZgate", [0.3, 0.2], 0), ("MZgate", [0.3, 0.2], 1),
             ("CXgate", [0.3], 0), ("CZgate", [0.3], 0), ("MeasureHomodyneSel", [0.3, 0.2], 0)]
TOL_SWEEP_CFGS = [{}, {"atol": 1e-3}, {"atol": 1e-9}, {"atol": 0.0, "rtol": 0.05}, {"atol": 1e-4, "rtol": 1e-2}, {"rtol": 1e-3}]


def search_tolerance(ctx, eq_batch):
    """|a - b| <= atol + rtol |b| : parameter pairs well inside / well outside the tolerance, for the default and for user-given atol / rtol
    (through Program.equivalence's keyword arguments), at every parameter position of the gate classes"""
    rng = ctx.rng
    combos = [(s, b, c, f) for s in TOL_SITES for b in (0.3, -2.5, 1.0) for c in range(len(TOL_SWEEP_CFGS)) for f in (0.45, 2.2)]
    rng.shuffle(combos)

    def gen():
        for (name, base, j), b, ci, f in combos[:ctx.budget(90, len(combos))]:
            cfg = dict(TOL_SWEEP_CFGS[ci])
            tol = cfg.get("atol", 1e-6) + cfg.get("rtol", 0) * abs(b)
            delta = f * tol * rng.choice([1, -1])
            pr = list(base)
            pr[j] = b
            if name in ("Dgate",) and j == 0:
                pr[j] = abs(b)
            qr = list(pr)
            qr[j] = pr[j] + delta
            nm = sfgen.ALL[name][0]
            n = rng.randint(nm, 3)
            modes = rng.sample(range(n), nm)
            pre = [["Sgate", [0.4, 0.3], [modes[0]], False], ["Dgate", [0.5, 0.1], [modes[-1]], False]]
            if nm == 2:
                pre.append(["BSgate", [0.5, 0.3], modes, False])
            post = [sfgen.random_cmd(rng, n, list(sfgen.GAUSSIAN_GATES)) for _ in range(rng.randint(0, 2))]
            p = {"n": n, "cmds": pre + [[name, pr, modes, False]] + post}
            q = {"n": n, "cmds": copy.deepcopy(pre) + [[name, qr, modes, False]] + copy.deepcopy(post)}
            yield {"check": "x", "kind": "tolerance", "p": p, "q": q, "calls": [cfg], "nontrivial": True, "inside": f < 1}
        # the relative tolerance uses the SECOND program's value: 1.0 vs 1.051 with rtol = 0.05
        for a, b in ((1.0, 1.051), (-2.0, -2.09)):
            yield {"check": "x", "kind": "tolerance", "p": {"n": 1, "cmds": [["Rgate", [a], [0], False]]}, "q": {"n": 1, "cmds": [["Rgate", [b], [0], False]]},
                   "calls": [{"atol": 0.0, "rtol": 0.05}], "nontrivial": True}
    run_pairs(ctx, gen(), "tol", eq_batch)


SYM_GATES = [("Rgate", 1, 1), ("Dgate", 1, 2), ("Sgate", 1, 2), ("Xgate", 1, 1), ("Zgate", 1, 1), ("Pgate", 1, 1), ("BSgate", 2, 2), ("S2gate", 2, 2), ("MZgate", 2, 2), ("CZgate", 2, 1)]


def search_symbolic(ctx, eq_batch):
    """free parameters: bound / unbound, renamed, replaced by their values; measured parameters before the run.  `==` compares symbols,
    equivalence compares values (ParameterError when there is none), compare_params=False needs no value at all."""
    rng = ctx.rng

    def base():
        n = rng.randint(2, 3)
        cmds = [["Sgate", [0.4, 0.2], [0], False], ["Dgate", [0.3, 0.1], [1], False]]
        names = ["a", "b"]
        bind = {"a": round(rng.uniform(0.2, 0.9), 3), "b": round(rng.uniform(-0.9, -0.2), 3)}
        used = set()
        for _ in range(rng.randint(1, 4)):
            gates = SYM_GATES + ([("CXgate", 2, 1)] if rng.random() < 0.08 else [])
            name, nm, npar = rng.choice(gates)
            modes = rng.sample(range(n), nm)
            pr = [round(rng.uniform(0.1, 0.6), 3) for _ in range(npar)]
            if rng.random() < 0.7:
                nmz = rng.choice(names)
                used.add(nmz)
                pr[rng.randrange(npar)] = {"free": nmz, "mul": rng.choice([1.0, 1.0, 0.5, -1.0]), "add": rng.choice([0.0, 0.0, 0.25])}
            cmds.append([name, pr, modes, name != "MZgate" and rng.random() < 0.2])
        if not used:
            cmds.append(["Rgate", [{"free": "a", "mul": 1.0, "add": 0.0}], [0], False])
        return {"n": n, "cmds": cmds, "bind": bind}

    def rename(s, table):
        s = copy.deepcopy(s)
        for c in s["cmds"]:
            for x in c[1]:
                if isinstance(x, dict) and "free" in x:
                    x["free"] = table[x["free"]]
        s["bind"] = {table[k]: v for k, v in s.get("bind", {}).items()}
        return s

    def gen():
        for _ in range(ctx.budget(50, 500)):
            p = base()
            kind = rng.choice(["same", "rename", "rename-value", "unbound", "unbound-one", "numeric", "swap", "dagger", "modes", "param"])
            q = copy.deepcopy(p)
            if kind == "rename":
                q = rename(p, {"a": "c", "b": "d"})
            elif kind == "rename-value":
                q = rename(p, {"a": "c", "b": "d"})
                k = rng.choice(sorted(q["bind"]))
                q["bind"][k] = q["bind"][k] + rng.choice([0.3, 1e-3, 3e-6])
            elif kind == "unbound":
                p["bind"] = {}
                q["bind"] = {}
                if rng.random() < 0.5:
                    _, q = x_mutate(rng, p, ["swap", "dagger", "modes", "same", "prefix"])
                    q["bind"] = {}
            elif kind == "unbound-one":
                q = rename(p, {"a": "c", "b": "d"})
                q["bind"] = {}
            elif kind == "numeric":
                for c in q["cmds"]:
                    c[1] = [x["mul"] * p["bind"][x["free"]] + x["add"] if isinstance(x, dict) and "free" in x else x for x in c[1]]
            else:
                kind, q = x_mutate(rng, p, [kind])
                if "bind" in p:
                    q["bind"] = dict(p["bind"])
            yield {"check": "x", "kind": "sym-" + kind, "p": p, "q": q, "calls": [{}, {"compare_params": False}], "nontrivial": True}
        # measured parameters before any run: values do not exist
        for _ in range(ctx.budget(6, 40)):
            p = ff_program(rng)
            q = ff_variant(rng, p) or copy.deepcopy(p)
            yield {"check": "x", "kind": "ff-not-run", "p": p, "q": q, "calls": [{}, {"compare_params": False}], "nontrivial": True}
    run_pairs(ctx, gen(), "sym", eq_batch)


def search_history(ctx, eq_batch):
    """programs that create and delete modes along the way"""
    rng = ctx.rng

    def gen():
        for _ in range(ctx.budget(70, 700)):
            p = sfgen.random_history_spec(rng, list(sfgen.GAUSSIAN_GATES), ncmds=rng.randint(3, 8), p_new=0.2, p_del=0.2)
            kind, q = x_mutate(rng, p, ["same", "prefix", "extend", "dagger", "param", "modes", "swap", "swap", "swapdep", "dropmid", "dup"])
            for s in (p, q):
                s.pop("live", None)
                s.pop("total", None)
            yield {"check": "x", "kind": kind, "p": p, "q": q, "calls": [{}, {"compare_params": False}], "nontrivial": True}
    run_pairs(ctx, gen(), "hist", eq_batch)


def search_ff2(ctx, eq_batch):
    """feed-forward programs AFTER a run (measured parameters have values; the default, parameter-comparing test applies)"""
    rng = ctx.rng

    def gen():
        for _ in range(ctx.budget(250, 2000)):
            p = ff_program(rng)
            q = ff_variant(rng, p)
            if q is None:
                continue
            yield {"check": "x", "kind": "ff-reorder", "p": p, "q": q, "ran": True, "calls": [{}, {"compare_params": False}], "nontrivial": True}
    run_pairs(ctx, gen(), "ff2", None)


def search_targets(ctx, eq_batch):
    """compile targets: == distinguishes programs compiled for different targets (and compiled from uncompiled); the circuit still counts"""
    rng = ctx.rng
    prim = ["Dgate", "Sgate", "Rgate", "BSgate"]

    def gen():
        for _ in range(ctx.budget(14, 80)):
            n = rng.randint(1, 3)
            p = {"n": n, "cmds": [sfgen.random_cmd(rng, n, prim, 0.0) for _ in range(rng.randint(1, 4))]}
            kind, q = x_mutate(rng, p, ["same", "same", "param", "prefix", "swap"])
            p = {"n": n, "cmds": [c for c in p["cmds"] if c[0] in prim]}
            q = {"n": n, "cmds": [c for c in q["cmds"] if c[0] in prim]}
            if kind != "same" and p == q:
                kind = "same"
            ta, tb = rng.choice(COMPILERS), rng.choice(COMPILERS)
            if ta:
                p["compile"] = ta
            if tb:
                q["compile"] = tb
            try:
                ok = all([type(c.op).__name__ for c in x_build(s).circuit] == [c[0] for c in s["cmds"]] for s in (p, q))
            except Exception:
                ok = False
            if not ok:
                continue
            yield {"check": "x", "kind": "target-" + kind, "p": p, "q": q, "calls": [{}], "nontrivial": ta != tb}
    run_pairs(ctx, gen(), "target", eq_batch)


def search_measure_options(ctx, eq_batch):
    """multi-mode photon-counting measurements with post-selection / dark counts per mode: the i-th value belongs to the i-th listed mode"""
    rng = ctx.rng

    def gen():
        # post-selection on the outcome 0 against no post-selection at all
        for rep in range(ctx.budget(2, 8)):
            pre = [["Sgate", [0.5, 0.2], [0], False], ["Dgate", [0.4, 0.3], [1], False], ["BSgate", [0.5, 0.1], [0, 1], False]]
            m = rng.randrange(2)
            if rep % 2 == 0:
                phi = rng.choice([0.0, 0.3, PI / 2])
                a, b = ["MeasureHomodyneSel", [phi, 0.0], [m], False], ["MeasureHomodyne", [phi], [m], False]
            else:
                a, b = ["MeasureHeterodyneSel", [0.0, 0.0], [m], False], ["MeasureHeterodyne", [], [m], False]
            yield {"check": "x", "kind": "select-drop", "p": {"n": 2, "cmds": pre + [a]}, "q": {"n": 2, "cmds": copy.deepcopy(pre) + [b]}, "calls": [{}], "nontrivial": True}
        for rep in range(ctx.budget(6, 30)):
            n = 3
            pre = [["Sgate", [round(rng.uniform(0.4, 0.7), 2), 0.0], [0], False], ["Dgate", [round(rng.uniform(0.3, 0.6), 2), 0.0], [1], False], ["Dgate", [0.3, 0.4], [2], False],
                   ["BSgate", [0.5, 0.1], [0, 1], False], ["BSgate", [0.7, 0.3], [1, 2], False]]
            m = rng.sample(range(n), 2)
            which = rep % 6
            if which == 0:    # same values, modes listed in the other order: a different post-selection
                o1, o2, m2, kind = {"select": [0, 1]}, {"select": [0, 1]}, m[::-1], "measure-order"
            elif which == 1:  # values and modes both reversed: the same measurement
                o1, o2, m2, kind = {"select": [0, 1]}, {"select": [1, 0]}, m[::-1], "measure-order-consistent"
            elif which == 2:  # values reversed only
                o1, o2, m2, kind = {"select": [0, 1]}, {"select": [1, 0]}, m, "select"
            elif which == 3:
                o1, o2, m2, kind = {"dark_counts": [0.1, 0.8]}, {"dark_counts": [0.8, 0.1]}, m, "dark"
            elif which == 4:  # fewer modes measured
                o1, o2, m2, kind = {"dark_counts": [0.1, 0.8]}, {"dark_counts": [0.1]}, m[:1], "measure-subset"
            else:
                o1, o2, m2, kind = {}, {}, m[:1], "measure-subset"
            cls = "MeasureFock" if which != 1 or rng.random() < 0.7 else "MeasureFock"
            p = {"n": n, "cmds": pre + [[cls, [], m, False, o1]]}
            q = {"n": n, "cmds": copy.deepcopy(pre) + [[cls, [], m2, False, o2]]}
            yield {"check": "x", "kind": kind, "p": p, "q": q, "calls": [{}], "nontrivial": True}
    run_pairs(ctx, gen(), "mopt", eq_batch)


# ---- TDM programs ------------------------------------------------------------------------------------------------------------------------
def tdm_build(spec):
    from strawberryfields.tdm import TDMProgram
    from strawberryfields import ops
    t = spec["tdm"]
    prog = TDMProgram(N=t["N"])
    with prog.context(*t["arrays"]) as (pp, q):
        for name, params, modes in t["cmds"]:
            getattr(ops, name)(*[pp[x["tb"]] if isinstance(x, dict) else x for x in params]) | tuple(q[m] for m in modes)
    return prog


def tdm_run(spec):
    import strawberryfields as sf
    np.random.seed(5)
    r = sf.Engine("gaussian").run(tdm_build(spec))
    return ("tdm", np.array(r.samples, dtype=float))


def judge_tdm(d):
    p, q = d["p"], d["q"]
    issues = []
    P, Q = x_build(p), x_build(q)
    try:
        r1, r2 = bool(P == Q), bool(Q == P)
    except Exception as e:
        return [("cex", "eq:tdm:raises:" + type(e).__name__, "== raised %r on TDM programs" % e)]
    want = p == q
    if r1 != r2:
        issues.append(("cex", "eq:asymmetric", "TDM programs: p == q %s, q == p %s" % (r1, r2)))
    if (r1 or r2) and not want:
        dd = x_differ(p, q, 1e-9)
        what = "time-bin-parameters" if ("tdm" in p and "tdm" in q and p["tdm"]["cmds"] == q["tdm"]["cmds"]) else "structure"
        issues.append(("cex" if dd else "dis", ("eq:tdm:accepts:" if dd else "corr:eq:tdm:accepts:") + what,
                       "== reports equal for time-domain programs that differ in %s%s" % (what, " and produce different samples under the same seed" if dd else "")))
    if want and not r1:
        issues.append(("dis", "corr:eq:tdm:rejects", "== reports different for identically built TDM programs"))
    return issues


def search_tdm(ctx):
    rng = ctx.rng
    for _ in range(ctx.budget(4, 20)):
        arrays = [[round(rng.uniform(0.1, 0.9), 2) for _ in range(2)] for _ in range(2)]
        cmds = [["Sgate", [0.5, 0.0], [1]], ["BSgate", [{"tb": 0}, 0.0], [0, 1]], ["Rgate", [0.4], [0]], ["MeasureHomodyne", [{"tb": 1}], [0]]]
        p = {"tdm": {"N": 2, "arrays": arrays, "cmds": cmds}}
        kind = rng.choice(["same", "arrays", "arrays", "gate", "plain"])
        q = copy.deepcopy(p)
        if kind == "arrays":
            q["tdm"]["arrays"][rng.randrange(2)][rng.randrange(2)] += rng.choice([0.3, 0.05])
        elif kind == "gate":
            q["tdm"]["cmds"][2][1][0] += 0.2
        elif kind == "plain":
            q = {"n": 2, "cmds": [["Sgate", [0.5, 0.0], [1], False], ["BSgate", [arrays[0][0], 0.0], [0, 1], False], ["Rgate", [0.4], [0], False]]}
        d = {"check": "tdm", "kind": "tdm-" + kind, "p": p, "q": q}
        ctx.case({"kind": d["kind"], "p": p, "q": q}, nontrivial=kind != "same", bucket="tdm-" + kind)
        report(ctx, judge_tdm(d), d)


# ---- the Coq model of == on the extended family ------------------------------------------------------------------------------------------
def enc_prog_x(spec, pid, side):
    def enc_cmd(c):
        cc = canon_cmd(c, side)
        opts = [] if cc["options"] == (None, None) else [pid(("opt", repr(cc["options"])))]
        return "mkCmd %d %s %s %s %s" % (XNAMES.index(cc["class"]) if cc["class"] in XNAMES else len(XNAMES) + ["_New_modes", "_Delete"].index(cc["class"]),
                                        coq.coq_list([pid(x) for x in cc["params"]], coq.coq_Z), coq.coq_list(cc["modes"], str), coq.coq_bool(cc["dagger"]), coq.coq_list(opts, coq.coq_Z))
    tgt = "None" if not spec.get("compile") else "(Some %d)" % COMPILERS.index(spec["compile"])
    reg = coq.coq_list(["(%d, true)" % i for i in final_register(spec)])
    return "(mkProg %s %s %s)" % (tgt, reg, coq.coq_list([enc_cmd(c) for c in spec["cmds"]], lambda s: "(%s)" % s))


def coq_eq_batch(ctx, batch):
    """impl (p == q, q == p, p == p) against prog_eq of coq/C18/Model.v on every pair the new streams looked at"""
    batch = [b for b in batch if "tdm" not in b[0] and "tdm" not in b[1]]
    for si in range(0, len(batch), 500):
        sh = batch[si:si + 500]
        items = []
        for p, q, _, _ in sh:
            table = {}
            pid = lambda v: table.setdefault(repr(v), len(table))
            items.append("(%s, %s)" % (enc_prog_x(p, pid, "L"), enc_prog_x(q, pid, "R")))
        lines = ["From Coq Require Import List ZArith Bool.", "Import ListNotations.", "From SFV Require Import C18.Model.", "Definition cases : list (prog * prog) := [",
                 ";\n".join(items) + "].", "Eval vm_compute in map (fun c => (prog_eq (fst c) (snd c), prog_eq (snd c) (fst c), prog_eq (fst c) (fst c))) cases."]
        ok, vals, raw = ctx.coq_eval("cases_x_%d" % (si // 500), "\n".join(lines))
        if not ok:
            ctx.obligation("correspondence:prog_eq:extended:%d" % (si // 500), False, raw)
            return
        ctx.obligation("correspondence:prog_eq:extended:%d" % (si // 500), True)
        ctx.traces += len(sh)
        for (p, q, ie, d), me in zip(sh, vals[0]):
            if tuple(ie) != tuple(me):
                aspect = ref_eq(p, q)[1] or d.get("kind", "?")
                dd = x_differ(p, q, 1e-6 if spec_has_measurement(p) else 1e-10) if (ie[0] or ie[1]) else None
                if dd:
                    ctx.counterexample("eq:accepts:" + aspect, "Program.__eq__ reports equal (model prog_eq: %s) for programs that differ in %s and compute different states" % (list(me), aspect),
                                       dict(d, signature="eq:accepts:" + aspect))
                else:
                    ctx.disagreement("corr:eq:model:" + aspect, "model prog_eq %s vs implementation %s on a '%s' pair" % (list(me), list(ie), d.get("kind")), dict(d, signature="corr:eq:model:" + aspect))


def search(ctx):
    """Property predicate on the implementation, on every family; each verdict is also compared with the reference model (ref_equiv / ref_eq)
    and, for ==, with prog_eq of coq/C18/Model.v."""
    eq_batch = []
    search_random2(ctx, eq_batch)
    search_multimode(ctx, eq_batch)
    search_tolerance(ctx, eq_batch)
    search_symbolic(ctx, eq_batch)
    search_history(ctx, eq_batch)
    search_ff2(ctx, eq_batch)
    search_targets(ctx, eq_batch)
    search_measure_options(ctx, eq_batch)
    search_tdm(ctx)
    search_registers(ctx)
    coq_eq_batch(ctx, eq_batch)


def replay(ctx, data):
    d = dict(data["data"])
    want = data.get("signature") or d.get("signature")
    chk = d.get("check")
    if chk == "equiv":  # older replay files of the random stream
        d = {"check": "x", "kind": d.get("kind", "?"), "p": d["p"], "q": d["q"], "calls": [{}], "skip_eq": True}
        chk = "x"
    if chk in ("x", "tdm"):
        issues = judge_pair(d) if chk == "x" else judge_tdm(d)
        for sev, sig, what in issues:
            print("%s [%s] %s" % (sev, sig, what))
        if want:
            return any(sig == want for _, sig, _ in issues)
        return any(sev == "cex" for sev, _, _ in issues)
    return replay_old(ctx, data)
