"""C10 helpers: parameter expression trees, sympy builders, reference evaluator, program specs.

A *tree* is plain JSON:
    number                      numeric constant
    ["arrc", [numbers]]         numeric array constant
    ["free", name]              FreeParameter
    ["meas", k]                 MeasuredParameter of mode k
    ["neg", t] ["add", a, b] ["mul", a, b] ["div", a, b] ["pow", t, n]
    ["fn", fname, t, ...]       strawberryfields.math / par_funcs function
    ["arr", [t, ...]]           numpy array of the element expressions
"""
import math
import warnings

warnings.filterwarnings("ignore")
import numpy as np  # noqa: E402

import strawberryfields as sf  # noqa: E402
from strawberryfields import ops  # noqa: E402
from strawberryfields import parameters as sfpar  # noqa: E402
from strawberryfields.parameters import par_funcs as pf  # noqa: E402

FN1 = ["sin", "cos", "exp", "tanh", "cosh", "sinh", "atan", "asinh", "Abs", "sign", "sqrt", "acosh"]
FN2 = ["atan2"]
FN_IDS = {n: i for i, n in enumerate(FN1 + FN2)}


class ShapeError(Exception):
    pass


class RefParamError(Exception):
    pass


# ----------------------------------------------------------------------------------------
# reference evaluation on Python floats (same operation order as the Coq model)

def _f1(name, x):
    if name == "sqrt":
        return math.sqrt(x)
    if name == "acosh":
        return math.acosh(x)
    if name == "Abs":
        return abs(x)
    if name == "sign":
        return 0.0 if x == 0 else math.copysign(1.0, x)
    return float(getattr(np, {"atan": "arctan", "asinh": "arcsinh"}.get(name, name))(x))


def _f2(name, x, y):
    assert name == "atan2"
    return math.atan2(x, y)


def _bc1(f, a):
    return [f(x) for x in a] if isinstance(a, list) else f(a)


def _bc2(f, a, b):
    la, lb = isinstance(a, list), isinstance(b, list)
    if la and lb:
        if len(a) != len(b):
            raise ShapeError()
        return [f(x, y) for x, y in zip(a, b)]
    if la:
        return [f(x, b) for x in a]
    if lb:
        return [f(a, y) for y in b]
    return f(a, b)


def _pow(x, n):
    r = 1.0
    for _ in range(n):
        r = r * x
    return r


def squeeze(v):
    """np.squeeze(res).item() / np.squeeze(res) of MeasuredParameter._eval_evalf on a 1-d list."""
    if isinstance(v, list):
        return v[0] if len(v) == 1 else list(v)
    return v


def tree_eval(t, free, meas, oracle=None):
    """free: name -> value or None; meas: k -> list/number or None.  Raises RefParamError/ShapeError.
    ParameterError dominates shape errors (the implementation evaluates all atoms first).
    oracle (list) collects (fn id, args, value) for the Coq model's function table."""
    for kind, a in atoms(t):
        if kind == "free" and free.get(a) is None:
            raise RefParamError("free:%s" % a)
        if kind == "meas" and meas.get(a) is None:
            raise RefParamError("meas:%s" % a)

    def go(t):
        if isinstance(t, (int, float)):
            return float(t)
        k = t[0]
        if k == "arrc":
            return [float(x) for x in t[1]]
        if k == "free":
            v = free[t[1]]
            return [float(x) for x in v] if isinstance(v, list) else float(v)
        if k == "meas":
            v = squeeze(meas[t[1]])
            return [float(x) for x in v] if isinstance(v, list) else float(v)
        if k == "neg":
            return _bc1(lambda x: -x, go(t[1]))
        if k == "add":
            return _bc2(lambda x, y: x + y, go(t[1]), go(t[2]))
        if k == "mul":
            return _bc2(lambda x, y: x * y, go(t[1]), go(t[2]))
        if k == "div":
            return _bc2(lambda x, y: x / y, go(t[1]), go(t[2]))
        if k == "pow":
            return _bc1(lambda x: _pow(x, t[2]), go(t[1]))
        if k == "fn":
            name = t[1]
            args = [go(x) for x in t[2:]]
            if len(args) == 1:
                def f(x):
                    y = _f1(name, x)
                    if oracle is not None:
                        oracle.append((FN_IDS[name], (x,), y))
                    return y
                return _bc1(f, args[0])
            la = [isinstance(a, list) for a in args]
            if any(la) and not all(la):
                raise ShapeError()

            def f2(x, y):
                z = _f2(name, x, y)
                if oracle is not None:
                    oracle.append((FN_IDS[name], (x, y), z))
                return z
            return _bc2(f2, args[0], args[1])
        if k == "arr":
            out = []
            for x in t[1]:
                v = go(x)
                if isinstance(v, list):
                    raise ShapeError()
                out.append(v)
            return out
        raise ValueError("bad tree %r" % (t,))

    return go(t)


def atoms(t, acc=None):
    """list of ('free', name) / ('meas', k) in the tree (with repetitions)."""
    acc = [] if acc is None else acc
    if isinstance(t, list):
        if t[0] in ("free", "meas"):
            acc.append((t[0], t[1]))
        elif t[0] == "arr":
            for x in t[1]:
                atoms(x, acc)
        elif t[0] == "arrc":
            pass
        else:
            for x in t[1:]:
                if isinstance(x, list):
                    atoms(x, acc)
    return acc


def subst(t, free, meas):
    """Replace bound atoms by their numeric values (arrays become arrc)."""
    if not isinstance(t, list):
        return t
    if t[0] == "free":
        v = free.get(t[1])
        if v is None:
            return t
        return ["arrc", list(v)] if isinstance(v, list) else v
    if t[0] == "meas":
        v = meas.get(t[1])
        if v is None:
            return t
        v = squeeze(v)
        return ["arrc", list(v)] if isinstance(v, list) else v
    if t[0] == "arr":
        return ["arr", [subst(x, free, meas) for x in t[1]]]
    if t[0] == "arrc":
        return t
    return [t[0]] + [subst(x, free, meas) if isinstance(x, list) else x for x in t[1:]]


def depth(t):
    if not isinstance(t, list) or t[0] in ("free", "meas", "arrc"):
        return 0
    if t[0] == "arr":
        return 1 + max([depth(x) for x in t[1]] or [0])
    return 1 + max([depth(x) for x in t[1:] if isinstance(x, list)] or [0])


def has_array(t):
    if not isinstance(t, list):
        return False
    if t[0] in ("arr", "arrc"):
        return True
    if t[0] in ("free", "meas"):
        return False
    return any(has_array(x) for x in t[1:] if isinstance(x, list))


# ----------------------------------------------------------------------------------------
# building the implementation's objects

def build_expr(t, free_of, meas_of):
    """free_of(name) -> FreeParameter; meas_of(k) -> MeasuredParameter.  Uses Python operators on the
    sympy symbols and strawberryfields.math functions, as user code does."""
    if isinstance(t, (int, float)):
        return float(t)
    k = t[0]
    if k == "arrc":
        return np.array([float(x) for x in t[1]])
    if k == "free":
        return free_of(t[1])
    if k == "meas":
        return meas_of(t[1])
    if k == "neg":
        return -build_expr(t[1], free_of, meas_of)
    if k in ("add", "mul", "div"):
        a, b = build_expr(t[1], free_of, meas_of), build_expr(t[2], free_of, meas_of)
        return a + b if k == "add" else (a * b if k == "mul" else a / b)
    if k == "pow":
        return build_expr(t[1], free_of, meas_of) ** int(t[2])
    if k == "fn":
        args = [build_expr(x, free_of, meas_of) for x in t[2:]]
        return getattr(pf, t[1])(*args)
    if k == "arr":
        return np.array([build_expr(x, free_of, meas_of) for x in t[1]])
    raise ValueError("bad tree %r" % (t,))


def to_plain(v):
    """Canonical JSON-able form of an evaluated parameter (float / list of floats)."""
    if isinstance(v, np.ndarray):
        if v.ndim == 0:
            return to_plain(v.item())
        return [to_plain(x) for x in v]
    if isinstance(v, (list, tuple)):
        return [to_plain(x) for x in v]
    if isinstance(v, complex):
        if abs(v.imag) < 1e-14:
            return float(v.real)
        return {"re": v.real, "im": v.imag}
    try:
        c = complex(v)
        if abs(c.imag) < 1e-14:
            return float(c.real)
        return {"re": c.real, "im": c.imag}
    except Exception:
        return repr(v)


def close(a, b, tol=1e-8):
    if isinstance(a, list) or isinstance(b, list):
        if not (isinstance(a, list) and isinstance(b, list)) or len(a) != len(b):
            return False
        return all(close(x, y, tol) for x, y in zip(a, b))
    if isinstance(a, (int, float)) and isinstance(b, (int, float)):
        if math.isnan(a) or math.isnan(b):
            return math.isnan(a) and math.isnan(b)
        return abs(a - b) <= tol * max(1.0, abs(a), abs(b))
    return a == b


# ----------------------------------------------------------------------------------------
# program specs
#
# spec = {"n": modes, "segs": [[cmd, ...], ...], "bind": {name: number}, "defaults": {name: number},
#         "optimize": bool, "precompile": None | compiler name, "backend": "gaussian" | "fock",
#         "bind_early": bool (bind_params on the program before compiling instead of run(args=...))}
# cmd  = [opname, [trees], [modes], dagger, select-or-None]

MEAS_OPS = ("MeasureHomodyne", "MeasureX", "MeasureP", "MeasureHeterodyne", "MeasureFock")


def make_sym_op(name, params, dagger, select):
    cls = getattr(ops, name)
    if name in ("MeasureHomodyne",):
        return cls(*params, select=select)
    if name in ("MeasureHeterodyne", "MeasureFock"):
        return cls(select=select)
    if name in ("MeasureX", "MeasureP"):
        return cls  # instances
    op = cls(*params)
    if dagger:
        op = op.H
    return op


def build_programs(spec, symbolic=True, free=None):
    """Return list of Program objects, one per segment.  symbolic=False substitutes numeric values for
    all parameters following program order (measured atom = most recent select value of that mode).
    Raises RefParamError when the substituted program does not exist (use before measurement / unbound)."""
    progs = []
    store = {}
    prev = None
    free = dict(spec.get("defaults", {}), **spec.get("bind", {})) if free is None else free
    for si, seg in enumerate(spec["segs"]):
        prog = sf.Program(spec["n"] if prev is None else prev, name="seg%d" % si)
        if symbolic:
            for nm, dv in spec.get("defaults", {}).items():
                if any(("free", nm) in atoms(t) for c in seg for t in c[1]):
                    prog.params(nm).default = dv
        with prog.context as q:
            for c in seg:
                name, trees, modes, dagger = c[0], c[1], c[2], c[3]
                select = c[4] if len(c) > 4 else None
                if symbolic:
                    ps = [build_expr(t, prog.params, lambda k: q[k].par) for t in trees]
                else:
                    ps = [tree_eval(t, free, store) for t in trees]
                op = make_sym_op(name, ps, dagger, select)
                op | tuple(q[m] for m in modes)
                if name in MEAS_OPS and select is not None:
                    for m in modes:
                        store[m] = [select]
        progs.append(prog)
        prev = prog
    return progs


def run_spec(spec, symbolic=True, seed=1234):
    """Run on a fresh engine; returns dict(state=(means,cov) | fock dm, samples=..., error=kind-or-None)."""
    backend = spec.get("backend", "gaussian")
    bo = {"cutoff_dim": spec.get("cutoff", 5)} if backend == "fock" else {}
    try:
        progs = build_programs(spec, symbolic)
    except RefParamError as e:
        return {"error": "ParameterError", "detail": str(e), "stage": "build"}
    except Exception as e:  # construction-time failures are reported by kind
        return {"error": type(e).__name__, "detail": str(e)[:200], "stage": "build"}
    eng = sf.Engine(backend, backend_options=bo)
    np.random.seed(seed)
    copts = {}
    if spec.get("optimize"):
        copts["optimize"] = True
    args = dict(spec.get("bind", {})) if symbolic else {}
    try:
        if symbolic and spec.get("bind_early"):
            for p in progs:
                names = set(p.free_params)
                p.bind_params({k: v for k, v in args.items() if k in names})
            args = {}
        if spec.get("precompile"):
            progs = [p.compile(compiler=spec["precompile"], **copts) for p in progs]
        res = None
        if spec.get("as_list") and len(progs) > 1:
            res = eng.run(progs, args=args, compile_options=dict(copts))
        else:
            for p in progs:
                a = {k: v for k, v in args.items() if k in p.free_params} if symbolic else {}
                res = eng.run(p, args=a, compile_options=dict(copts))
    except sfpar.ParameterError as e:
        return {"error": "ParameterError", "detail": str(e)[:200], "stage": "run"}
    except Exception as e:
        return {"error": type(e).__name__, "detail": str(e)[:300], "stage": "run"}
    out = {"error": None}
    st = res.state
    if backend == "gaussian":
        out["state"] = (np.array(st.means()), np.array(st.cov()))
    else:
        out["state"] = (np.array(st.dm()),)
    out["applied"] = sum(len(p.circuit) for p in eng.run_progs)
    return out


def same_result(a, b, tol=1e-7):
    if a["error"] or b["error"]:
        return a["error"] == b["error"]
    return all(x.shape == y.shape and np.allclose(x, y, atol=tol, rtol=0) for x, y in zip(a["state"], b["state"]))
