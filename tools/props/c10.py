"""C10 — symbolic parameters behave exactly like the values they stand for."""

_TREE_DOC = """Parameter expression trees, sympy builders, reference evaluator, program specs.

A *tree* is plain JSON:
    number                      numeric constant
    ["arrc", [numbers]]         numeric array constant
    ["free", name]              FreeParameter
    ["meas", k]                 MeasuredParameter of mode k
    ["neg", t] ["add", a, b] ["mul", a, b] ["div", a, b] ["pow", t, n]
    ["fn", fname, t, ...]       strawberryfields.math / par_funcs function
    ["arr", [t, ...]]           numpy array of the element expressions
"""
import math
import warnings

warnings.filterwarnings("ignore")
import numpy as np  # noqa: E402

import strawberryfields as sf  # noqa: E402
from strawberryfields import ops  # noqa: E402
from strawberryfields import parameters as sfpar  # noqa: E402
from strawberryfields.parameters import par_funcs as pf  # noqa: E402

FN1 = ["sin", "cos", "exp", "tanh", "cosh", "sinh", "atan", "asinh", "Abs", "sign", "sqrt", "acosh"]
FN2 = ["atan2"]
FN_IDS = {n: i for i, n in enumerate(FN1 + FN2)}


_SCRATCH = {}


class ShapeError(Exception):
    pass


class RefParamError(Exception):
    pass


# ----------------------------------------------------------------------------------------
# reference evaluation on Python floats (same operation order as the Coq model)

def _f1(name, x):
    if name == "sqrt":
        return math.sqrt(x)
    if name == "acosh":
        return math.acosh(x)
    if name == "Abs":
        return abs(x)
    if name == "sign":
        return 0.0 if x == 0 else math.copysign(1.0, x)
    return float(getattr(np, {"atan": "arctan", "asinh": "arcsinh"}.get(name, name))(x))


def _f2(name, x, y):
    assert name == "atan2"
    return math.atan2(x, y)


def _bc1(f, a):
    return [f(x) for x in a] if isinstance(a, list) else f(a)


def _bc2(f, a, b):
    la, lb = isinstance(a, list), isinstance(b, list)
    if la and lb:
        if len(a) != len(b):
            raise ShapeError()
        return [f(x, y) for x, y in zip(a, b)]
    if la:
        return [f(x, b) for x in a]
    if lb:
        return [f(a, y) for y in b]
    return f(a, b)


def _pow(x, n):
    r = 1.0
    for _ in range(n):
        r = r * x
    return r


def squeeze(v):
    """np.squeeze(res).item() / np.squeeze(res) of MeasuredParameter._eval_evalf on a 1-d list."""
    if isinstance(v, list):
        return v[0] if len(v) == 1 else list(v)
    return v


def tree_eval(t, free, meas, oracle=None):
    """free: name -> value or None; meas: k -> list/number or None.  Raises RefParamError/ShapeError.
    ParameterError dominates shape errors (the implementation evaluates all atoms first).
    oracle (list) collects (fn id, args, value) for the Coq model's function table."""
    for kind, a in atoms(t):
        if kind == "free" and free.get(a) is None:
            raise RefParamError("free:%s" % a)
        if kind == "meas" and meas.get(a) is None:
            raise RefParamError("meas:%s" % a)

    def go(t):
        if isinstance(t, (int, float)):
            return float(t)
        k = t[0]
        if k == "arrc":
            return [float(x) for x in t[1]]
        if k == "free":
            v = free[t[1]]
            return [float(x) for x in v] if isinstance(v, list) else float(v)
        if k == "meas":
            v = squeeze(meas[t[1]])
            return [float(x) for x in v] if isinstance(v, list) else float(v)
        if k == "neg":
            return _bc1(lambda x: -x, go(t[1]))
        if k == "add":
            return _bc2(lambda x, y: x + y, go(t[1]), go(t[2]))
        if k == "mul":
            return _bc2(lambda x, y: x * y, go(t[1]), go(t[2]))
        if k == "div":
            return _bc2(lambda x, y: x / y, go(t[1]), go(t[2]))
        if k == "pow":
            return _bc1(lambda x: _pow(x, t[2]), go(t[1]))
        if k == "fn":
            name = t[1]
            args = [go(x) for x in t[2:]]
            if len(args) == 1:
                def f(x):
                    y = _f1(name, x)
                    if oracle is not None:
                        oracle.append((FN_IDS[name], (x,), y))
                    return y
                return _bc1(f, args[0])
            def f2(x, y):
                z = _f2(name, x, y)
                if oracle is not None:
                    oracle.append((FN_IDS[name], (x, y), z))
                return z
            return _bc2(f2, args[0], args[1])
        if k == "arr":
            out = []
            for x in t[1]:
                v = go(x)
                if isinstance(v, list):
                    raise ShapeError()
                out.append(v)
            return out
        raise ValueError("bad tree %r" % (t,))

    return go(t)


def atoms(t, acc=None):
    """list of ('free', name) / ('meas', k) in the tree (with repetitions)."""
    acc = [] if acc is None else acc
    if isinstance(t, list):
        if t[0] in ("free", "meas"):
            acc.append((t[0], t[1]))
        elif t[0] == "arr":
            for x in t[1]:
                atoms(x, acc)
        elif t[0] == "arrc":
            pass
        else:
            for x in t[1:]:
                if isinstance(x, list):
                    atoms(x, acc)
    return acc


def subst(t, free, meas):
    """Replace bound atoms by their numeric values (arrays become arrc)."""
    if not isinstance(t, list):
        return t
    if t[0] == "free":
        v = free.get(t[1])
        if v is None:
            return t
        return ["arrc", list(v)] if isinstance(v, list) else v
    if t[0] == "meas":
        v = meas.get(t[1])
        if v is None:
            return t
        v = squeeze(v)
        return ["arrc", list(v)] if isinstance(v, list) else v
    if t[0] == "arr":
        return ["arr", [subst(x, free, meas) for x in t[1]]]
    if t[0] == "arrc":
        return t
    return [t[0]] + [subst(x, free, meas) if isinstance(x, list) else x for x in t[1:]]


def static_shape(t):
    """Shape known when the expression is built: 'sc', ('ar', n) or None (construction raises ValueError)."""
    if not isinstance(t, list):
        return "sc"
    k = t[0]
    if k == "arrc":
        return ("ar", len(t[1]))
    if k in ("free", "meas"):
        return "sc"
    if k in ("neg", "pow"):
        return static_shape(t[1])
    if k == "fn" and len(t) == 3:
        return static_shape(t[2])
    if k == "arr":
        return ("ar", len(t[1])) if all(static_shape(x) == "sc" for x in t[1]) else None
    a, b = (static_shape(t[1]), static_shape(t[2])) if k != "fn" else (static_shape(t[2]), static_shape(t[3]))
    if a is None or b is None:
        return None
    if k == "fn":
        return a if a == b else None
    if a == "sc":
        return b
    if b == "sc":
        return a
    return a if a == b else None


def depth(t):
    if not isinstance(t, list) or t[0] in ("free", "meas", "arrc"):
        return 0
    if t[0] == "arr":
        return 1 + max([depth(x) for x in t[1]] or [0])
    return 1 + max([depth(x) for x in t[1:] if isinstance(x, list)] or [0])


def has_array(t):
    if not isinstance(t, list):
        return False
    if t[0] in ("arr", "arrc"):
        return True
    if t[0] in ("free", "meas"):
        return False
    return any(has_array(x) for x in t[1:] if isinstance(x, list))


# ----------------------------------------------------------------------------------------
# building the implementation's objects

def build_expr(t, free_of, meas_of):
    """free_of(name) -> FreeParameter; meas_of(k) -> MeasuredParameter.  Uses Python operators on the
    sympy symbols and strawberryfields.math functions, as user code does."""
    if isinstance(t, (int, float)):
        return float(t)
    k = t[0]
    if k == "arrc":
        return np.array([float(x) for x in t[1]])
    if k == "free":
        return free_of(t[1])
    if k == "meas":
        return meas_of(t[1])
    if k == "neg":
        return -build_expr(t[1], free_of, meas_of)
    if k in ("add", "mul", "div"):
        a, b = build_expr(t[1], free_of, meas_of), build_expr(t[2], free_of, meas_of)
        return a + b if k == "add" else (a * b if k == "mul" else a / b)
    if k == "pow":
        return build_expr(t[1], free_of, meas_of) ** int(t[2])
    if k == "fn":
        args = [build_expr(x, free_of, meas_of) for x in t[2:]]
        return getattr(pf, t[1])(*args)
    if k == "arr":
        return np.array([build_expr(x, free_of, meas_of) for x in t[1]])
    raise ValueError("bad tree %r" % (t,))


def to_plain(v):
    """Canonical JSON-able form of an evaluated parameter (float / list of floats)."""
    if isinstance(v, np.ndarray):
        if v.ndim == 0:
            return to_plain(v.item())
        return [to_plain(x) for x in v]
    if isinstance(v, (list, tuple)):
        return [to_plain(x) for x in v]
    if isinstance(v, complex):
        if abs(v.imag) < 1e-14:
            return float(v.real)
        return {"re": v.real, "im": v.imag}
    try:
        c = complex(v)
        if abs(c.imag) < 1e-14:
            return float(c.real)
        return {"re": c.real, "im": c.imag}
    except Exception:
        return repr(v)


def close(a, b, tol=1e-8):
    if isinstance(a, list) or isinstance(b, list):
        if not (isinstance(a, list) and isinstance(b, list)) or len(a) != len(b):
            return False
        return all(close(x, y, tol) for x, y in zip(a, b))
    if isinstance(a, (int, float)) and isinstance(b, (int, float)):
        if math.isnan(a) or math.isnan(b):
            return math.isnan(a) and math.isnan(b)
        return abs(a - b) <= tol * max(1.0, abs(a), abs(b))
    return a == b


# ----------------------------------------------------------------------------------------
# program specs
#
# spec = {"n": modes, "segs": [[cmd, ...], ...], "bind": {name: number}, "defaults": {name: number},
#         "optimize": bool, "precompile": None | compiler name, "backend": "gaussian" | "fock",
#         "bind_early": bool (bind_params on the program before compiling instead of run(args=...))}
# cmd  = [opname, [trees], [modes], dagger, select-or-None]

MEAS_OPS = ("MeasureHomodyne", "MeasureX", "MeasureP", "MeasureHeterodyne", "MeasureFock")


def make_sym_op(name, params, dagger, select):
    cls = getattr(ops, name)
    if name in ("MeasureHomodyne",):
        return cls(*params, select=select)
    if name in ("MeasureHeterodyne", "MeasureFock"):
        return cls(select=select)
    if name in ("MeasureX", "MeasureP"):
        return cls  # instances
    op = cls(*params)
    if dagger:
        op = op.H
    return op


def build_programs(spec, symbolic=True, free=None):
    """Return list of Program objects, one per segment.  symbolic=False substitutes numeric values for
    all parameters following program order (measured atom = most recent select value of that mode).
    Raises RefParamError when the substituted program does not exist (use before measurement / unbound)."""
    progs = []
    store = {}
    prev = None
    free = dict(spec.get("defaults", {}), **spec.get("bind", {})) if free is None else free
    for si, seg in enumerate(spec["segs"]):
        prog = sf.Program(spec["n"] if prev is None else prev, name="seg%d" % si)
        if symbolic:
            for nm, dv in spec.get("defaults", {}).items():
                if any(("free", nm) in atoms(t) for c in seg for t in c[1]):
                    prog.params(nm).default = dv
        with prog.context as q:
            for c in seg:
                name, trees, modes, dagger = c[0], c[1], c[2], c[3]
                select = c[4] if len(c) > 4 else None
                if symbolic:
                    ps = [build_expr(t, prog.params, lambda k: q[k].par) for t in trees]
                else:
                    ps = [tree_eval(t, free, store) for t in trees]
                op = make_sym_op(name, ps, dagger, select)
                op | tuple(q[m] for m in modes)
                if name in MEAS_OPS and select is not None:
                    for i, m in enumerate(modes):
                        store[m] = [float(select[i])] if isinstance(select, list) else [select]
        progs.append(prog)
        prev = prog
    return progs


def fresh_caches():
    """Every generated case starts like a fresh interpreter as far as sympy's caches are concerned: parameter
    symbols of *earlier cases* must not leak into this one (they do otherwise: findings cache:*); sharing
    *within* a case is left exactly as the library does it."""
    import sympy.core.cache as sc
    sc.clear_cache()
    _SCRATCH.clear()


def run_spec(spec, symbolic=True, seed=1234):
    """Run on a fresh engine; returns dict(state=(means,cov) | fock dm, samples=..., error=kind-or-None)."""
    fresh_caches()
    backend = spec.get("backend", "gaussian")
    bo = {"cutoff_dim": spec.get("cutoff", 5)} if backend == "fock" else {}
    try:
        progs = build_programs(spec, symbolic)
    except RefParamError as e:
        return {"error": "ParameterError", "detail": str(e), "stage": "build"}
    except Exception as e:  # construction-time failures are reported by kind
        return {"error": type(e).__name__, "detail": str(e)[:200], "stage": "build"}
    hbar0 = sf.hbar
    if spec.get("hbar"):
        sf.hbar = spec["hbar"]      # decompositions and measurement scalings read sf.hbar when they are applied
    try:
        return _run_spec_inner(spec, symbolic, seed, backend, bo, progs)
    finally:
        sf.hbar = hbar0


def _run_spec_inner(spec, symbolic, seed, backend, bo, progs):
    eng = sf.Engine(backend, backend_options=bo)
    np.random.seed(seed)
    copts = {}
    via = spec.get("optimize_via", "engine") if spec.get("optimize") else None
    if via == "engine":
        copts["optimize"] = True       # compile_options of Engine.run (and of an explicit pre-compilation)
    args = dict(spec.get("bind", {})) if symbolic else {}
    try:
        if symbolic and spec.get("bind_early"):
            for p in progs:
                names = set(p.free_params)
                p.bind_params({k: v for k, v in args.items() if k in names})
            args = {}
        if via == "method":
            progs = [p.optimize() for p in progs]                     # Program.optimize()
        if spec.get("precompile") or via == "compile":
            target = spec.get("precompile") or backend
            progs = [p.compile(compiler=target, **(dict(copts, optimize=True) if via == "compile" else copts)) for p in progs]
        res = None
        if spec.get("as_list") and len(progs) > 1 and all(set(args) <= set(p.free_params) for p in progs):
            res = eng.run(progs, args=args, compile_options=dict(copts))
        else:
            for p in progs:
                a = {k: v for k, v in args.items() if k in p.free_params} if symbolic else {}
                res = eng.run(p, args=a, compile_options=dict(copts))
    except sfpar.ParameterError as e:
        return {"error": "ParameterError", "detail": str(e)[:200], "stage": "run"}
    except Exception as e:
        return {"error": type(e).__name__, "detail": str(e)[:300], "stage": "run"}
    out = {"error": None}
    st = res.state
    if backend == "bosonic":
        out["state"] = (np.array(st.weights()), np.array(st.means()), np.array(st.covs()))
    elif backend == "gaussian":
        out["state"] = (np.array(st.means()), np.array(st.cov()))
    else:
        # compared up to normalisation: in a truncated Fock space a post-selected measurement renormalises whatever
        # norm earlier gates have leaked beyond the cutoff, so reordering independent commands rescales the state
        dm = np.array(st.dm())
        tr = st.trace()
        out["state"] = (dm / tr if abs(tr) > 1e-9 else dm,)
    out["applied"] = sum(len(p.circuit) for p in eng.run_progs)
    return out


def same_result(a, b, tol=1e-6):
    if a["error"] or b["error"]:
        return a["error"] == b["error"]
    return all(x.shape == y.shape and np.allclose(x, y, atol=tol, rtol=0) for x, y in zip(a["state"], b["state"]))


# ========================================================================================
# check module

from vlib import coq  # noqa: E402

PROP = "C10"
LEVEL = "proof"
COQ_TARGETS = ["C10/Model.vo", "C10/Proofs.vo", "C10/Engine.vo", "C10/EngineProofs.vo", "C10/Decomp.vo", "C10/FloatInst.vo"]
COQ_DIRS = ["C10"]
PROPERTIES_FILE = "Properties/C10.v"
ALLOWED_AXIOMS = set()
RULE = ("expression cases: random trees of depth 1-5 over constants, free atoms a-d, measured atoms of modes 0-4, "
        "neg/add/mul/div/pow, 12 elementary functions, atan2 and array nodes, with a binding/default/measured-store "
        "environment (error stream: unbound or unmeasured atoms, arrays of different length); non-trivial = contains "
        ">= 1 measured and >= 1 free atom, or an unbound/unmeasured atom.  Program cases: random Gaussian circuits "
        "with symbolic parameters, post-selected measurements, re-preparation and re-measurement, 1-3 segments, "
        "optimisation / pre-compilation flags; non-trivial = uses a measured atom after a re-measurement, or several "
        "segments, or an expected ParameterError")
TRUSTED_BASE = [
    "Coq 8.16.1 kernel; vm_compute for evaluating the model on generated cases (PrimFloat primitives in the execution-only file coq/C10/FloatInst.v)",
    "hand-written models coq/C10/Model.v (par_evaluate, par_regref_deps, _eval_evalf, decomposition table) and coq/C10/Engine.v "
    "(Measurement.apply store, BaseEngine._run hand-over of the latest outcome per mode, bind_params), tied to /repo by the correspondence on generated inputs",
    "harness tools/props/c10.py: generators, tree -> sympy builder, reference evaluator on Python floats, numpy's elementary functions used as the function table of the model",
    "sympy (Symbol cache, lambdify) and numpy are library code whose effects are observed, not verified",
    "gaussian backend (means and covariance) and fock backend (density matrix, cutoff 5) used as observers of 'behaves like the substituted circuit' (1e-7); compiled circuits of gaussian_unitary / passive compared matrix by matrix (1e-8)",
]
ASSUMPTIONS = [
    "scalars are abstract in the theorems (any interpretation of + * / - and of the function table); floating-point rounding is outside the theorems and enters only through the 1e-8 tolerance of the correspondence",
    "array parameters are one-dimensional",
    "measurement outcomes are fixed by post-selection in generated programs so that the substituted circuit is known in advance",
]
MANIFEST_TEXT = ("C10 (proof, closed under the global context, scalars and elementary functions abstract): full - C10_subst_eval "
                 "(substitution of numbers for any subset of atoms commutes with evaluation), C10_no_silent_default (ParameterError iff an "
                 "atom is unbound/unmeasured), C10_deps_exact + C10_eval_depends_only_on_deps, C10_latest / C10_use_sees_latest / "
                 "C10_use_before_measure (all histories of measure / re-prepare / use / reset), C10_segments (the engine's hand-over of the "
                 "latest outcome per mode, eager or lazy program construction: segment after segment = the concatenated program), "
                 "C10_bind_unknown_raises / C10_bind_value / C10_bind_frame, C10_decomp_commutes (10 table entries, daggered or not); "
                 "C10_segments_old_refuted / C10_segments_old_wrong_mode_refuted are about the pre-fix definitions *_old only.  Not modelled "
                 "(observed by the search only): sympy's symbol/expression caches (known findings cache:* about FreeParameter), "
                 "optimize_circuit, the compilers other than decomposition (fock backend and fock / gaussian_unitary / passive compile "
                 "targets are covered by the symbolic-vs-substituted search).")

NAMES = ["a", "b", "c", "d"]
NAME_IDS = {n: i for i, n in enumerate(NAMES)}
NMODES = 5
MISS = float.fromhex("0x1p+1000")
DY = [0.0, 0.25, -0.25, 0.5, -0.5, 0.75, 1.0, -1.0, 0.125, 1.5, -2.0, 2.0, 3.0]


# ---------------------------------------------------------------------------------------
# generators

def gen_const(rng, exact):
    if exact or rng.random() < 0.5:
        return rng.choice(DY)
    return round(rng.uniform(-2, 2), 3)


def gen_tree(rng, d, pool, exact=False, arr=False):
    """pool: list of atoms (["free", n] / ["meas", k]) to draw leaves from."""
    if d <= 0:
        if pool and rng.random() < 0.6:
            return list(rng.choice(pool))
        if arr and rng.random() < 0.3:
            return ["arrc", [gen_const(rng, exact) for _ in range(arr)]]
        return gen_const(rng, exact)
    k = rng.choice(["neg", "add", "add", "add", "mul", "mul", "mul", "div", "pow", "fn1", "fn1", "fn2"] + (["arr", "arr"] if arr else []))
    sub = lambda dd=None: gen_tree(rng, rng.randint(0, d - 1) if dd is None else dd, pool, exact, arr)
    if k == "neg":
        return ["neg", sub(d - 1)]
    if k in ("add", "mul"):
        a, b = sub(d - 1), sub()
        return [k, a, b] if rng.random() < 0.5 else [k, b, a]
    if k == "div":
        return ["div", sub(d - 1), ["add", 1.0, ["pow", sub(), 2]]] if rng.random() < 0.7 else ["div", sub(d - 1), rng.choice([2.0, -4.0, 0.5, 3.0])]
    if k == "pow":
        return ["pow", sub(d - 1), rng.choice([2, 2, 3, 0, 1])]
    if k == "fn1":
        f = rng.choice(["sin", "cos", "exp", "tanh", "cosh", "sinh", "atan", "asinh", "Abs", "sign", "sqrt"])
        if f == "sqrt":
            return ["fn", "sqrt", ["add", 1.0, ["pow", sub(d - 1), 2]]]
        if f in ("Abs", "sign"):
            leaf = gen_tree(rng, 0, pool, exact, arr)
            return ["fn", f, leaf if rng.random() < 0.5 else ["mul", rng.choice([2.0, -0.5, 3.0]), leaf]]
        return ["fn", f, sub(d - 1)]
    if k == "fn2":
        return ["fn", "atan2", sub(d - 1), ["add", 1.0, ["pow", sub(), 2]]]
    # arr: elements are scalar expressions
    return ["arr", [gen_tree(rng, rng.randint(0, max(0, d - 1)), pool, exact, False) for _ in range(arr)]]


def gen_env(rng, tree, err_rate=0.2, exact=False, arr=0):
    """free: name -> [val, default] (None = unset); meas: k -> list or None."""
    free, meas = {}, {}
    bad = rng.random() < err_rate
    ats = sorted(set(atoms(tree)), key=repr)
    victims = set()
    if bad and ats:
        victims = set(rng.sample(ats, rng.randint(1, min(2, len(ats)))))
    for kind, a in ats:
        if kind == "free":
            if (kind, a) in victims:
                free[a] = [None, None]
            else:
                v = gen_const(rng, exact)
                if arr and rng.random() < 0.2:
                    v = [gen_const(rng, exact) for _ in range(arr)]
                r = rng.random()
                free[a] = [v, None] if r < 0.5 else ([None, v] if r < 0.8 else [v, gen_const(rng, exact)])
        else:
            if (kind, a) in victims:
                meas[a] = None
            else:
                meas[a] = [gen_const(rng, exact)] if (not arr or rng.random() < 0.85) else [gen_const(rng, exact) for _ in range(arr)]
    # spectators: extra bound things that must not matter
    if rng.random() < 0.3:
        free.setdefault(rng.choice(NAMES), [gen_const(rng, exact), None])
    if rng.random() < 0.3:
        meas.setdefault(rng.randrange(NMODES), [gen_const(rng, exact)])
    return free, meas


def free_lookup(free):
    out = {}
    for n, (v, d) in free.items():
        out[n] = v if v is not None else d
    return out


def ref_eval(tree, free, meas, oracle=None):
    """('ok', value) | ('ParameterError',) | ('ValueError',)"""
    try:
        return ("ok", tree_eval(tree, free_lookup(free), {int(k): v for k, v in meas.items()}, oracle))
    except RefParamError:
        return ("ParameterError",)
    except ShapeError:
        return ("ValueError",)


def _flat(v):
    return v if isinstance(v, list) else [v]


def well_scaled(tree, free, meas):
    r = ref_eval(tree, free, meas)
    if r[0] != "ok":
        return True
    try:
        return all(math.isfinite(x) and abs(x) < 1e4 for x in _flat(r[1]))
    except TypeError:
        return False


def gen_expr_case(rng, malformed=False):
    """Arrays enter either as array nodes / constants of the expression (with scalar atom values) or as
    array-valued bindings / multi-element measured values (in an expression without array nodes): the
    implementation gives the two a different meaning when mixed (an object array of expressions each
    evaluated on arrays is a nested array), which nothing in the library relies on."""
    for _ in range(50):
        d = rng.randint(1, 5)
        arr = rng.choice([0, 0, 0, 2, 3])
        arr_values = arr and not malformed and rng.random() < 0.3
        pool = [["free", n] for n in rng.sample(NAMES, rng.randint(1, 3))] + [["meas", k] for k in rng.sample(range(NMODES), rng.randint(0, 3))]
        exact = rng.random() < 0.4
        tree = gen_tree(rng, d, pool, exact, 0 if arr_values else arr)
        if malformed and arr:
            # arrays of different length somewhere (detected when the expression is built)
            if not has_array(tree):
                tree = ["add", tree, ["arrc", [0.5] * arr]]
            tree = [rng.choice(["add", "mul"]), tree, ["arrc", [1.0] * (arr + 1)]] if rng.random() < 0.5 else ["fn", "atan2", tree, ["arrc", [1.0] * (arr + 1)]]
        if (static_shape(tree) is None) != bool(malformed and arr):
            continue
        free, meas = gen_env(rng, tree, 0.25, exact, arr if arr_values else 0)
        oracle = []
        if not well_scaled(tree, free, meas):
            continue
        # intermediate blow-ups make float comparison meaningless: bound every function argument too
        ref_eval(tree, free, meas, oracle)
        if any(not all(math.isfinite(x) and abs(x) < 1e4 for x in (list(o[1]) + [o[2]])) for o in oracle):
            continue
        return {"tree": tree, "free": free, "meas": {str(k): v for k, v in meas.items()}}
    return {"tree": 1.0, "free": {}, "meas": {}}


# ---------------------------------------------------------------------------------------
# implementation driver for expression cases

def _np_val(v):
    return np.array([float(x) for x in v]) if isinstance(v, list) else float(v)


def _subtrees(t):
    yield t
    if isinstance(t, list):
        for x in (t[1] if t[0] in ("arr",) else t[1:]):
            if isinstance(x, list):
                yield from _subtrees(x)


def impl_atoms(p):
    out = set()
    if sfpar.is_object_array(p):
        for k in p:
            out |= impl_atoms(k)
    elif isinstance(p, sfpar.sympy.Basic):
        for k in p.atoms(sfpar.MeasuredParameter):
            out.add(("meas", k.regref.ind))
        for k in p.atoms(sfpar.FreeParameter):
            out.add(("free", k.name))
    return out


def _dtype_check(e, v, tree, case):
    """par_evaluate(dtype=...) casts every atom before the expression is evaluated.  Value-based: with an integer
    dtype every atom is truncated; with a complex dtype the value is unchanged but complex.  None = not applicable."""
    try:
        ri = sfpar.par_evaluate(e, dtype=np.int64)
        tr = lambda z: None if z is None else float(int(z))
        ref = ref_eval(tree, {n: [tr(a), tr(b)] for n, (a, b) in case["free"].items()},
                       {int(k_): (None if v_ is None else [tr(v_[0])]) for k_, v_ in case["meas"].items()})
        ok = ref[0] != "ok" or not np.all(np.isfinite(np.asarray(ri, dtype=float))) or close(to_plain(ri), ref[1], 1e-7)
        if not any(isinstance(t_, list) and t_[0] == "fn" for t_ in _subtrees(tree)):
            rc = sfpar.par_evaluate(e, dtype=np.complex128)
            ok = ok and np.iscomplexobj(rc) and abs(complex(rc) - complex(v)) <= 1e-8 * max(1.0, abs(complex(v)))
        return bool(ok)
    except (ZeroDivisionError, OverflowError, FloatingPointError, TypeError, ValueError):
        return None


def impl_expr_case(case, tree=None):
    """Build the expression in a fresh Program with the case's environment and evaluate it.
    Returns dict(outcome=('ok', v) | (errkind,), deps=[...], op_deps=[...], atoms=set)."""
    tree = case["tree"] if tree is None else tree
    fresh_caches()
    prog = sf.Program(NMODES)
    names = set(case["free"]) | {a for k, a in atoms(tree) if k == "free"}
    for n in sorted(names):
        prog.params(n)
    for n, (v, d) in case["free"].items():
        if v is not None:
            prog.bind_params({n: _np_val(v)})
        if d is not None:
            prog.params(n).default = _np_val(d)
    for k, v in case["meas"].items():
        if v is not None:
            prog.reg_refs[int(k)].val = np.array([float(x) for x in v])
    out = {"deps": None, "op_deps": None, "atoms": None}
    try:
        e = build_expr(tree, prog.params, lambda k: prog.register[k].par)
    except ValueError:
        out["outcome"] = ("ValueError",)
        return out
    except Exception as ex:
        out["outcome"] = ("build:" + type(ex).__name__,)
        return out
    out["deps"] = sorted(r.ind for r in sfpar.par_regref_deps(e))
    out["op_deps"] = sorted(r.ind for r in ops.Operation([0.5, e]).measurement_deps)
    # the dependencies of an operation are the union over ALL its parameters, whatever their position
    x = (max([a for k, a in atoms(tree) if k == "meas"] or [0]) + 1) % NMODES
    other = sorted({r.ind for r in sfpar.par_regref_deps(e)} | {x})
    out["op_deps_ok"] = (sorted(r.ind for r in ops.Operation([e, 0.5]).measurement_deps) == out["op_deps"]
                         and sorted(r.ind for r in ops.Operation([e, 2 * prog.register[x].par]).measurement_deps) == other
                         and sorted(r.ind for r in ops.Operation([2 * prog.register[x].par, 0.25, e]).measurement_deps) == other)
    out["atoms"] = impl_atoms(e)
    import sympy as _sy
    out["issym_ok"] = bool(sfpar.par_is_symbolic(e)) == bool(isinstance(e, _sy.Basic) or (isinstance(e, np.ndarray) and e.dtype == object and any(isinstance(k, _sy.Basic) for k in e)))
    try:
        v = sfpar.par_evaluate(e)
        out["outcome"] = ("ok", to_plain(v))
        v2 = sfpar.par_evaluate([e, 1.0])
        out["seq_ok"] = close(to_plain(v2[0]), out["outcome"][1]) and v2[1] == 1.0
        v3 = sfpar.par_evaluate((e,))
        out["seq_ok"] = out["seq_ok"] and isinstance(v3, list) and len(v3) == 1 and close(to_plain(v3[0]), out["outcome"][1])
        # dtype: atoms are cast before the expression is evaluated
        scalar_atoms = all(not isinstance(fv, list) for pair in case["free"].values() for fv in pair if fv is not None) and \
            all(v_ is None or len(v_) == 1 for v_ in case["meas"].values())
        if out["atoms"] and scalar_atoms and np.ndim(v) == 0 and isinstance(e, _sy.Basic):
            out["dtype_ok"] = _dtype_check(e, v, tree, case)
    except sfpar.ParameterError:
        out["outcome"] = ("ParameterError",)
    except ValueError:
        out["outcome"] = ("ValueError",)
    except Exception as ex:
        out["outcome"] = (type(ex).__name__,)
    return out


# ---------------------------------------------------------------------------------------
# Coq encodings

def enc_value(v):
    if isinstance(v, list):
        return "(V %s)" % coq.coq_list(v, coq.coq_float)
    return "(S %s)" % coq.coq_float(v)


def enc_expr(t):
    if isinstance(t, (int, float)):
        return "(Const (S %s))" % coq.coq_float(t)
    k = t[0]
    if k == "arrc":
        return "(Const (V %s))" % coq.coq_list(t[1], coq.coq_float)
    if k == "free":
        return "(Free %d)" % NAME_IDS[t[1]]
    if k == "meas":
        return "(Meas %d)" % t[1]
    if k == "neg":
        return "(Neg %s)" % enc_expr(t[1])
    if k in ("add", "mul", "div"):
        return "(%s %s %s)" % (k.capitalize(), enc_expr(t[1]), enc_expr(t[2]))
    if k == "pow":
        return "(Pow %s %d)" % (enc_expr(t[1]), t[2])
    if k == "fn":
        if len(t) == 3:
            return "(Fn1 %d %s)" % (FN_IDS[t[1]], enc_expr(t[2]))
        return "(Fn2 %d %s %s)" % (FN_IDS[t[1]], enc_expr(t[2]), enc_expr(t[3]))
    if k == "arr":
        return "(Arr %s)" % coq.coq_list(t[1], enc_expr)
    raise ValueError(t)


def enc_opt(v, f):
    return "None" if v is None else "(Some %s)" % f(v)


def enc_env(free, meas):
    fp = coq.coq_list(sorted(free.items()), lambda kv: "(%d, mkF %s %s)" % (NAME_IDS[kv[0]], enc_opt(kv[1][0], enc_value), enc_opt(kv[1][1], enc_value)))
    st = coq.coq_list([(int(k), v) for k, v in sorted(meas.items()) if v is not None], lambda kv: "(%d, %s)" % (kv[0], coq.coq_list(kv[1], coq.coq_float)))
    return fp, st


def enc_oracle(oracle):
    t1 = sorted({(f, a[0], v) for f, a, v in oracle if len(a) == 1})
    t2 = sorted({(f, a[0], a[1], v) for f, a, v in oracle if len(a) == 2})
    return (coq.coq_list(t1, lambda e: "(%d, %s, %s)" % (e[0], coq.coq_float(e[1]), coq.coq_float(e[2]))),
            coq.coq_list(t2, lambda e: "(%d, %s, %s, %s)" % (e[0], coq.coq_float(e[1]), coq.coq_float(e[2]), coq.coq_float(e[3]))))


def model_outcome(v):
    """parsed Coq `res float` -> same shape as the implementation outcome"""
    if v == "ParamErr":
        return ("ParameterError",)
    if v == "ShapeErr":
        return ("ValueError",)
    assert v[0] == "Ok", v
    val = v[1]
    if val[0] == "S":
        return ("ok", float(val[1]))
    return ("ok", [float(x) for x in val[1]])


def has_miss(o):
    return o[0] == "ok" and any(x == MISS for x in _flat(o[1]))


COQ_HEAD = ("From Coq Require Import List Arith Bool PrimFloat.\nImport ListNotations.\n"
            "From SFV Require Import C10.Model C10.Engine C10.FloatInst.\n")


def model_expr_cases(ctx, name, cases):
    """Evaluate ev / deps / frees / ev(subst) of the model on the cases.  Returns list of
    (outcome, deps, frees, outcome_after_subst) or None if coqc failed (obligation recorded)."""
    out = []
    for si in range(0, len(cases), 250):
        sh = cases[si:si + 250]
        items = []
        for c in sh:
            oracle = []
            meas = {int(k): v for k, v in c["meas"].items()}
            ref_eval(c["tree"], c["free"], meas, oracle)
            t1, t2 = enc_oracle(oracle)
            fp, st = enc_env(c["free"], meas)
            items.append("(%s, %s, %s, %s, %s)" % (t1, t2, fp, st, enc_expr(c["tree"])))
        text = (COQ_HEAD + "Definition cases : list (list (nat*float*float) * list (nat*float*float*float) * list (nat * fpar float) * list (nat * list float) * expr float) := [\n"
                + ";\n".join(items) + "].\n"
                "Eval vm_compute in map (fun c => match c with (t1, t2, fp, st, e) => (fev t1 t2 fp st e, deps e, frees e, fev t1 t2 [] [] (fsubst fp st e), sshape e) end) cases.\n")
        ok, vals, raw = ctx.coq_eval("%s_%d" % (name, si // 250), text)
        if not ok:
            ctx.obligation("correspondence:%s:shard%d" % (name, si // 250), False, raw)
            return None
        out.extend(vals[0])
    return out


# ---------------------------------------------------------------------------------------
# correspondence A: par_evaluate / par_regref_deps / Operation.measurement_deps vs the model

def close_bc(a, b, tol=1e-8):
    """close, or a scalar against an array of that scalar (sympy cancelled the array-valued atom)."""
    if close(a, b, tol):
        return True
    if isinstance(a, list) != isinstance(b, list):
        l, x = (a, b) if isinstance(a, list) else (b, a)
        return all(close(y, x, tol) for y in l)
    return False


def expr_nontrivial(c):
    ats = set(atoms(c["tree"]))
    kinds = {k for k, _ in ats}
    fl = free_lookup(c["free"])
    unb = any((k == "free" and fl.get(a) is None) or (k == "meas" and c["meas"].get(str(a)) is None) for k, a in ats)
    return ("free" in kinds and "meas" in kinds) or unb


def expr_predicate(c):
    """The property's own predicate on one expression case, evaluated on the implementation:
    the symbolic expression evaluates to what the numerically substituted expression evaluates to, and
    raises ParameterError iff an atom it (still) contains is unbound/unmeasured.
    Returns None if fine, else (signature, what)."""
    meas = {int(k): v for k, v in c["meas"].items()}
    imp = impl_expr_case(c)
    o = imp["outcome"]
    ref = ref_eval(c["tree"], c["free"], meas)
    fl = free_lookup(c["free"])
    sub_tree = subst(c["tree"], fl, meas)
    # the same expression with numbers substituted for every bound atom, evaluated by the implementation
    imp_sub = impl_expr_case({"tree": sub_tree, "free": {}, "meas": {}})
    os_ = imp_sub["outcome"]
    simplified = imp["atoms"] is not None and imp["atoms"] != set(atoms(c["tree"]))
    cl = close_bc if simplified else close
    if o[0] == "ok" and os_[0] == "ok" and not cl(o[1], os_[1]):
        return ("expr:value", "par_evaluate of the symbolic expression gives %r, of the substituted expression %r" % (o[1], os_[1]))
    if o[0] == "ok" and ref[0] == "ok" and not cl(o[1], ref[1]):
        return ("expr:value", "par_evaluate gives %r, the expression over the substituted numbers is %r" % (o[1], ref[1]))
    if imp["atoms"] is not None:
        unb = [(k, a) for k, a in imp["atoms"] if (k == "free" and fl.get(a) is None) or (k == "meas" and meas.get(a) is None)]
        if unb and o[0] != "ParameterError":
            return ("expr:silent-default", "atoms %r are unbound/unmeasured but par_evaluate returned %r instead of raising ParameterError" % (unb, o))
        if not unb and o[0] == "ParameterError":
            return ("expr:spurious-parameter-error", "every atom is bound/measured but par_evaluate raised ParameterError")
        want = sorted({a for k, a in imp["atoms"] if k == "meas"})
        if imp["deps"] != want or imp["op_deps"] != want:
            return ("expr:deps", "par_regref_deps %r / Operation.measurement_deps %r differ from the measured atoms %r of the expression" % (imp["deps"], imp["op_deps"], want))
    if o[0] == "ok" and imp.get("seq_ok") is False:
        return ("expr:sequence", "par_evaluate on a sequence differs from par_evaluate on the single parameter")
    if imp.get("op_deps_ok") is False:
        return ("expr:op-deps", "Operation.measurement_deps is not the union of the dependencies of all parameters, independent of their position")
    if imp.get("issym_ok") is False:
        return ("expr:is-symbolic", "par_is_symbolic gives the wrong answer for this parameter (an object array is symbolic iff any element is)")
    if imp.get("dtype_ok") is False:
        return ("expr:dtype", "par_evaluate(dtype=...) does not cast the atoms to the requested dtype before evaluating (or changes the value)")
    return None


def corr_expr(ctx):
    rng = ctx.rng
    n = ctx.budget(500, 5000)
    cases = [gen_expr_case(rng, malformed=(i % 12 == 0)) for i in range(n)]
    model = model_expr_cases(ctx, "cases_expr", cases)
    if model is None:
        return
    ctx.traces += len(cases)
    n_bad = 0
    for c, m in zip(cases, model):
        mo, mdeps, mfrees, mo_sub = model_outcome(m[0]), sorted(set(m[1])), sorted(set(m[2])), model_outcome(m[3])
        imp = impl_expr_case(c)
        o = imp["outcome"]
        bucket = "expr-" + o[0]
        if (m[4] is None) != (static_shape(c["tree"]) is None):
            ctx.obligation("correspondence:model-sshape", False, "model sshape and harness static_shape differ on %r" % (c,))
        if m[4] is None or imp["deps"] is None:
            # construction-time shape error: the expression does not exist, nothing to evaluate
            ctx.case({"kind": "expr", "tree": c["tree"], "impl": list(o)[:1]}, nontrivial=False, bucket="expr-build-" + o[0])
            if not (m[4] is None and imp["deps"] is None and o[0] == "ValueError"):
                ctx.disagreement("corr:expr:build", "model says construction %s, implementation %r" % ("fails" if m[4] is None else "succeeds", o),
                                 {"check": "expr", "case": c, "impl": list(o), "model": repr(m[4])})
            continue
        ctx.case({"kind": "expr", "tree": c["tree"], "free": c["free"], "meas": c["meas"], "impl": list(o)[:1]}, nontrivial=expr_nontrivial(c), bucket=bucket)
        if has_miss(mo):
            ctx.obligation("correspondence:function-table", False, "model reached a function argument the harness did not tabulate: %r" % (c,))
            return
        # the model's own consequence of C10_subst_eval, re-checked numerically on every case
        if mo != mo_sub and not (mo[0] == "ok" and mo_sub[0] == "ok" and close(mo[1], mo_sub[1], 0)):
            ctx.obligation("correspondence:model-subst", False, "model ev and ev-after-subst differ on %r" % (c,))
        tree_meas = sorted({a for k, a in atoms(c["tree"]) if k == "meas"})
        simplified = imp["atoms"] is not None and imp["atoms"] != set(atoms(c["tree"]))
        agree = (mo[0] == o[0]) and (mo[0] != "ok" or (close_bc if simplified else close)(mo[1], o[1]))
        if simplified and not agree and mo[0] == "ParameterError" and o[0] == "ok":
            # sympy cancelled the unbound atom (a - a, 0*a): nothing defaulted, nothing to compare
            ctx.hist["expr-simplified-away"] = ctx.hist.get("expr-simplified-away", 0) + 1
            continue
        deps_agree = imp["deps"] is None or simplified or (imp["deps"] == mdeps == tree_meas and imp["op_deps"] == mdeps)
        if agree and deps_agree and not any(imp.get(k) is False for k in ("op_deps_ok", "issym_ok", "dtype_ok", "seq_ok")):
            continue
        n_bad += 1
        data = {"check": "expr", "case": c, "impl": list(o), "model": list(mo), "impl_deps": imp["deps"], "model_deps": mdeps}
        bad = expr_predicate(c)
        if bad:
            ctx.counterexample(bad[0], bad[1], data)
        else:
            ctx.disagreement("corr:expr:" + (o[0] if not agree else "deps"), "model %r deps %r vs implementation %r deps %r" % (mo, mdeps, o, imp["deps"]), data)
        if n_bad > 20:
            break


def correspondence(ctx):
    corr_expr(ctx)
    for fn in (globals().get("corr_history"), globals().get("corr_bind"), globals().get("corr_decomp")):
        if fn:
            fn(ctx)


def search(ctx):
    for fn in (globals().get("search_corpus"), globals().get("search_programs"), globals().get("search_optimize_shapes"), globals().get("search_cross"), globals().get("search_backends"), globals().get("search_loader"), globals().get("search_guards"), globals().get("search_op_sweep")):
        if fn:
            fn(ctx)


def replay(ctx, data):
    d = data["data"]
    chk = d.get("check")
    if chk == "expr":
        bad = expr_predicate(d["case"])
        print("expression case:", d["case"])
        print("implementation:", impl_expr_case(d["case"])["outcome"], " predicate:", bad)
        return bad is not None
    fn = globals().get("replay_" + str(chk))
    if fn:
        return fn(ctx, d)
    print("unknown replay kind", chk)
    return False


# ---------------------------------------------------------------------------------------
# search S1: symbolic program vs the program with the numbers substituted

# op -> (modes, [param kinds]); kinds: r small real, a angle, x displacement-like, t transmissivity in [0,1], n >= 0
SYM_OPS = {
    "Dgate": (1, ["r", "a"]), "Xgate": (1, ["x"]), "Zgate": (1, ["x"]), "Sgate": (1, ["r", "a"]), "Rgate": (1, ["a"]),
    "Pgate": (1, ["x"]), "BSgate": (2, ["a", "a"]), "MZgate": (2, ["a", "a"]), "sMZgate": (2, ["a", "a"]),
    "S2gate": (2, ["r", "a"]), "CXgate": (2, ["x"]), "CZgate": (2, ["x"]),
    "LossChannel": (1, ["t"]), "ThermalLossChannel": (1, ["t", "n"]),
}
SYM_PREPS = {"Coherent": (1, ["r", "a"]), "Squeezed": (1, ["r", "a"]), "DisplacedSqueezed": (1, ["r", "a", "r", "a"]),
             "Thermal": (1, ["n"]), "Vacuum": (1, [])}
GATES_WITH_H = ("Dgate", "Xgate", "Zgate", "Sgate", "Rgate", "Pgate", "BSgate", "MZgate", "sMZgate", "S2gate", "CXgate", "CZgate")


def survives(t):
    """True iff sympy keeps every atom of the tree (no a - a, 0*a, a**0): otherwise an unbound atom
    legitimately cannot raise and a 'use' may become a plain number."""
    ats = set(atoms(t))
    if not ats:
        return True
    prog = _SCRATCH.get("p")
    if prog is None:
        prog = _SCRATCH["p"] = sf.Program(NMODES)
    try:
        e = build_expr(t, prog.params, lambda k: prog.register[k].par)
    except Exception:
        return False
    return impl_atoms(e) == ats


def gen_param_tree(rng, kind, pool, free, store):
    """A tree whose value (under free/store) respects the domain of the parameter kind."""
    for _ in range(30):
        if not pool or rng.random() < 0.25:
            t = gen_const(rng, False)
        else:
            t = gen_tree(rng, rng.randint(0, 3), pool, rng.random() < 0.3, 0)
        if kind == "t":
            t = ["pow", ["fn", "cos", t], 2]
        elif kind == "n":
            t = ["pow", t, 2]
        elif kind == "r":
            t = ["mul", 0.6, ["fn", "tanh", t]] if isinstance(t, list) else max(-0.6, min(0.6, t))
        if not survives(t):
            continue
        try:
            v = tree_eval(t, free, store)
        except (RefParamError, ShapeError):
            return t  # error stream: keep as is
        except (OverflowError, ZeroDivisionError, ValueError):
            continue
        if isinstance(v, float) and math.isfinite(v) and abs(v) < 3.0:
            if kind == "n" and v > 1.5:
                continue
            return t
    return 0.25


def nonzero_first(trees):
    """Gate.apply skips a gate whose first parameter is numerically 0 without looking at the others: an
    unmeasured atom in the phase of such an identity gate legitimately never raises.  Keep p[0] != 0 when
    another parameter is symbolic."""
    if len(trees) > 1 and isinstance(trees[0], (int, float)) and trees[0] == 0 and any(atoms(t) for t in trees[1:]):
        trees[0] = 0.25
    return trees


def gen_prog_spec(rng, err=False, segs=None, cross=None):
    n = rng.randint(2, 4)
    names = rng.sample(NAMES, rng.randint(1, 3))
    bind, defaults = {}, {}
    for nm in names:
        v = round(rng.uniform(-1.5, 1.5), 3) if rng.random() < 0.7 else rng.choice(DY)
        (bind if rng.random() < 0.75 else defaults)[nm] = v
    free = dict(defaults, **bind)
    ncmds = rng.randint(3, 9)
    nseg = segs if segs is not None else rng.choice([1, 1, 1, 2, 2, 3])
    cuts = sorted(rng.sample(range(1, ncmds), min(nseg - 1, ncmds - 1))) if nseg > 1 else []
    store = {}      # mode -> [select value] : latest outcome in program order
    store_seg = {}  # mode -> segment index of that outcome
    cmds, seg_of = [], []
    seg = 0
    unbound_name = None
    for i in range(ncmds):
        if cuts and i == cuts[0]:
            cuts.pop(0)
            seg += 1
        # atoms that may be used here: free names + measured modes (cross-segment use only if allowed)
        meas_ok = [m for m in store if cross is not False or store_seg[m] == seg]
        if cross is True and seg > 0:
            older = [m for m in store if store_seg[m] < seg]
            meas_ok = older or meas_ok
        pool = [["free", nm] for nm in names] + [["meas", m] for m in meas_ok] * 2
        r = rng.random()
        if r < 0.22:
            m = rng.randrange(n)
            sel = round(rng.uniform(-1.2, 1.2), 3)
            phi = gen_param_tree(rng, "a", [p for p in pool if p[0] == "free"], free, store) if rng.random() < 0.4 else rng.choice([0.0, round(math.pi / 2, 6), 0.4])
            cmds.append(["MeasureHomodyne", [phi], [m], False, sel])
            store[m] = [sel]
            store_seg[m] = seg
        elif r < 0.34 and store:
            # re-prepare a measured mode
            m = rng.choice(sorted(store))
            name = rng.choice(sorted(SYM_PREPS))
            cmds.append([name, [gen_param_tree(rng, k, pool, free, store) for k in SYM_PREPS[name][1]], [m], False, None])
        else:
            name = rng.choice(sorted(SYM_OPS))
            nm_, kinds = SYM_OPS[name]
            modes = rng.sample(range(n), nm_)
            p = pool
            if err and rng.random() < 0.4:
                # error stream: an unmeasured mode's outcome, or a name that is never bound
                unm = [m for m in range(n) if m not in store]
                if unm and rng.random() < 0.6:
                    p = [["meas", rng.choice(unm)]]
                else:
                    unbound_name = unbound_name or rng.choice([x for x in NAMES if x not in free] or ["d"])
                    if unbound_name in free:
                        free.pop(unbound_name)
                        bind.pop(unbound_name, None)
                        defaults.pop(unbound_name, None)
                    p = [["free", unbound_name]]
            trees = nonzero_first([gen_param_tree(rng, k, p, free, store) for k in kinds])
            cmds.append([name, trees, modes, name in GATES_WITH_H and rng.random() < 0.25, None])
            if nm_ == 1 and name in GATES_WITH_H and not err and rng.random() < 0.3:
                # a neighbour of the same family on the same mode with the same other parameters: what the
                # optimiser merges; one of the two carries a measured parameter when an outcome exists
                mo = [m for m in meas_ok if m != modes[0]]
                first = ["mul", rng.choice([0.5, -0.3]), ["meas", rng.choice(mo)]] if (mo and rng.random() < 0.7) else rng.choice([0.4, -0.25, ["free", names[0]]])
                nb = [name, [first] + list(trees[1:]), list(modes), rng.random() < 0.25, None]
                seg_of.append(seg)
                if rng.random() < 0.5:
                    cmds.append(nb)
                else:
                    cmds.insert(len(cmds) - 1, nb)
        seg_of.append(seg)
    nsegs = seg + 1
    out = [[c for c, s in zip(cmds, seg_of) if s == k] for k in range(nsegs)]
    spec = {"n": n, "segs": out, "bind": bind, "defaults": defaults}
    if rng.random() < 0.4:
        spec["optimize"] = True
        spec["optimize_via"] = rng.choice(["engine", "compile", "method"])
    if rng.random() < 0.25:
        spec["hbar"] = rng.choice([1.0, 0.5, 1.7])
    if rng.random() < 0.2:
        spec["precompile"] = "gaussian"
    if rng.random() < 0.2:
        spec["bind_early"] = True
    if nsegs > 1 and rng.random() < 0.4:
        spec["as_list"] = True
    return spec


def spec_features(spec):
    """Syntactic facts used for signatures and the non-triviality rule."""
    f = {"segments": len(spec["segs"]), "cross_segment_use": False, "remeasured_use": False, "shared_symbol": False,
         "optimize_measured_pair": False, "uses_measured": False}
    last_seg, count = {}, {}
    seen_syms = {}
    for si, seg in enumerate(spec["segs"]):
        prev_by_mode = {}
        for c in seg:
            ats = [a for t in c[1] for a in atoms(t)]
            for k, a in ats:
                if k == "free":
                    seen_syms.setdefault((k, a), set()).add(si)
                if k == "meas":
                    f["uses_measured"] = True
                    if si > 0 and last_seg and last_seg.get(a, -1) < si:
                        # a later segment uses a mode's outcome that was not measured in this segment,
                        # after an earlier segment measured something (whatever mode)
                        f["cross_segment_use"] = True
                    if count.get(a, 0) >= 2:
                        f["remeasured_use"] = True
            if c[0] in MEAS_OPS:
                for m in c[2]:
                    last_seg[m] = si
                    count[m] = count.get(m, 0) + 1
            # adjacent single-mode gates of one family on one mode, one of them with a measured parameter
            if len(c[2]) == 1:
                m = c[2][0]
                p = prev_by_mode.get(m)
                if p is not None and p[0] == c[0] and c[0] in GATES_WITH_H and any(k == "meas" for t in (p[1] + c[1]) for k, _ in atoms(t)):
                    f["optimize_measured_pair"] = True
            for m in c[2]:
                prev_by_mode[m] = c
    f["shared_symbol"] = any(len(v) > 1 for v in seen_syms.values())
    return f


class _unshared_symbols:
    """Diagnosis only: make the FreeParameter symbols of different Programs distinct sympy objects that do not
    compare equal (uncached construction; identity is part of the hashable content), i.e. what the library
    would do if free parameters were not shared through sympy's caches (MeasuredParameter already is like
    this since fix cf8f0c2)."""

    def __enter__(self):
        import sympy
        F = sfpar.FreeParameter
        self.saved = (F.__dict__.get("__new__"), F.__dict__.get("_hashable_content"))

        def f_new(cls, name):
            return sympy.Symbol.__xnew__(cls, name)

        F.__new__ = staticmethod(f_new)
        F._hashable_content = lambda self: sympy.Symbol._hashable_content(self) + (id(self),)
        return self

    def __exit__(self, *a):
        F = sfpar.FreeParameter
        for name, v in (("__new__", self.saved[0]), ("_hashable_content", self.saved[1])):
            if v is None:
                delattr(F, name)
            else:
                setattr(F, name, v)
        import sympy.core.cache as sc
        sc.clear_cache()


def run_spec_isolated(spec):
    """Symbolic run with parameter symbols that are not shared between Program objects (diagnosis only)."""
    with _unshared_symbols():
        return run_spec(spec, True)


def truncate_before_param_error(spec):
    """The spec cut just before the first command one of whose parameters cannot be evaluated in program order."""
    free = dict(spec.get("defaults", {}), **spec.get("bind", {}))
    store, segs = {}, []
    for seg in spec["segs"]:
        out = []
        segs.append(out)
        for c in seg:
            try:
                for t in c[1]:
                    tree_eval(t, free, store)
            except RefParamError:
                return dict(spec, segs=segs)
            out.append(c)
            if c[0] in MEAS_OPS and len(c) > 4 and c[4] is not None:
                for i, m in enumerate(c[2]):
                    store[m] = [float(c[4][i])] if isinstance(c[4], list) else [c[4]]
    return spec


def mzgate_zero_variant(spec):
    """For a program run natively on the fock backend: the spec with every MZgate whose symbolic first parameter
    evaluates to exactly 0 (in program order) given phi_in = 1e-13 instead, or None if there is no such gate."""
    if spec.get("backend") != "fock":
        return None
    free = dict(spec.get("defaults", {}), **spec.get("bind", {}))
    store, segs, hit = {}, [], False
    for seg in spec["segs"]:
        out = []
        for c in seg:
            c2 = c
            if c[0] == "MZgate" and isinstance(c[1][0], list):
                try:
                    if tree_eval(c[1][0], free, store) == 0.0:
                        c2 = [c[0], [["add", c[1][0], 1e-13]] + list(c[1][1:])] + list(c[2:])
                        hit = True
                except (RefParamError, ShapeError):
                    pass
            out.append(c2)
            if c[0] in MEAS_OPS and len(c) > 4 and c[4] is not None:
                for i, m in enumerate(c[2]):
                    store[m] = [float(c[4][i])] if isinstance(c[4], list) else [c[4]]
        segs.append(out)
    return dict(spec, segs=segs) if hit else None


def prog_predicate(spec):
    """None if the symbolic program behaves like the substituted one, else (signature, what)."""
    a = run_spec(spec, True)
    b = run_spec(spec, False)
    if same_result(a, b):
        return None
    if b.get("stage") == "build" and b["error"] == "ParameterError" and a["error"] not in (None, "ParameterError"):
        # something unrelated to parameters fails before the unevaluable parameter is reached (e.g. a
        # post-selection of zero probability): the substituted circuit up to that point must fail alike
        bt = run_spec(truncate_before_param_error(spec), False)
        if bt["error"] == a["error"]:
            return None
    mz = mzgate_zero_variant(spec)
    if mz is not None and not a["error"] and same_result(a, run_spec(mz, False)):
        return ("apply:MZgate-symbolic-zero-p0", "MZgate whose symbolic first parameter evaluates to exactly 0 is applied natively (it is not the identity), "
                "while the substituted MZgate(0, phi_ex) is skipped by Gate.apply; with phi_in = 1e-13 instead of 0 the substituted program agrees with the symbolic one")
    f = spec_features(spec)
    sym = "raises %s (%s)" % (a["error"], a.get("detail", "")[:120]) if a["error"] else "runs"
    sub = "raises %s (%s)" % (b["error"], b.get("detail", "")[:120]) if b["error"] else "runs"
    what = "symbolic program %s, substituted program %s" % (sym, sub) + ("" if (a["error"] or b["error"]) else " but the final states differ")
    if f["shared_symbol"] and f["segments"] > 1:
        iso = run_spec_isolated(spec)
        if same_result(iso, b):
            return ("cache:free-parameter-shared-between-programs", what + "; with FreeParameter symbols that are not shared between Program objects the two agree")
    kind = a["error"] or ("state" if not b["error"] else "no-error")
    return ("program:" + kind, what)


def prog_nontrivial(spec, f):
    return f["remeasured_use"] or f["segments"] > 1 or any(k == "meas" for s in spec["segs"] for c in s for t in c[1] for k, _ in atoms(t))


import json  # noqa: E402

# minimised inputs of findings that have been fixed in /repo (known_findings.d/C10-fixed.txt): replayed on
# every run; a regression is reported under a "regression:" signature, which is never a known finding
REGRESSIONS = json.loads(r'''{"cross-segment": {"check": "prog", "spec": {"n": 2, "segs": [[["Sgate", [0.5, 0.3], [0], false, null], ["BSgate", [0.4, 0.1], [0, 1], false, null], ["MeasureHomodyne", [0.0], [1], false, 0.37]], [["Xgate", [["mul", ["meas", 1], 2.0]], [0], false, null]]], "bind": {}, "defaults": {}}}, "cross-segment-wrong-mode": {"check": "prog", "spec": {"n": 2, "segs": [[["Sgate", [0.5, 0.3], [0], false, null], ["BSgate", [0.4, 0.1], [0, 1], false, null], ["MeasureHomodyne", [0.0], [1], false, 0.37]], [["Xgate", [["mul", ["meas", 0], 2.0]], [1], false, null]]], "bind": {}, "defaults": {}}}, "cache-shared-symbol": {"check": "prog", "spec": {"n": 2, "segs": [[["MeasureHomodyne", [0.0], [0], false, 0.3], ["Xgate", [["meas", 0]], [1], false, null]], [["MeasureHomodyne", [0.0], [0], false, -0.8], ["Zgate", [["meas", 0]], [1], false, null]]], "bind": {}, "defaults": {}}}, "optimize-measured-pair": {"check": "prog", "spec": {"n": 2, "optimize": true, "segs": [[["Sgate", [0.5, 0.3], [0], false, null], ["MeasureHomodyne", [0.0], [0], false, 0.37], ["Rgate", [["meas", 0]], [1], false, null], ["Rgate", [["meas", 0]], [1], false, null], ["Xgate", [0.5], [1], false, null]]], "bind": {}, "defaults": {}}}, "compiled-measured": {"check": "prog", "spec": {"n": 2, "precompile": "gaussian", "segs": [[["MeasureHomodyne", [0.0], [0], false, 0.3], ["Xgate", [["meas", 0]], [1], false, null]]], "bind": {}, "defaults": {}}}, "optimize-channel-symbolic": {"check": "prog", "spec": {"n": 1, "optimize": true, "segs": [[["LossChannel", [0.5], [0], false, null], ["LossChannel", [["pow", ["fn", "cos", ["free", "d"]], 2]], [0], false, null]]], "bind": {"d": 0.4}, "defaults": {}}}}''')


def search_corpus(ctx):
    """Replay the recorded findings first: each still-failing one is reported under the signature the
    predicate computes now (so a fixed defect simply stops being reported)."""
    import glob
    import json
    import os
    for path in sorted(glob.glob(os.path.join(coq.VERIF, "corpus", "C10-*.json"))):
        d = json.load(open(path))["data"]
        bad = None
        if d.get("check") == "prog":
            bad = prog_predicate(d["spec"])
        elif d.get("check") == "expr":
            bad = expr_predicate(d["case"])
        elif d.get("check") in ("cross", "decomp", "history", "stale", "bind", "compile", "convert", "loader", "guard"):
            fn = globals().get(d["check"] + "_predicate")
            bad = fn(d) if fn else None
        ctx.case({"kind": "corpus", "file": os.path.basename(path)}, nontrivial=True, bucket="corpus")
        if bad:
            ctx.counterexample(bad[0], bad[1], d)
    for name, d in sorted(REGRESSIONS.items()):
        bad = prog_predicate(d["spec"])
        ctx.case({"kind": "regression", "name": name}, nontrivial=True, bucket="regression")
        if bad:
            ctx.counterexample("regression:" + name, "fixed finding is back: " + bad[1], d)


def search_programs(ctx):
    rng = ctx.rng
    n = ctx.budget(150, 1500)
    for i in range(n):
        r = rng.random()
        if r < 0.12:
            spec = gen_prog_spec(rng, err=True)
        elif r < 0.24:
            spec = gen_prog_spec(rng, segs=rng.choice([2, 3]), cross=False)
        else:
            spec = gen_prog_spec(rng)
        f = spec_features(spec)
        bad = prog_predicate(spec)
        ctx.case({"kind": "prog", "spec": spec}, nontrivial=prog_nontrivial(spec, f),
                 bucket="prog-%dseg%s%s" % (f["segments"], "-opt" if spec.get("optimize") else "", "-cross" if f["cross_segment_use"] else ""))
        if bad:
            ctx.counterexample(bad[0], bad[1], {"check": "prog", "spec": spec})


def replay_prog(ctx, d):
    spec = d["spec"]
    a, b = run_spec(spec, True), run_spec(spec, False)
    print("symbolic   :", a.get("error"), a.get("detail", ""), "" if a["error"] else np.round(a["state"][0], 5))
    print("substituted:", b.get("error"), b.get("detail", ""), "" if b["error"] else np.round(b["state"][0], 5))
    bad = prog_predicate(spec)
    print("predicate:", bad)
    return bad is not None


# ---------------------------------------------------------------------------------------
# correspondence C: measured store / segment hand-over model vs real Engine runs
#
# history = {"n": modes, "mode": "eager" | "lazy", "free": {name: value}, "segs": [[event, ...], ...]}
# event   = ["meas", k, v] | ["prep", k] | ["use", tree, target_mode]       (trees: arithmetic only)

def gen_arith_tree(rng, d, pool):
    if d <= 0 or not pool:
        return list(rng.choice(pool)) if pool and rng.random() < 0.75 else rng.choice([0.5, -0.25, 2.0, 1.0, 0.125, -1.5])
    k = rng.choice(["neg", "add", "add", "mul", "mul", "pow", "div"])
    if k == "neg":
        return ["neg", gen_arith_tree(rng, d - 1, pool)]
    if k == "pow":
        return ["pow", gen_arith_tree(rng, d - 1, pool), rng.choice([2, 3])]
    if k == "div":
        return ["div", gen_arith_tree(rng, d - 1, pool), rng.choice([2.0, -4.0, 0.5])]
    return [k, gen_arith_tree(rng, d - 1, pool), gen_arith_tree(rng, rng.randint(0, d - 1), pool)]


def gen_mmeas(rng, n, backend):
    """A multi-mode measurement event: 2..n modes in a non-trivial order (descending, cyclic shift or random), a
    distinct outcome per mode where the measurement allows it."""
    k = rng.randint(2, n)
    modes = sorted(rng.sample(range(n), k))
    r = rng.random()
    if r < 0.4:
        modes = modes[::-1]
    elif r < 0.7:
        sh = rng.randrange(1, k)
        modes = modes[sh:] + modes[:sh]
    else:
        rng.shuffle(modes)
    if backend == "fock":
        vals = rng.sample([0, 1, 2], k) if k <= 3 else [rng.choice([0, 1, 2]) for _ in range(k)]
    else:
        vals = [i % 2 for i in range(k)]
        rng.shuffle(vals)
    return ["mmeas", modes, [float(v) for v in vals], backend == "fock" and rng.random() < 0.5]


def gen_history(rng):
    multi = rng.random() < 0.5
    backend = rng.choice(["fock", "gaussian"]) if multi else "gaussian"
    n = (3 if backend == "fock" else rng.randint(3, 4)) if multi else rng.randint(2, 4)
    nseg = rng.choice([1, 1, 2, 2, 3])
    names = rng.sample(NAMES, rng.randint(0, 2))
    free = {nm: rng.choice([0.5, -0.75, 1.25, 0.25]) for nm in names}
    mode = rng.choice(["eager", "lazy", "lazy"])
    segs = []
    stale = []
    measured = set()
    for si in range(nseg):
        seg = []
        if si > 0 and rng.random() < 0.2:
            seg.append(["reset"])       # eng.reset() before this segment
            stale = sorted(measured)
            measured.clear()
        if si == 0 and rng.random() < 0.75:
            seg.append(["meas", rng.randrange(n), rng.choice([0.25, -0.5, 0.75, 1.0])])
            measured.add(seg[-1][1])
        for _ in range(rng.randint(1, 5)):
            r = rng.random()
            if multi and r < 0.3:
                seg.append(gen_mmeas(rng, n, backend))
                measured.update(seg[-1][1])
            elif r < 0.4:
                seg.append(["meas", rng.randrange(n), rng.choice([0.25, -0.5, 0.75, 1.0, -1.25, 0.375])])
                measured.add(seg[-1][1])
            elif r < 0.5:
                seg.append(["prep", rng.randrange(n)])
            else:
                ks = list(range(n))
                if measured and rng.random() < 0.85:
                    ks = sorted(measured)      # mostly valid: outcomes that exist at this point
                elif stale and rng.random() < 0.7:
                    ks = stale                 # outcomes from before a reset: must raise
                pool = [["free", nm] for nm in names] + [["meas", k] for k in rng.sample(ks, min(len(ks), rng.randint(1, 2)))] if ks else [["free", nm] for nm in names]
                t = gen_arith_tree(rng, rng.randint(0, 2), pool)
                if not atoms(t):
                    t = ["add", t, ["meas", rng.choice(ks)]] if ks else t
                if not atoms(t) or not survives(t):
                    continue
                seg.append(["use", t, rng.randrange(n)])
        segs.append(seg)
    h = {"n": n, "mode": mode, "free": free, "segs": segs}
    if backend == "fock":
        h["backend"] = "fock"
    return h


def segs_used(segs):
    return [{a for ev_ in seg if ev_[0] == "use" for k, a in atoms(ev_[1]) if k == "meas"} for seg in segs]


def impl_history(h):
    """Run the history on a real gaussian Engine; returns the list of evaluated use-parameters
    (('ok', v) | ('ParameterError',)) up to the first exception, and the kind of that exception."""
    log = []
    orig = ops.par_evaluate

    def spy(params, dtype=None):
        sym = any(sfpar.par_is_symbolic(p) for p in (params if isinstance(params, (list, tuple)) else [params]))
        try:
            r = orig(params, dtype)
        except sfpar.ParameterError:
            if sym:
                log.append(("ParameterError",))
            raise
        if sym:
            log.append(("ok", to_plain(r[0] if isinstance(params, (list, tuple)) else r)))
        return r

    def build(si, parent):
        prog = sf.Program(h["n"] if parent is None else parent)
        with prog.context as q:
            for e in h["segs"][si]:
                if e[0] == "meas":
                    ops.MeasureHomodyne(0.0, select=e[2]) | q[e[1]]
                elif e[0] == "prep":
                    ops.Coherent(0.3, 0.1) | q[e[1]]
                elif e[0] == "reset":
                    pass
                elif e[0] == "mmeas":
                    # one measurement of several modes in the listed order, with a known, distinct outcome per mode
                    if h.get("backend") == "fock":
                        for m, v in zip(e[1], e[2]):
                            ops.Fock(int(v)) | q[m]
                        ops.MeasureFock(select=[int(v) for v in e[2]] if e[3] else None) | tuple(q[m] for m in e[1])
                    else:
                        for m, v in zip(e[1], e[2]):
                            (ops.Coherent(4.0, 0.0) if v else ops.Vacuum()) | q[m]
                        ops.MeasureThreshold() | tuple(q[m] for m in e[1])
                else:
                    ops.Rgate(build_expr(e[1], prog.params, lambda k: q[k].par)) | q[e[2]]
        return prog

    ops.par_evaluate = spy
    err = None
    fresh_caches()
    try:
        eng = sf.Engine("fock", backend_options={"cutoff_dim": 4}) if h.get("backend") == "fock" else sf.Engine("gaussian")
        np.random.seed(4321)
        progs = []
        if h["mode"] == "eager":
            for si in range(len(h["segs"])):
                progs.append(build(si, progs[-1] if progs else None))
        prev = None
        for si in range(len(h["segs"])):
            if h["segs"][si] and h["segs"][si][0][0] == "reset":
                eng.reset()
            p = progs[si] if h["mode"] == "eager" else build(si, prev)
            eng.run(p, args={k: v for k, v in h["free"].items() if k in p.free_params})
            prev = p
    except Exception as e:
        err = type(e).__name__
    finally:
        ops.par_evaluate = orig
    return log, err


def enc_history(h):
    def enc_ev(e):
        if e[0] == "meas":
            return "EMeas [%d] [[%s]]" % (e[1], coq.coq_float(e[2]))
        if e[0] == "mmeas":
            return "EMeas %s %s" % (coq.coq_list(e[1], str), coq.coq_list(e[2], lambda v: "[%s]" % coq.coq_float(v)))
        if e[0] == "prep":
            return "EPrep %d" % e[1]
        if e[0] == "reset":
            return "EReset"
        return "EUse %s" % enc_expr(e[1])
    fp = coq.coq_list(sorted(h["free"].items()), lambda kv: "(%d, mkF (Some (S %s)) None)" % (NAME_IDS[kv[0]], coq.coq_float(kv[1])))
    segs = coq.coq_list(h["segs"], lambda seg: coq.coq_list(seg, enc_ev))
    return fp, segs


def history_predicate(d):
    """Property predicate for a history on the implementation: every use evaluates its parameter under the
    most recent outcomes (of the whole multi-segment history), ParameterError if a mode was never measured."""
    h = d["history"] if "history" in d else d
    log, err = impl_history(h)
    store, want = {}, []
    for seg in h["segs"]:
        for e in seg:
            if e[0] == "meas":
                store[e[1]] = [e[2]]
            elif e[0] == "mmeas":
                for m, v in zip(e[1], e[2]):
                    store[m] = [float(v)]
            elif e[0] == "reset":
                store = {}
            elif e[0] == "use":
                want.append(ref_eval(e[1], {k: [v, None] for k, v in h["free"].items()}, store))
    for i, w in enumerate(want):
        if i >= len(log):
            return ("history:aborted", "run stopped with %s before use #%d" % (err, i))
        g = log[i]
        if g[0] != w[0] or (g[0] == "ok" and not close(g[1], w[1], 1e-7)):
            return ("history:latest-outcome" + ("-across-segments" if len(h["segs"]) > 1 else ""),
                    "use #%d evaluated to %r, the most recent outcomes give %r" % (i, g, w))
        if w[0] != "ok":
            break
    return None


def corr_history(ctx):
    rng = ctx.rng
    n = ctx.budget(120, 1200)
    hs = [gen_history(rng) for _ in range(n)]
    items = []
    for h in hs:
        fp, segs = enc_history(h)
        items.append("(%d, %s, %s)" % (0 if h["mode"] == "eager" else 1, fp, segs))
    text = (COQ_HEAD + "Definition cases : list (nat * list (nat * fpar float) * list (list (event float))) := [\n" + ";\n".join(items) + "].\n"
            "Eval vm_compute in map (fun c => match c with (m, fp, segs) => (frun m fp segs, frun 2 fp segs) end) cases.\n")
    ok, vals, raw = ctx.coq_eval("cases_history", text)
    if not ok:
        ctx.obligation("correspondence:history", False, raw)
        return
    ctx.traces += len(hs)
    for h, m in zip(hs, vals[0]):
        mw = [model_outcome(x) for x in m[0]]
        log, err = impl_history(h)
        nuse = sum(1 for s in h["segs"] for e in s if e[0] == "use")
        has_mm = any(e[0] == "mmeas" for s in h["segs"] for e in s)
        ctx.case({"kind": "history", "history": h}, nontrivial=len(h["segs"]) > 1 or has_mm or any(e[0] == "prep" for s in h["segs"] for e in s),
                 bucket="hist-%s-%dseg%s" % (h["mode"], len(h["segs"]), ("-multi-" + h.get("backend", "gaussian")) if has_mm else ""))
        # compare the implementation's log with the as-written model, up to the first error of either
        bad = None
        for i, g in enumerate(log):
            if i >= len(mw):
                bad = "implementation evaluated more uses than the history has"
                break
            w = mw[i]
            if g[0] != w[0] or (g[0] == "ok" and not close(g[1], w[1], 1e-7)):
                bad = "use #%d: implementation %r, model %r" % (i, g, w)
                break
            if g[0] != "ok":
                break
        else:
            if len(log) < len(mw) and err is None:
                bad = "implementation evaluated %d uses, model %d" % (len(log), len(mw))
            elif len(log) < len(mw) and not any(w[0] != "ok" or isinstance(w[1], list) for w in mw[:len(log) + 1]):
                bad = "implementation stopped with %s after %d uses; the model sees no error there" % (err, len(log))
        if bad:
            pb = history_predicate(h)
            data = {"check": "history", "history": h, "impl_log": [list(x) for x in log], "impl_error": err, "model": [list(x) for x in mw]}
            if pb:
                ctx.counterexample(pb[0], pb[1], data)
            else:
                ctx.disagreement("corr:history", bad, data)
            continue
        # C10_segments, re-checked numerically: segment by segment = concatenation
        mi = [model_outcome(x) for x in m[1]]
        if mw != mi:
            ctx.obligation("correspondence:model-segments", False, "model run_segs and run_seg-on-concatenation differ on %r" % (h,))


def replay_history(ctx, d):
    h = d["history"]
    log, err = impl_history(h)
    print("history:", h)
    print("implementation evaluated:", log, "exception:", err)
    pb = history_predicate(h)
    print("predicate:", pb)
    return pb is not None


# ---------------------------------------------------------------------------------------
# search S3: parameters of one Program must not be affected by other Program objects
#
# cross = {"kind": "free" | "meas", "progs": [{"how": "bound"|"default"|"unbound", "v": x, "scale": c} | {"sel": v}], "runs": [i, ...]}

def gen_cross(rng):
    kind = rng.choice(["free", "free", "meas"])
    k = rng.choice([2, 2, 3])
    if kind == "free":
        progs = [{"how": rng.choice(["bound", "bound", "default", "unbound"]), "v": rng.choice([0.25, -0.5, 0.75, 1.25, -1.0]),
                  "scale": rng.choice([1.0, 2.0, -0.5])} for _ in range(k)]
    else:
        progs = [{"sel": rng.choice([0.3, -0.8, 0.55, 1.1])} for _ in range(k)]
    runs = [rng.randrange(k) for _ in range(rng.randint(k, k + 2))]
    return {"check": "cross", "kind": kind, "progs": progs, "runs": runs, "order": rng.choice(["build-all-first", "build-all-first", "build-when-run"])}


def run_cross(d):
    """Returns per run ('ok', x-displacement of the observed mode) | (error kind,)."""
    fresh_caches()
    built = {}

    def build(i):
        spec = d["progs"][i]
        if d["kind"] == "free":
            p = sf.Program(1)
            with p.context as q:
                ops.Xgate(spec["scale"] * p.params("a")) | q[0]
            if spec["how"] == "default":
                p.params("a").default = spec["v"]
        else:
            p = sf.Program(2)
            with p.context as q:
                ops.MeasureHomodyne(0.0, select=spec["sel"]) | q[0]
                ops.Xgate(q[0].par) | q[1]
        return p

    if d["order"] == "build-all-first":
        for i in range(len(d["progs"])):
            built[i] = build(i)
    out = []
    for i in d["runs"]:
        if i not in built:
            built[i] = build(i)
        spec = d["progs"][i]
        args = {"a": spec["v"]} if d["kind"] == "free" and spec["how"] == "bound" else {}
        try:
            r = sf.Engine("gaussian").run(built[i], args=args)
            m = r.state.means()
            out.append(("ok", float(m[0] if d["kind"] == "free" else m[1])))
        except sfpar.ParameterError:
            out.append(("ParameterError",))
        except Exception as e:
            out.append((type(e).__name__,))
    return out


def cross_expected(d):
    out = []
    for i in d["runs"]:
        spec = d["progs"][i]
        if d["kind"] == "free":
            out.append(("ParameterError",) if spec["how"] == "unbound" else ("ok", spec["scale"] * spec["v"]))
        else:
            out.append(("ok", spec["sel"]))
    return out


def _same_obs(a, b):
    return len(a) == len(b) and all(x[0] == y[0] and (x[0] != "ok" or abs(x[1] - y[1]) < 1e-7) for x, y in zip(a, b))


def cross_predicate(d):
    got, want = run_cross(d), cross_expected(d)
    if _same_obs(got, want):
        return None
    what = "runs %r of %d programs each owning a parameter of the same name: observed %r, each program on its own gives %r" % (d["runs"], len(d["progs"]), got, want)
    with _unshared_symbols():
        iso = run_cross(d)
    if _same_obs(iso, want):
        return ("cache:free-parameter-shared-between-programs", what + "; with FreeParameter symbols that are not shared between Program objects the programs behave as on their own")
    return ("cross:" + d["kind"], what)


def stale_predicate(d):
    """One program run with a = first; unrelated sympy symbols are created; a NEW program with a = second."""
    def run(val):
        p = sf.Program(1)
        with p.context as q:
            ops.Dgate(2 * p.params(d["name"]), 0.0) | q[0]
        return float(sf.Engine("gaussian").run(p, args={d["name"]: val}).state.means()[0])
    import sympy
    fresh_caches()
    r1 = run(d["first"])
    for i in range(d["fill"]):
        sympy.Symbol("unrelated%d" % i)
    r2 = run(d["second"])
    want = 2 * 2 * d["second"]   # x = 2 * |alpha| for hbar = 2
    if abs(r2 - want) < 1e-7:
        return None
    return ("cache:stale-free-parameter-after-eviction", "a new Program with %s=%r computes with %s=%r of an earlier, finished Program (mean x %r instead of %r) after %d unrelated sympy symbols were created"
            % (d["name"], d["second"], d["name"], d["first"], r2, want, d["fill"]))


def search_cross(ctx):
    rng = ctx.rng
    for _ in range(ctx.budget(40, 400)):
        d = gen_cross(rng)
        bad = cross_predicate(d)
        distinct = len({(p.get("v"), p.get("sel"), p.get("how")) for p in d["progs"]}) > 1
        ctx.case(d, nontrivial=distinct, bucket="cross-" + d["kind"])
        if bad:
            ctx.counterexample(bad[0], bad[1], d)
    d = {"check": "stale", "name": rng.choice(NAMES), "first": rng.choice([0.3, 0.45]), "second": rng.choice([0.7, -0.2]), "fill": rng.choice([1100, 1500])}
    bad = stale_predicate(d)
    ctx.case(d, nontrivial=True, bucket="stale")
    if bad:
        ctx.counterexample(bad[0], bad[1], d)


def replay_cross(ctx, d):
    print("observed:", run_cross(d), " each on its own:", cross_expected(d))
    bad = cross_predicate(d)
    print("predicate:", bad)
    return bad is not None


def replay_stale(ctx, d):
    bad = stale_predicate(d)
    print("predicate:", bad)
    return bad is not None


# ---------------------------------------------------------------------------------------
# correspondence D: Program.params / bind_params vs the model's bind_params

def gen_bind_case(rng):
    have = rng.sample(NAMES, rng.randint(1, 3))
    params = {}
    for nm in have:
        r = rng.random()
        params[nm] = [rng.choice(DY) if r < 0.3 else None, rng.choice(DY) if 0.2 < r < 0.6 else None]
    keys = rng.sample(NAMES, rng.randint(0, 3)) if rng.random() < 0.35 else rng.sample(have, rng.randint(0, len(have)))
    return {"check": "bind", "params": params, "binding": [[k, rng.choice(DY)] for k in keys], "by_object": rng.random() < 0.3}


def impl_bind(c):
    fresh_caches()
    prog = sf.Program(1)
    for nm, (v, d) in sorted(c["params"].items()):
        p = prog.params(nm)
        if v is not None:
            prog.bind_params({nm: v})
        if d is not None:
            p.default = d
    binding = {}
    for k, v in c["binding"]:
        binding[prog.free_params[k] if (c["by_object"] and k in prog.free_params) else k] = v
    try:
        prog.bind_params(binding)
        ok = True
    except sfpar.ParameterError:
        ok = False
    vals = []
    for nm in NAMES:
        if nm not in prog.free_params:
            vals.append(None)
            continue
        try:
            vals.append(float(sfpar.par_evaluate(prog.free_params[nm])))
        except sfpar.ParameterError:
            vals.append(None)
    return ok, vals


def bind_predicate(c):
    """bind_params raises ParameterError iff a key is not a parameter of the program; afterwards a bound name
    evaluates to its bound value, an untouched one to what it evaluated to before."""
    ok, vals = impl_bind(c)
    unknown = [k for k, _ in c["binding"] if k not in c["params"]]
    if unknown and ok:
        return ("bind:unknown-name-accepted", "bind_params accepted the unknown names %r without raising ParameterError" % unknown)
    if not unknown and not ok:
        return ("bind:known-name-rejected", "bind_params raised although every name is a parameter of the program")
    if ok:
        b = dict((k, v) for k, v in c["binding"])
        for i, nm in enumerate(NAMES):
            if nm in c["params"]:
                v, d = c["params"][nm]
                want = b.get(nm, v if v is not None else d)
                if (want is None) != (vals[i] is None) or (want is not None and abs(want - vals[i]) > 1e-12):
                    return ("bind:value", "after bind_params parameter %s evaluates to %r, expected %r" % (nm, vals[i], want))
    return None


def corr_bind(ctx):
    rng = ctx.rng
    cases = [gen_bind_case(rng) for _ in range(ctx.budget(80, 600))]
    items = []
    for c in cases:
        fs = coq.coq_list(sorted(c["params"].items()), lambda kv: "(%d, mkF %s %s)" % (NAME_IDS[kv[0]], enc_opt(kv[1][0], enc_value), enc_opt(kv[1][1], enc_value)))
        b = coq.coq_list(c["binding"], lambda kv: "(%d, %s)" % (NAME_IDS[kv[0]], enc_value(kv[1])))
        items.append("(%s, %s)" % (fs, b))
    text = (COQ_HEAD + "Definition cases : list (list (nat * fpar float) * list (nat * value float)) := [\n" + ";\n".join(items) + "].\n"
            "Eval vm_compute in map (fun c => let r := bind_params (lookup (fst c)) (snd c) in (snd r, map (free_env (fst r)) [0;1;2;3])) cases.\n")
    ok, vals, raw = ctx.coq_eval("cases_bind", text)
    if not ok:
        ctx.obligation("correspondence:bind", False, raw)
        return
    ctx.traces += len(cases)
    for c, m in zip(cases, vals[0]):
        mok = bool(m[0])
        mvals = [None if v is None else float(v[1][1]) for v in m[1]]
        iok, ivals = impl_bind(c)
        ctx.case(c, nontrivial=any(k not in c["params"] for k, _ in c["binding"]) or len(c["binding"]) > 1, bucket="bind-" + ("ok" if iok else "error"))
        if mok != iok or any((a is None) != (b is None) or (a is not None and abs(a - b) > 1e-12) for a, b in zip(mvals, ivals)):
            bad = bind_predicate(c)
            if bad:
                ctx.counterexample(bad[0], bad[1], c)
            else:
                ctx.disagreement("corr:bind", "model (%r, %r) vs implementation (%r, %r)" % (mok, mvals, iok, ivals), c)


def replay_bind(ctx, d):
    print("implementation:", impl_bind(d))
    bad = bind_predicate(d)
    print("predicate:", bad)
    return bad is not None


# ---------------------------------------------------------------------------------------
# correspondence E: the decomposition table of the model vs Operation.decompose, with numeric and with
# symbolic parameters (the latter evaluated after decomposition: decomposition commutes with evaluation)

DECOMP_CLS = {"Xgate": 1, "Zgate": 2, "Pgate": 5, "MZgate": 7, "sMZgate": 8, "S2gate": 9, "CXgate": 10, "CZgate": 11,
              "Fouriergate": 12, "DisplacedSqueezed": 13}
RESULT_CLS = {"Dgate": 0, "Sgate": 3, "Rgate": 4, "BSgate": 6, "CXgate": 10, "Squeezed": 14}
DECOMP_ARITY = {"Xgate": 1, "Zgate": 1, "Pgate": 1, "MZgate": 2, "sMZgate": 2, "S2gate": 2, "CXgate": 1, "CZgate": 1, "Fouriergate": 0, "DisplacedSqueezed": 4}


def decomp_oracle(name, xs):
    o = []
    if name == "Pgate":
        temp = xs[0] / 2.0
        a1 = 1.0 + (1.0 * temp) * temp
        sq = _f1("sqrt", a1)
        o += [(FN_IDS["sqrt"], (a1,), sq), (FN_IDS["acosh"], (sq,), _f1("acosh", sq)), (FN_IDS["atan"], (temp,), _f1("atan", temp)), (FN_IDS["sign"], (temp,), _f1("sign", temp))]
    if name == "CXgate":
        arg = (-xs[0]) / 2.0
        r = _f1("asinh", arg)
        ch, th = _f1("cosh", r), _f1("tanh", r)
        y, x = (-1.0) / ch, -th
        o += [(FN_IDS["asinh"], (arg,), r), (FN_IDS["cosh"], (r,), ch), (FN_IDS["tanh"], (r,), th), (FN_IDS["atan2"], (y, x), _f2("atan2", y, x))]
    return o


def gen_decomp_case(rng):
    name = rng.choice(sorted(DECOMP_CLS))
    xs = [rng.choice([0.0, 0.5, -0.5, 1.0, -2.0, 3.0, 1e-3, -7.5]) if rng.random() < 0.5 else round(rng.uniform(-3, 3), 3) for _ in range(DECOMP_ARITY[name])]
    nm = 2 if name in ("MZgate", "sMZgate", "S2gate", "CXgate", "CZgate") else 1
    modes = rng.sample(range(NMODES), nm)
    dagger = name != "DisplacedSqueezed" and rng.random() < 0.4
    return {"check": "decomp", "name": name, "xs": xs, "modes": modes, "dagger": dagger}


def impl_decomp(c, symbolic):
    fresh_caches()
    prog = sf.Program(NMODES)
    names = NAMES[:len(c["xs"])]
    if symbolic:
        ps = [prog.params(n) for n in names]
        prog.bind_params(dict(zip(names, c["xs"])))
    else:
        ps = list(c["xs"])
    op = getattr(ops, c["name"])(*ps)
    if c["dagger"]:
        op = op.H
    seq = op.decompose([prog.register[m] for m in c["modes"]])
    out = []
    for cmd in seq:
        vals = [float(v) for v in sfpar.par_evaluate(cmd.op.p)]
        out.append((cmd.op.__class__.__name__, vals, [r.ind for r in cmd.reg], bool(getattr(cmd.op, "dagger", False))))
    return out


def decomp_predicate(c):
    a, b = impl_decomp(c, True), impl_decomp(c, False)
    same = len(a) == len(b) and all(x[0] == y[0] and x[2] == y[2] and x[3] == y[3] and close(x[1], y[1], 1e-9) for x, y in zip(a, b))
    if same:
        return None
    return ("decomp:%s" % c["name"], "%s%s decomposed with symbolic parameters and then evaluated gives %r, decomposed with the numbers gives %r" % (c["name"], ".H" if c["dagger"] else "", a, b))


def corr_decomp(ctx):
    rng = ctx.rng
    cases = [gen_decomp_case(rng) for _ in range(ctx.budget(80, 800))]
    items = []
    for c in cases:
        t1, t2 = enc_oracle(decomp_oracle(c["name"], c["xs"]))
        xs = c["xs"] if c["name"] != "Fouriergate" else [math.pi / 2]
        items.append("(%s, %s, mkG %d %s %s %s)" % (t1, t2, DECOMP_CLS[c["name"]], coq.coq_list(xs, coq.coq_float), coq.coq_list(c["modes"], str), coq.coq_bool(c["dagger"])))
    text = (COQ_HEAD + "Definition cases : list (list (nat*float*float) * list (nat*float*float*float) * gate float) := [\n" + ";\n".join(items) + "].\n"
            "Eval vm_compute in map (fun c => match c with (t1, t2, g) => option_map (map (fun g => (gcls g, gpar g, gmodes g, gdag g))) (decomp_val t1 t2 g) end) cases.\n")
    ok, vals, raw = ctx.coq_eval("cases_decomp", text)
    if not ok:
        ctx.obligation("correspondence:decomp", False, raw)
        return
    ctx.traces += len(cases)
    for c, m in zip(cases, vals[0]):
        ctx.case(c, nontrivial=c["dagger"] or c["name"] in ("Pgate", "CXgate", "CZgate"), bucket="decomp-" + c["name"])
        if m is None:
            ctx.obligation("correspondence:decomp-table", False, "model has no decomposition for %r" % (c,))
            continue
        mod = [(int(g[0]), [float(x) for x in g[1]], [int(x) for x in g[2]], bool(g[3])) for g in m[1]]
        if any(x == MISS for g in mod for x in g[1]):
            ctx.obligation("correspondence:function-table", False, "decomposition reached an untabulated function argument: %r" % (c,))
            continue
        for symbolic in (False, True):
            imp = impl_decomp(c, symbolic)
            agree = len(imp) == len(mod) and all(RESULT_CLS.get(x[0]) == y[0] and close(x[1], y[1], 1e-9) and x[2] == y[2] and x[3] == y[3] for x, y in zip(imp, mod))
            if not agree:
                bad = decomp_predicate(c)
                data = dict(c, impl=[list(x) for x in imp], model=[list(x) for x in mod], symbolic=symbolic)
                if bad:
                    ctx.counterexample(bad[0], bad[1], data)
                else:
                    ctx.disagreement("corr:decomp:" + c["name"], "model %r vs implementation (%s parameters) %r" % (mod, "symbolic" if symbolic else "numeric", imp), data)
                break


def replay_decomp(ctx, d):
    print("symbolic:", impl_decomp(d, True))
    print("numeric :", impl_decomp(d, False))
    bad = decomp_predicate(d)
    print("predicate:", bad)
    return bad is not None



# ---------------------------------------------------------------------------------------
# search S5: the fock backend, and the compile targets fock / gaussian_unitary / passive with bound free parameters

FOCK_OPS = {"Dgate": (1, ["r", "a"]), "Xgate": (1, ["r"]), "Zgate": (1, ["r"]), "Sgate": (1, ["r", "a"]), "Rgate": (1, ["a"]),
            "Pgate": (1, ["r"]), "Kgate": (1, ["r"]), "Vgate": (1, ["r"]), "BSgate": (2, ["a", "a"]), "MZgate": (2, ["a", "a"]),
            "sMZgate": (2, ["a", "a"]), "S2gate": (2, ["r", "a"]), "CXgate": (2, ["r"]), "CZgate": (2, ["r"]), "CKgate": (2, ["r"]),
            "LossChannel": (1, ["t"])}
FOCK_PREPS = {"Coherent": (1, ["r", "a"]), "Squeezed": (1, ["r", "a"]), "DisplacedSqueezed": (1, ["r", "a", "r", "a"]),
              "Thermal": (1, ["n"]), "Vacuum": (1, []), "Fock": (1, ["k"])}
UNITARY_OPS = ["Dgate", "Xgate", "Zgate", "Sgate", "Rgate", "Pgate", "BSgate", "MZgate", "sMZgate", "S2gate", "CXgate", "CZgate"]
PASSIVE_OPS = ["Rgate", "BSgate", "MZgate", "sMZgate", "LossChannel"]
ALL_KINDS = dict(SYM_OPS, **FOCK_OPS)


FOCK_EXACT_MERGE = ("Kgate", "Vgate", "Rgate", "LossChannel")


def fock_inexact_merge_possible(cmds):
    """In a truncated Fock space D(a)D(b), S(a)S(b), ... differ from D(a+b), S(a+b) by truncation error, so a program
    whose numeric version gets such a pair merged by the optimiser while the symbolic one does not (or the other
    way round) cannot be compared at 1e-6.  True iff two single-mode commands of one such family are neighbours on
    the wire of their mode (the optimiser's notion of adjacency); those specs are run without optimisation (the
    same shapes are covered on the gaussian backend, where merging is exact)."""
    wires = {}
    for c in cmds:
        touched = set(c[2]) | {a for t in c[1] if isinstance(t, list) for k, a in atoms(t) if k == "meas"}
        for m in touched:
            prev = wires.get(m)
            if prev is not None and prev[0] == c[0] and len(c[2]) == 1 and prev[2] == c[2] and c[0] not in FOCK_EXACT_MERGE and c[0] in FOCK_OPS:
                return True
            wires[m] = c
    return False


def gen_fock_spec(rng, err=False):
    """Small programs for the fock backend (cutoff 5): symbolic parameters over free atoms and outcomes of
    post-selected homodyne / Fock measurements, non-Gaussian gates included."""
    n = rng.randint(1, 2)
    names = rng.sample(NAMES, rng.randint(1, 2))
    bind = {nm: round(rng.uniform(-1.0, 1.0), 3) for nm in names}
    free = dict(bind)
    store, cmds = {}, []
    for _ in range(rng.randint(2, 5)):
        pool = [["free", nm] for nm in names] + [["meas", m] for m in store] * 2
        r = rng.random()
        if n == 2 and r < 0.12:
            # Fock states with distinct photon numbers, counted in one two-mode measurement in either order
            ks = rng.sample([0, 1, 2], 2)
            order = rng.choice([[0, 1], [1, 0], [1, 0]])
            cmds.append(["Fock", [ks[0]], [0], False, None])
            cmds.append(["Fock", [ks[1]], [1], False, None])
            cmds.append(["MeasureFock", [], order, False, [ks[m] for m in order]])
            for m in order:
                store[m] = [float(ks[m])]
        elif r < 0.2:
            m = rng.randrange(n)
            if rng.random() < 0.5:
                sel = round(rng.uniform(-0.8, 0.8), 3)
                cmds.append(["MeasureHomodyne", [rng.choice([0.0, 0.4])], [m], False, sel])
            else:
                sel = rng.choice([0, 1])
                cmds.append(["MeasureFock", [], [m], False, sel])
            store[m] = [float(sel)]
        elif r < 0.35:
            name = rng.choice(sorted(FOCK_PREPS))
            m = rng.choice(sorted(store)) if store and rng.random() < 0.6 else rng.randrange(n)
            ps = [rng.choice([0, 1, 2]) if k == "k" else gen_param_tree(rng, k, pool, free, store) for k in FOCK_PREPS[name][1]]
            cmds.append([name, ps, [m], False, None])
        else:
            name = rng.choice([x for x in sorted(FOCK_OPS) if FOCK_OPS[x][0] <= n])
            nm_, kinds = FOCK_OPS[name]
            p = pool
            if err and rng.random() < 0.5:
                unm = [m for m in range(n) if m not in store]
                p = [["meas", rng.choice(unm)]] if unm else [["free", [x for x in NAMES if x not in free][0]]]
            cmds.append([name, nonzero_first([gen_param_tree(rng, k, p, free, store) for k in kinds]), rng.sample(range(n), nm_),
                         name not in ("LossChannel",) and rng.random() < 0.25, None])
            if nm_ == 1 and name != "LossChannel" and not err and rng.random() < 0.3:
                c = cmds[-1]
                mo = [m for m in store if m != c[2][0]]
                first = ["mul", rng.choice([0.5, -0.3]), ["meas", rng.choice(mo)]] if (mo and rng.random() < 0.7) else rng.choice([0.4, -0.25])
                nb = [name, [first] + list(c[1][1:]), list(c[2]), rng.random() < 0.25, None]
                cmds.insert(len(cmds) - rng.choice([0, 1]), nb)
    spec = {"n": n, "segs": [cmds], "bind": bind, "defaults": {}, "backend": "fock", "cutoff": 5}
    inexact = fock_inexact_merge_possible(cmds)
    r = rng.random()
    if r < 0.3:
        spec["precompile"] = "fock"
    if rng.random() < 0.3:
        spec["hbar"] = rng.choice([1.0, 0.5, 1.7])
    if rng.random() < 0.4 and not inexact:
        spec["optimize"] = True
        spec["optimize_via"] = rng.choice(["engine", "compile", "method"])
    if rng.random() < 0.3:
        spec["bind_early"] = True
    return spec


def gen_compile_spec(rng, target):
    """Measurement-free programs over free parameters only, bound before compilation (gaussian_unitary and
    passive evaluate the parameters while compiling)."""
    n = rng.randint(1, 4)
    names = rng.sample(NAMES, rng.randint(1, 3))
    bind = {nm: round(rng.uniform(-1.2, 1.2), 3) for nm in names}
    pool = [["free", nm] for nm in names]
    cand = UNITARY_OPS if target == "gaussian_unitary" else PASSIVE_OPS
    cmds = []
    modes_pool = rng.sample(range(NMODES + 4), n)     # non-contiguous, possibly descending, indices up to 8
    for _ in range(rng.randint(1, 7)):
        name = rng.choice([x for x in cand if ALL_KINDS[x][0] <= n])
        nm_, kinds = ALL_KINDS[name]
        cmds.append([name, [gen_param_tree(rng, k, pool, bind, {}) for k in kinds], rng.sample(modes_pool, nm_),
                     name != "LossChannel" and rng.random() < 0.3, None])
    return {"n": max(modes_pool) + 1, "segs": [cmds], "bind": bind, "defaults": {}, "target": target, "optimize": rng.random() < 0.3}


def compiled_circuit(spec, symbolic):
    """Compile for spec['target'] (free parameters bound first) and return the compiled commands with their
    parameters evaluated: [(op name, [arrays], [modes], dagger)] or ('error', kind)."""
    fresh_caches()
    try:
        prog = build_programs(spec, symbolic)[0]
        if symbolic:
            prog.bind_params({k: v for k, v in spec["bind"].items() if k in prog.free_params})
        c = prog.compile(compiler=spec["target"], optimize=bool(spec.get("optimize")))
        out = []
        for cmd in c.circuit:
            ps = [np.asarray(v, dtype=complex) for v in sfpar.par_evaluate(cmd.op.p)]
            if cmd.op.__class__.__name__ == "Dgate":
                # (r, phi) -> r e^{i phi}: the angle of a displacement on the negative real axis is +-pi
                ps = [ps[0] * np.exp(1j * ps[1])]
            out.append((cmd.op.__class__.__name__, ps, [r.ind for r in cmd.reg], bool(getattr(cmd.op, "dagger", False))))
        return out
    except RefParamError:
        return ("error", "ParameterError")
    except Exception as e:
        return ("error", type(e).__name__ + ": " + str(e)[:120])


def compile_predicate(d):
    spec = d["spec"] if "spec" in d else d
    a, b = compiled_circuit(spec, True), compiled_circuit(spec, False)
    if isinstance(a, tuple) or isinstance(b, tuple):
        if isinstance(a, tuple) and isinstance(b, tuple) and a[1].split(":")[0] == b[1].split(":")[0]:
            return None
        return ("compile:%s:error" % spec["target"], "compiling the symbolic program (parameters bound) gives %r, the substituted program %r" % (a if isinstance(a, tuple) else "a circuit", b if isinstance(b, tuple) else "a circuit"))
    same = len(a) == len(b) and all(x[0] == y[0] and x[2] == y[2] and x[3] == y[3] and len(x[1]) == len(y[1])
                                    and all(p.shape == q.shape and np.allclose(p, q, atol=1e-8, rtol=0) for p, q in zip(x[1], y[1])) for x, y in zip(a, b))
    if same:
        return None
    return ("compile:%s:circuit" % spec["target"], "the %s-compiled symbolic program (parameters bound) differs from the compiled substituted program: %r vs %r"
            % (spec["target"], [(x[0], x[2]) for x in a], [(x[0], x[2]) for x in b]))


def search_backends(ctx):
    rng = ctx.rng
    for i in range(ctx.budget(30, 250)):
        spec = gen_fock_spec(rng, err=(i % 8 == 0))
        f = spec_features(spec)
        bad = prog_predicate(spec)
        ctx.case({"kind": "prog", "spec": spec}, nontrivial=f["uses_measured"] or bool(spec.get("precompile")), bucket="fock" + ("-precompiled" if spec.get("precompile") else ""))
        if bad:
            ctx.counterexample(bad[0] if bad[0].startswith("apply:") else "fock:" + bad[0], bad[1], {"check": "prog", "spec": spec})
    for i in range(ctx.budget(60, 500)):
        target = ["gaussian_unitary", "passive"][i % 2]
        spec = gen_compile_spec(rng, target)
        bad = compile_predicate(spec)
        ctx.case({"kind": "compile", "spec": spec}, nontrivial=len(spec["segs"][0]) > 1, bucket="compile-" + target)
        if bad:
            ctx.counterexample(bad[0], bad[1], {"check": "compile", "spec": spec})


def replay_compile(ctx, d):
    print("symbolic   :", compiled_circuit(d["spec"], True))
    print("substituted:", compiled_circuit(d["spec"], False))
    bad = compile_predicate(d)
    print("predicate:", bad)
    return bad is not None



# ---------------------------------------------------------------------------------------
# search S6: deterministic sweep of the shapes the optimiser merges, with feed-forward parameters
#
# On one mode, neighbouring single-mode gates of one family with equal other parameters, some carrying a measured
# parameter and some not, in every order (plain-measured, measured-plain, plain-measured-plain,
# measured-plain-measured), with the dagger flag on either, for every single-mode gate family, with optimisation
# requested through Engine.run(compile_options), Program.compile(optimize=True) and Program.optimize().

SHAPE_FAMILIES = [("Dgate", [0.3], "gaussian"), ("Xgate", [], "gaussian"), ("Zgate", [], "gaussian"), ("Sgate", [0.4], "gaussian"),
                  ("Rgate", [], "gaussian"), ("Pgate", [], "gaussian"), ("Kgate", [], "fock"), ("Vgate", [], "fock")]
SHAPES = ["pm", "mp", "pmp", "mpm"]
SHAPE_DAGGERS = [(), (0,), (1,)]
SHAPE_VIAS = ["engine", "compile", "method"]


def shape_spec(family, rest, backend, shape, daggers, via, plain=0.4, coeff=0.5, sel=0.6, free_plain=False):
    """Mode 0 is prepared, entangled with the target mode and measured (post-selected); the target mode 2 (1 on
    fock) then gets the gate sequence; a final beam splitter makes every gate count."""
    t = 2 if backend == "gaussian" else 1
    pre = [["Sgate", [0.3, 0.2], [0], False, None], ["BSgate", [0.5, 0.3], [0, t], False, None],
           ["MeasureHomodyne", [0.0], [0], False, sel]]
    seq = []
    for i, ch in enumerate(shape):
        first = ["mul", coeff, ["meas", 0]] if ch == "m" else (["free", "a"] if free_plain else plain * (1 + 0.5 * i))
        seq.append([family, [first] + list(rest), [t], i in daggers, None])
    post = [["BSgate", [0.7, 0.1], [0, t], False, None], ["Rgate", [0.3], [t], False, None]]
    spec = {"n": 3 if backend == "gaussian" else 2, "segs": [pre + seq + post], "bind": {"a": plain} if free_plain else {}, "defaults": {},
            "optimize": True, "optimize_via": via}
    if backend == "fock":
        spec.update(backend="fock", cutoff=5)
    return spec


def search_optimize_shapes(ctx):
    rng = ctx.rng
    n = 0
    for family, rest, backend in SHAPE_FAMILIES:
        for shape in SHAPES:
            for daggers in SHAPE_DAGGERS:
                for via in SHAPE_VIAS:
                    n += 1
                    if backend == "fock" and ctx.quick and (n % 2):
                        continue        # the fock half of the sweep alternates in the quick tier
                    spec = shape_spec(family, rest, backend, shape, daggers, via,
                                      plain=rng.choice([0.4, -0.35, 0.25]), coeff=rng.choice([0.5, -0.4]), sel=rng.choice([0.6, -0.45]),
                                      free_plain=rng.random() < 0.3)
                    if n % 3 == 0:
                        spec["hbar"] = [1.0, 0.5, 1.7][(n // 3) % 3]     # a third of the sweep away from the default hbar = 2
                    bad = prog_predicate(spec)
                    ctx.case({"kind": "shape", "family": family, "shape": shape, "daggers": list(daggers), "via": via, "spec": spec},
                             nontrivial=True, bucket="shape-%s-%s" % (family, via))
                    if bad:
                        ctx.counterexample("optimize-shape:%s:%s" % (family, bad[0]), "%s sequence '%s' (p = plain, m = measured parameter; dagger on %r; optimize via %s): %s"
                                           % (family, shape, list(daggers), via, bad[1]), {"check": "prog", "spec": spec})


# ---------------------------------------------------------------------------------------
# search S7: loaded programs.  par_convert (parameters.py) turns the symbols of a parsed Blackbird / XIR program
# (q<k> for the outcome of mode k, anything else a free parameter) into MeasuredParameter / FreeParameter objects.
#  (i)  par_convert directly on sympy expressions over plain symbols, registers of up to 13 modes (multi-digit indices);
#  (ii) programs with measured parameters on up to 13 modes saved with to_blackbird / to_xir, re-loaded, and compared
#       with the API-built program: dependency sets, classes and modes, final state (post-selected homodyne), and
#       with the substituted program.
# The Blackbird grammar / serialiser (library code and strawberryfields.io, property C14) restricts what can be
# round-tripped: measured parameters in arithmetic without powers, functions or free parameters, no daggers.

LOADER_MODES = 13


def gen_convert_case(rng):
    pool = [["free", n] for n in rng.sample(["a", "b", "c", "d", "alpha", "theta1", "x10"], rng.randint(0, 2))]
    ks = rng.sample(range(LOADER_MODES), rng.randint(1, 3))
    if rng.random() < 0.6:
        # an index >= 10 together with the mode named by its first digit
        k = rng.choice([10, 11, 12])
        ks = [k, int(str(k)[0])] + ks[:1]
    pool += [["meas", k] for k in dict.fromkeys(ks)]
    for _ in range(30):
        tree = gen_tree(rng, rng.randint(1, 3), pool, rng.random() < 0.4, 0)
        if survives_plain(tree) and any(k == "meas" for k, _ in atoms(tree)):
            break
    else:
        tree = ["add", ["meas", ks[0]], 0.5]
    free = {a: [round(rng.uniform(-1.5, 1.5), 3), None] for k, a in atoms(tree) if k == "free"}
    meas = {a: [rng.choice([0.25, -0.5, 0.75, 1.25, -1.0, 0.375, 1.5])] for k, a in atoms(tree) if k == "meas"}
    vals = list({v[0] for v in meas.values()})
    # distinct outcomes on distinct modes, and something else again on the other modes
    allv = [0.25, -0.5, 0.75, 1.25, -1.0, 0.375, 1.5, -0.125, 0.625, -1.75, 2.0, 0.875, -0.375]
    rng.shuffle(allv)
    store = {str(k): [allv[k]] for k in range(LOADER_MODES)}
    return {"check": "convert", "tree": tree, "free": free, "meas": store, "via_transform": rng.random() < 0.3}


def plain_expr(tree):
    import sympy
    return build_expr(tree, lambda n: sympy.Symbol(n), lambda k: sympy.Symbol("q%d" % k))


def survives_plain(tree):
    import sympy
    try:
        e = plain_expr(tree)
    except Exception:
        return False
    want = {("q%d" % a) if k == "meas" else a for k, a in atoms(tree)}
    return isinstance(e, sympy.Basic) and {str(x) for x in e.free_symbols} == want


def convert_predicate(c):
    import blackbird
    fresh_caches()
    prog = sf.Program(LOADER_MODES)
    e = plain_expr(c["tree"])
    arg = blackbird.RegRefTransform(e) if (c.get("via_transform") and not any(k == "free" for k, _ in atoms(c["tree"]))) else e
    try:
        out = sfpar.par_convert([arg, 0.5], prog)
        conv = out[0]
        conv.atoms
    except Exception as ex:
        return ("convert:error", "par_convert of an expression over %s raised / returned a non-expression: %s %s" % (sorted(str(x) for x in e.free_symbols), type(ex).__name__, str(ex)[:80]))
    if out[1] != 0.5:
        return ("convert:numeric", "par_convert changed a numeric argument: %r" % (out[1],))
    want_meas = sorted({a for k, a in atoms(c["tree"]) if k == "meas"})
    want_free = sorted({a for k, a in atoms(c["tree"]) if k == "free"})
    got_meas = sorted(x.regref.ind for x in conv.atoms(sfpar.MeasuredParameter))
    got_free = sorted(x.name for x in conv.atoms(sfpar.FreeParameter))
    if got_meas != want_meas or got_free != want_free or any(x.regref is not prog.reg_refs[x.regref.ind] for x in conv.atoms(sfpar.MeasuredParameter)):
        return ("convert:atoms", "expression over symbols %s converted to measured parameters of modes %r and free parameters %r (expected modes %r, names %r)"
                % (sorted(str(x) for x in e.free_symbols), got_meas, got_free, want_meas, want_free))
    deps = sorted(r.ind for r in sfpar.par_regref_deps(conv))
    if deps != want_meas:
        return ("convert:deps", "par_regref_deps of the converted expression %r, expected %r" % (deps, want_meas))
    for k, v in c["meas"].items():
        prog.reg_refs[int(k)].val = np.array(v)
    prog.bind_params({n: v[0] for n, v in c["free"].items()})
    got = to_plain(sfpar.par_evaluate(conv))
    ref = ref_eval(c["tree"], c["free"], {int(k): v for k, v in c["meas"].items()})
    if ref[0] == "ok" and not close(got, ref[1]):
        return ("convert:value", "converted expression evaluates to %r, the expression over the stored outcomes is %r" % (got, ref[1]))
    return None


LOADER_GATES = {"Xgate": 1, "Zgate": 1, "Rgate": 1, "Dgate": 1, "Sgate": 1, "BSgate": 2, "CXgate": 2}


def gen_loader_arith(rng, pool, d):
    """measured atoms, sums, multiples by constants and products of two different atoms: no powers (the XIR grammar
    has none and Blackbird reads -q1**2 as (-q1)**2), which is what both grammars and sympy's printer agree on"""
    if d <= 0:
        if len(pool) >= 2 and rng.random() < 0.3:
            a, b = rng.sample(pool, 2)
            return ["mul", list(a), list(b)]
        return list(rng.choice(pool))
    k = rng.choice(["add", "addc", "mulc"])
    if k == "addc":
        return ["add", gen_loader_arith(rng, pool, d - 1), rng.choice([0.5, 0.25, 1.5])]
    if k == "mulc":
        return ["mul", rng.choice([2.0, 0.5, -0.25, -1.5]), gen_loader_arith(rng, pool, d - 1)]
    return ["add", gen_loader_arith(rng, pool, d - 1), gen_loader_arith(rng, pool, rng.randint(0, d - 1))]


def gen_loader_spec(rng):
    n = rng.randint(11, LOADER_MODES)
    hi = rng.sample(range(10, n), rng.randint(1, min(2, n - 10)))
    measured = list(dict.fromkeys(hi + [int(str(k)[0]) for k in hi] + rng.sample(range(n), rng.randint(0, 2))))
    rng.shuffle(measured)
    sels = rng.sample([0.3, -0.7, 0.55, 1.1, -0.2, 0.85, -1.05, 0.45], len(measured))
    cmds = []
    for m in range(0, n, 3):
        cmds.append(["Sgate", [round(rng.uniform(0.2, 0.5), 3), 0.0], [m], False, None])
    if (n - 1) % 3:
        cmds.append(["Sgate", [0.25, 0.0], [n - 1], False, None])     # the loader sizes the register by the largest mode used
    cmds.append(["BSgate", [0.5, 0.2], [hi[0], int(str(hi[0])[0])], False, None])
    for m, sel in zip(measured, sels):
        cmds.append(["MeasureHomodyne", [0.0], [m], False, sel])
    pool = [["meas", m] for m in measured]
    targets = [m for m in range(n) if m not in measured]
    for _ in range(rng.randint(2, 5)):
        name = rng.choice(sorted(LOADER_GATES))
        nm_ = LOADER_GATES[name]
        first = gen_loader_arith(rng, pool, rng.randint(0, 2))
        if name in ("Sgate", "Dgate"):
            first = ["mul", 0.3, first]
        kinds = ALL_KINDS[name][1]
        trees = [first] + [round(rng.uniform(-1, 1), 3) for _ in kinds[1:]]
        cmds.append([name, trees, rng.sample(targets, nm_), False, None])
    return {"check": "loader", "format": "xir" if rng.random() < 0.1 else "blackbird", "spec": {"n": n, "segs": [cmds], "bind": {}, "defaults": {}}}


def load_roundtrip(prog, fmt):
    from strawberryfields import io
    if fmt == "blackbird":
        return io.loads(io.to_blackbird(prog).serialize())
    import xir
    return io.to_program(xir.parse_script(io.to_xir(prog).serialize()))


def prog_fingerprint(prog):
    return [(c.op.__class__.__name__, [r.ind for r in c.reg], sorted(r.ind for r in c.op.measurement_deps)) for c in prog.circuit]


def loader_predicate(d):
    spec, fmt = d["spec"], d["format"]
    fresh_caches()
    prog = build_programs(spec, True)[0]
    try:
        loaded = load_roundtrip(prog, fmt)
    except Exception as e:
        return ("unsupported", "%s: %s" % (type(e).__name__, str(e)[:100]))
    fa, fb = prog_fingerprint(prog), prog_fingerprint(loaded)
    if fmt == "xir" and not any(x[2] for x in fb) and any(x[2] for x in fa):
        return ("unsupported", "to_xir wrote no measured parameters")
    if fa != fb:
        diff = [(x, y) for x, y in zip(fa, fb) if x != y][:3]
        return ("loader:%s:deps" % fmt, "the re-loaded program differs from the saved one in (class, modes, measured dependencies): %r" % (diff,))

    def run(p):
        np.random.seed(7)
        st = sf.Engine("gaussian").run(p).state
        return np.array(st.means()), np.array(st.cov())
    try:
        a = run(loaded)
    except Exception as e:
        return ("loader:%s:run" % fmt, "the re-loaded program raises %s: %s" % (type(e).__name__, str(e)[:120]))
    b = run_spec(spec, False)
    if b["error"] or not all(np.allclose(x, y, atol=1e-6, rtol=0) for x, y in zip(a, b["state"])):
        return ("loader:%s:state" % fmt, "the re-loaded program does not prepare the state of the program with the outcomes substituted")
    return None


def search_loader(ctx):
    rng = ctx.rng
    for _ in range(ctx.budget(120, 1200)):
        c = gen_convert_case(rng)
        bad = convert_predicate(c)
        ats = atoms(c["tree"])
        ctx.case(c, nontrivial=any(k == "meas" and a >= 10 for k, a in ats), bucket="convert")
        if bad:
            ctx.counterexample(bad[0], bad[1], c)
    for _ in range(ctx.budget(25, 200)):
        d = gen_loader_spec(rng)
        bad = loader_predicate(d)
        if bad and bad[0] == "unsupported":
            ctx.hist["loader-%s-unsupported" % d["format"]] = ctx.hist.get("loader-%s-unsupported" % d["format"], 0) + 1
            continue
        ctx.case(d, nontrivial=True, bucket="loader-" + d["format"])
        if bad:
            ctx.counterexample(bad[0], bad[1], d)


def replay_convert(ctx, d):
    bad = convert_predicate(d)
    print("predicate:", bad)
    return bad is not None


def replay_loader(ctx, d):
    bad = loader_predicate(d)
    print("predicate:", bad)
    return bad is not None and bad[0] != "unsupported"


# ---------------------------------------------------------------------------------------
# search S8: guards and error conditions around parameters (deterministic, a few variants per run)

def _expect(fn, kinds):
    """None if fn() raises one of the exception class names in kinds, else what happened."""
    try:
        r = fn()
    except Exception as e:
        return None if type(e).__name__ in kinds else "raised %s: %s" % (type(e).__name__, str(e)[:80])
    return "no exception (returned %r)" % (r,)


def guard_cases(rng):
    """(name, thunk returning None if fine / a description of what went wrong)"""
    from strawberryfields.program_utils import RegRefError, CircuitError  # noqa: F401
    n = rng.randint(3, 5)
    k = rng.randrange(n)
    gate = rng.choice(["Dgate", "Sgate", "Rgate", "Xgate", "BSgate"])
    two = gate == "BSgate"

    def mk(first):
        cls = getattr(ops, gate)
        return cls(first, 0.3) if gate in ("Dgate", "Sgate", "BSgate") else cls(first)

    def target(q, avoid):
        ms = [m for m in range(n) if m != avoid]
        return (q[ms[0]], q[ms[1]]) if two else q[ms[0]]

    def regref_as_parameter():
        prog = sf.Program(n)
        with prog.context as q:
            return _expect(lambda: mk(q[k]) | target(q, k), ("TypeError",))

    def regref_as_second_parameter():
        prog = sf.Program(n)
        with prog.context as q:
            return _expect(lambda: ops.Dgate(0.2, q[k]) | target(q, k) if not two else ops.BSgate(0.2, q[k]) | target(q, k), ("TypeError",))

    def foreign_measured_parameter():
        other = sf.Program(n)
        prog = sf.Program(n)
        with prog.context as q:
            return _expect(lambda: mk(0.5 * other.register[k].par) | target(q, k), ("RegRefError",))

    def deleted_mode_parameter():
        prog = sf.Program(n)
        with prog.context as q:
            par = q[k].par
            ops.MeasureHomodyne(0.0, select=0.2) | q[k]
            ops.Del | q[k]
            a = _expect(lambda: q[k].par, ("ValueError",))
            b = _expect(lambda: mk(par * 0.5) | target(q, k), ("RegRefError",))
            return a or b

    def feed_forward_with_shots():
        prog = sf.Program(n)
        with prog.context as q:
            ops.MeasureThreshold() | q[k]        # a measurement the backend does support with several shots
            mk(0.5 * q[k].par) | target(q, k)
        return _expect(lambda: sf.Engine("gaussian").run(prog, shots=3), ("NotImplementedError",))

    def locked_program_new_parameter():
        prog = sf.Program(n)
        a = prog.params("a")
        with prog.context as q:
            mk(a) | target(q, k)
        prog.lock()
        if prog.params("a") is not a:
            return "params('a') on a locked program does not return the existing parameter"
        return _expect(lambda: prog.params("zz"), ("CircuitError",))

    def params_many_names():
        prog = sf.Program(n)
        r = prog.params("a", "b", "a")
        if not (isinstance(r, list) and len(r) == 3 and r[0] is r[2] and r[0].name == "a" and r[1].name == "b" and set(prog.free_params) == {"a", "b"}):
            return "params('a', 'b', 'a') returned %r, free_params %r" % (r, sorted(prog.free_params))
        return _expect(lambda: prog.params(3), ("TypeError",))

    def multi_shot_values_by_mode():
        # every RegRef holds the whole column of outcomes of ITS mode (all shots), whatever the order of the modes
        prog = sf.Program(n)
        order = list(range(n))
        rng.shuffle(order)
        order = order[:rng.randint(2, n)]
        if order == sorted(order):
            order = order[::-1]
        with prog.context as q:
            for m in range(n):
                if m % 2 == 0:
                    ops.Coherent(4.0 + m, 0.0) | q[m]
            ops.MeasureThreshold() | tuple(q[m] for m in order)
        shots = rng.choice([2, 4])
        np.random.seed(11)
        res = sf.Engine("gaussian").run(prog, shots=shots)
        for m in order:
            want = [1 - (m % 2)] * shots
            got = np.ravel(prog.reg_refs[m].val).tolist()
            col = np.ravel(res.samples_dict[m][-1]).tolist()
            if got != want or col != want:
                return "modes %r measured with %d shots: RegRef %d holds %r, samples_dict %r, expected %r" % (order, shots, m, got, col, want)
        return None

    def unbound_in_second_parameter():
        prog = sf.Program(n)
        with prog.context as q:
            ops.Dgate(0.3, prog.params("a")) | q[k]
        return _expect(lambda: sf.Engine("gaussian").run(prog), ("ParameterError",))

    def bound_value_zero_and_default_zero():
        # 0 is a value like any other: a parameter bound to 0 is bound, a default of 0 is a default
        prog = sf.Program(n)
        with prog.context as q:
            ops.Dgate(0.5 + prog.params("a"), prog.params("b")) | q[k]
        prog.params("b").default = 0.0
        prog.params("a").default = 0.7
        try:
            st = sf.Engine("gaussian").run(prog, args={"a": 0}).state
        except Exception as e:
            return "raised %s: %s" % (type(e).__name__, str(e)[:80])
        x = float(st.means()[k])
        return None if abs(x - 1.0) < 1e-9 else "Dgate(0.5 + a, b) with a bound to 0 (default 0.7) and b defaulting to 0 displaces by %r instead of 1.0" % x

    return [(f.__name__, f) for f in (regref_as_parameter, regref_as_second_parameter, foreign_measured_parameter, deleted_mode_parameter,
                                     feed_forward_with_shots, locked_program_new_parameter, params_many_names, multi_shot_values_by_mode,
                                     unbound_in_second_parameter, bound_value_zero_and_default_zero)]


def search_guards(ctx):
    rng = ctx.rng
    for rep in range(ctx.budget(3, 12)):
        for name, fn in guard_cases(rng):
            fresh_caches()
            try:
                bad = fn()
            except Exception as e:
                bad = "harness: %s %s" % (type(e).__name__, str(e)[:100])
            ctx.case({"kind": "guard", "name": name, "rep": rep}, nontrivial=True, bucket="guard-" + name)
            if bad:
                ctx.counterexample("guard:" + name, bad, {"check": "guard", "name": name, "seed": ctx.seed})


def guard_predicate(d):
    import random
    for rep in range(6):
        for name, fn in guard_cases(random.Random(d.get("seed", 0) * 100 + rep)):
            if name == d["name"]:
                fresh_caches()
                bad = fn()
                if bad:
                    return ("guard:" + name, bad)
    return None


def replay_guard(ctx, d):
    bad = guard_predicate(d)
    print("predicate:", bad)
    return bad is not None


# ---------------------------------------------------------------------------------------
# search S9: deterministic sweep "one operation, one symbolic parameter": every operation that accepts parameters,
# every parameter position, the parameter being a free parameter or a function of a measured value, plain and
# daggered, on every backend that applies the operation (natively or decomposed), default and non-default hbar.

OP_SWEEP = dict(SYM_OPS)
OP_SWEEP.update(FOCK_OPS)
OP_SWEEP.update({k: v for k, v in SYM_PREPS.items() if v[1]})
GAUSS_ONLY = ("ThermalLossChannel",)
FOCK_ONLY = ("Kgate", "Vgate", "CKgate")
SWEEP_VALUE = {"r": 0.35, "a": 0.8, "x": 0.45, "t": 0.7, "n": 0.4}


def op_sweep_spec(name, pos, kind, dagger, backend, hbar=None, sel=0.55):
    nm_, kinds = OP_SWEEP[name]
    t = 1
    modes = [t] if nm_ == 1 else [t, 2 if backend != "fock" else 0]
    if backend == "fock" and nm_ == 2:
        modes = [1, 0]
    atom = ["free", "a"] if kind == "free" else ["meas", 0]
    aval = 0.6 if kind == "free" else sel
    trees = []
    for i, k in enumerate(kinds):
        v = SWEEP_VALUE[k] * (1 + 0.3 * i)
        if i == pos:
            # an expression whose value under the binding / outcome is v
            tr = ["mul", v / math.sin(aval), ["fn", "sin", atom]] if k not in ("t", "n") else ["mul", v / aval ** 2, ["pow", atom, 2]]
            trees.append(tr)
        else:
            trees.append(round(v, 6))
    gl = backend != "fock"
    n = 3 if gl else 2
    other = 2 if gl else 0
    pre = [["Sgate", [0.3, 0.2], [0], False, None], ["Dgate", [0.25, 0.4], [t], False, None], ["BSgate", [0.5, 0.3], [0, t], False, None]]
    if kind == "meas":
        pre.append(["MeasureHomodyne", [0.0], [0], False, sel])
    pre.append(["Sgate", [0.2, -0.3], [other], False, None])
    post = [["BSgate", [0.7, 0.1], [t, other], False, None], ["Rgate", [0.3], [t], False, None]]
    spec = {"n": n, "segs": [pre + [[name, trees, modes, dagger, None]] + post], "bind": {"a": 0.6} if kind == "free" else {}, "defaults": {}}
    if backend == "fock":
        spec.update(backend="fock", cutoff=5)
    elif backend == "bosonic":
        spec["backend"] = "bosonic"
    if hbar:
        spec["hbar"] = hbar
    return spec


def search_op_sweep(ctx):
    rng = ctx.rng
    i = 0
    for name in sorted(OP_SWEEP):
        nm_, kinds = OP_SWEEP[name]
        for pos in range(len(kinds)):
            for kind in ("free", "meas"):
                for dagger in ((False, True) if name in GATES_WITH_H or name in FOCK_ONLY else (False,)):
                    for backend in ("gaussian", "fock", "bosonic"):
                        if (backend != "fock" and name in FOCK_ONLY) or (backend == "fock" and name in GAUSS_ONLY) or (backend == "bosonic" and name == "sMZgate"):
                            continue
                        i += 1
                        if ctx.quick and backend == "fock" and name not in FOCK_ONLY and name != "MZgate" and (i + ctx.seed) % 3:
                            continue      # quick: a rotating third of the fock half for operations also covered on gaussian
                        if ctx.quick and backend == "bosonic" and (i + ctx.seed) % 3:
                            continue
                        hbar = [None, 1.0, None, 0.5][i % 4]
                        spec = op_sweep_spec(name, pos, kind, dagger, backend, hbar, sel=rng.choice([0.55, -0.4, 0.7]))
                        bad = prog_predicate(spec)
                        ctx.case({"kind": "op-sweep", "op": name, "pos": pos, "atom": kind, "dagger": dagger, "backend": backend, "spec": spec},
                                 nontrivial=True, bucket="opsweep-%s-%s" % (backend, name))
                        if bad and not bad[0].startswith("apply:"):
                            ctx.counterexample("op-sweep:%s:p%d:%s:%s" % (name, pos, backend, bad[0]),
                                               "%s%s on %s with parameter %d a %s expression: %s" % (name, ".H" if dagger else "", backend, pos, "free-parameter" if kind == "free" else "measured-value", bad[1]),
                                               {"check": "prog", "spec": spec})
                        elif bad:
                            ctx.counterexample(bad[0], bad[1], {"check": "prog", "spec": spec})
